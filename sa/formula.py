"""Evaluator for small closed-form arithmetic in the source (digit counts, term counts).

Evaluates an expression / a straight-line function body from its syntax tree with Python's own
int/float arithmetic: constants, names from an environment, + - * / // ** comparisons, and/or/not,
conditional expressions, if/return/assign statements, and the pure functions int, round, max, min,
abs, float, math.log (1 or 2 arguments), math.sqrt, math.ceil, math.floor, math.exp.  Anything else
raises AnalysisError: a formula that cannot be evaluated is never taken to satisfy its bound.
"""
import ast
import math

from .index import AnalysisError, norm

PURE = {'int': int, 'round': round, 'max': max, 'min': min, 'abs': abs, 'float': float}
MATH = {'log': math.log, 'sqrt': math.sqrt, 'ceil': math.ceil, 'floor': math.floor, 'exp': math.exp,
        'log2': math.log2, 'log10': math.log10}
MATH_CONST = {'e': math.e, 'pi': math.pi}


class Evaluator(object):
    def __init__(self, funcs=None):
        self.funcs = funcs or {}          # name -> ast.FunctionDef (pure helpers that may be called)

    def call(self, fn, args):
        env = dict(zip([a.arg for a in fn.args.args], args))
        return self.block(fn.body, env)

    def block(self, body, env):
        for st in body:
            if isinstance(st, ast.Expr) and isinstance(st.value, ast.Constant):
                continue
            if isinstance(st, ast.Return):
                return self.ev(st.value, env)
            if isinstance(st, ast.Assign) and len(st.targets) == 1 and isinstance(st.targets[0], ast.Name):
                env[st.targets[0].id] = self.ev(st.value, env)
                continue
            if isinstance(st, ast.If):
                r = self.block(st.body if self.ev(st.test, env) else st.orelse, env)
                if r is not None:
                    return r
                continue
            raise AnalysisError('formula: unmodelled statement %s' % norm(st))
        return None

    def ev(self, e, env):
        if isinstance(e, ast.Constant):
            return e.value
        if isinstance(e, ast.Name):
            if e.id in env:
                return env[e.id]
            raise AnalysisError('formula: unknown name %s' % e.id)
        if isinstance(e, ast.Attribute) and isinstance(e.value, ast.Name) and e.value.id == 'math' and \
                e.attr in MATH_CONST:
            return MATH_CONST[e.attr]
        if isinstance(e, ast.BinOp):
            a, b = self.ev(e.left, env), self.ev(e.right, env)
            ops = {ast.Add: lambda: a + b, ast.Sub: lambda: a - b, ast.Mult: lambda: a * b,
                   ast.Div: lambda: a / b, ast.FloorDiv: lambda: a // b, ast.Pow: lambda: a ** b,
                   ast.Mod: lambda: a % b, ast.LShift: lambda: a << b, ast.RShift: lambda: a >> b}
            if type(e.op) in ops:
                return ops[type(e.op)]()
        if isinstance(e, ast.UnaryOp):
            v = self.ev(e.operand, env)
            if isinstance(e.op, ast.USub):
                return -v
            if isinstance(e.op, ast.UAdd):
                return +v
            if isinstance(e.op, ast.Not):
                return not v
        if isinstance(e, ast.Compare) and len(e.ops) > 1:
            left = e.left
            r = True
            for op, right in zip(e.ops, e.comparators):
                r = self.ev(ast.Compare(left=left, ops=[op], comparators=[right]), env)
                if not r:
                    return r
                left = right
            return r
        if isinstance(e, ast.Compare) and len(e.ops) == 1:
            a, b = self.ev(e.left, env), self.ev(e.comparators[0], env)
            ops = {ast.Eq: a == b, ast.NotEq: a != b, ast.Lt: a < b, ast.LtE: a <= b, ast.Gt: a > b,
                   ast.GtE: a >= b}
            if type(e.ops[0]) in ops:
                return ops[type(e.ops[0])]
        if isinstance(e, ast.BoolOp):
            v = isinstance(e.op, ast.And)
            for x in e.values:
                v = self.ev(x, env)
                if isinstance(e.op, ast.And) and not v:
                    return v
                if isinstance(e.op, ast.Or) and v:
                    return v
            return v
        if isinstance(e, ast.IfExp):
            return self.ev(e.body if self.ev(e.test, env) else e.orelse, env)
        if isinstance(e, ast.Call):
            args = [self.ev(a, env) for a in e.args]
            if isinstance(e.func, ast.Name):
                if e.func.id in PURE:
                    return PURE[e.func.id](*args)
                if e.func.id in self.funcs:
                    return self.call(self.funcs[e.func.id], args)
            if isinstance(e.func, ast.Attribute) and isinstance(e.func.value, ast.Name) and \
                    e.func.value.id == 'math' and e.func.attr in MATH:
                return MATH[e.func.attr](*args)
        raise AnalysisError('formula: unmodelled expression %s' % norm(e))
