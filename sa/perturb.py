"""Rule C-R10: direction of the `x + eps` shortcuts.

Where a kernel knows f(x) = x + eps (or 1 + eps, -1 + eps) with |eps| below the
precision it returns `mpf_perturb(x, eps_sign, prec, rnd)`, which picks the
neighbour of x on the side of eps in the directed modes.  A wrong eps_sign gives
a floor above / a ceiling below the exact value (the defect of the pinned tree
in mpf_log: log(1+t) - t is negative for either sign of t, but the sign of t was
passed), which is exactly what breaks interval containment.

The sign of eps is a mathematical fact about the function: the sign of the
second non-vanishing Taylor term.  Each site is listed below with that fact; the
eps_sign expression is evaluated for both values of the argument's sign bit and
must agree.  A site that is not in the table is an ANALYSIS-ERROR (a new
shortcut has to be classified before it can pass).
"""
import ast

from .index import AnalysisError, norm

# class of eps relative to the argument x (sign bit s of x): the eps_sign argument must equal
#   'neg': 1      'pos': 0      'same': s      'opp': 1 - s      'alt': the flag `alt`
# (function, text of the first argument, guard substring that selects the site or None) -> (class, fact)
SITES = [
    ('mpf_zeta_int', 'fone', None, 'pos', 'zeta(s) = 1 + 2**-s + ... > 1'),
    ('mpf_zeta', 'fone', None, 'alt', 'zeta(s) > 1 but altzeta(s) = 1 - 2**-s + ... < 1'),
    ('mpf_log', 't', None, 'neg', 'log(1+t) - t = -t**2/2 + ... < 0 for either sign of t'),
    ('mpf_atan', 'x', None, 'opp', 'atan(x) - x = -x**3/3 + ...'),
    ('mpf_asinh', 'x', None, 'opp', 'asinh(x) - x = -x**3/6 + ...'),
    ('mpf_atanh', 'x', None, 'same', 'atanh(x) - x = x**3/3 + ...'),
    ('mpf_exp', 'fone', None, 'same', 'exp(x) - 1 = x + ...'),
    ('mpf_cosh_sinh', 'fone', None, 'pos', 'cosh(x) - 1 = x**2/2 + ... > 0'),
    ('mpf_cosh_sinh', 'x', 'tanh', 'opp', 'tanh(x) - x = -x**3/3 + ...'),
    ('mpf_cosh_sinh', 'x', None, 'same', 'sinh(x) - x = x**3/6 + ...'),
    ('mpf_cosh_sinh', '[fone, fnone][sign]', None, 'opp', 'tanh(x) = +-1 -+ 2*exp(-2|x|): towards zero'),
    ('mpf_cos_sin', 'fone', None, 'neg', 'cos(x) - 1 = -x**2/2 + ... < 0'),
    ('mpf_cos_sin', 'x', 'which == 3', 'same', 'tan(x) - x = x**3/3 + ...'),
    ('mpf_cos_sin', 'x', None, 'opp', 'sin(x) - x = -x**3/6 + ...'),
    ('mpf_erf', 'fnone', None, 'pos', 'erf(x) > -1'),
    ('mpf_erf', 'fone', None, 'neg', 'erf(x) < 1'),
    ('mpf_ci_si', 'x', None, 'opp', 'si(x) - x = -x**3/18 + ...'),
]
TRUTH = {'neg': (1, 1), 'pos': (0, 0), 'same': (0, 1), 'opp': (1, 0)}


def ev(e, env):
    if isinstance(e, ast.Constant) and isinstance(e.value, (int, bool)):
        return int(e.value)
    if isinstance(e, ast.Name) and e.id in env:
        return env[e.id]
    if isinstance(e, ast.BinOp):
        a, b = ev(e.left, env), ev(e.right, env)
        if a is None or b is None:
            return None
        if isinstance(e.op, ast.Sub):
            return a - b
        if isinstance(e.op, ast.BitXor):
            return a ^ b
        if isinstance(e.op, ast.Add):
            return a + b
    if isinstance(e, ast.UnaryOp) and isinstance(e.op, ast.Not):
        a = ev(e.operand, env)
        return None if a is None else int(not a)
    return None


def guards_of(node, stop):
    out = []
    p = node
    while p is not None and p is not stop:
        par = getattr(p, '_parent', None)
        if isinstance(par, ast.If):
            if any(p is s for s in par.body):
                out.append(norm(par.test, 80))
            else:
                out.append('not (%s)' % norm(par.test, 80))
        p = par
    return out


def check_perturbations(run, ix, rule='C-R10'):
    from .report import Finding
    n = 0
    for rel in sorted(ix.modules):
        if not rel.startswith('mpmath/libmp/'):
            continue
        m = ix.modules[rel]
        for f in m.funcs.values():
            if f.parent is not None or not isinstance(f.node, ast.FunctionDef) or f.name == 'mpf_perturb':
                continue
            for x in ast.walk(f.node):
                if not (isinstance(x, ast.Call) and norm(x.func) == 'mpf_perturb' and len(x.args) >= 2):
                    continue
                n += 1
                a0 = norm(x.args[0])
                gs = guards_of(x, f.node)
                rows = [r for r in SITES if r[0] == f.name and r[1] == a0]
                row = None
                for r in rows:
                    if r[2] is not None and any(g == r[2] or g.startswith(r[2]) for g in gs):
                        row = r
                        break
                if row is None:
                    for r in rows:
                        if r[2] is None:
                            row = r
                if row is None:
                    raise AnalysisError('untriaged mpf_perturb site: %s in %s:%s has no row in sa/perturb.py '
                                        '(the sign of the neglected term must be stated)' % (norm(x), rel, f.name))
                cls, fact = row[3], row[4]
                e = x.args[1]
                st = x
                while not isinstance(st, ast.stmt):
                    st = st._parent
                if cls == 'alt':
                    ok = isinstance(e, ast.Name) and e.id == 'alt'
                    got = norm(e)
                else:
                    # the sign bit: first element of the unpacking of the function's argument
                    sname = None
                    for y in ast.walk(f.node):
                        if isinstance(y, ast.Assign) and isinstance(y.targets[0], ast.Tuple) and \
                                len(y.targets[0].elts) == 4 and norm(y.value) == f.params[0]:
                            sname = norm(y.targets[0].elts[0])
                    vals = tuple(ev(e, {sname or 'sign': s, 'tsign': s}) for s in (0, 1))
                    ok = vals == TRUTH[cls]
                    got = '%s -> %s for sign bit 0/1' % (norm(e), list(vals))
                if ok:
                    run.ok(rule, '%s: %s  [%s]' % (f.name, norm(x, 60), fact))
                else:
                    want = {'neg': '1 (eps < 0)', 'pos': '0 (eps > 0)', 'same': 'the sign bit of x',
                            'opp': '1 - sign bit of x', 'alt': 'alt'}[cls]
                    run.fail(Finding(rule, rel, f.name, norm(st),
                                     'the neglected term has the wrong sign: %s, so eps_sign must be %s, but it is '
                                     '%s; in the directed modes the result is then on the wrong side of the exact '
                                     'value' % (fact, want, got), line=st.lineno))
    return n
