"""Non-negativity of integer expressions (rule Y-R8 of C37: arguments of bitcount).

python_bitcount (bisect in a table of powers of two) returns 0 for a negative integer, gmpy's bit_length the bit
length of its absolute value: `bitcount(e)` means the same on both back ends only for e >= 0.  This module decides
e >= 0 from the source of the enclosing function:

  literals, abs(), len(), bitcount(), factorials; products, sums, shifts, floor quotients, powers of non-negative
  parts; x*x and even powers; a % b; max(..) with one non-negative argument, min(..) with all; conditional
  expressions; names -- every definition of the name in the function is non-negative (assignments, augmented
  assignments that keep the sign, for-loops over non-negative ranges), or the use is guarded (an earlier
  `if n < 0: return/raise/continue`, an enclosing `if n >= 0` / `if n > 0` / `if n`-after-nonneg);
  mantissa and bit-count fields unpacked from a raw mpf 4-tuple (`sign, man, exp, bc = x`: property C01);
  parameters: only through the frozen table PARAM_CONTRACT below (one reason each).

The analysis is flow-insensitive for definitions (ALL definitions must be non-negative) and therefore sound but
incomplete; what it cannot decide is reported, never assumed."""
import ast

from .index import norm
from .prec_effect import _walk_own

# (function qualname, parameter) -> why the parameter is a non-negative integer
PARAM_CONTRACT = {
    ('apery_fixed', 'prec'): 'a working precision (positive bit count)',
    ('mpf_fibonacci', 'prec'): 'a working precision',
    ('atan_taylor_get_cached', 'prec'): 'a working precision; prec - 1 >= 0 for prec >= 1',
    ('int_pow_fixed', 'n'): 'exponent of a fixed-point power; callers pass n >= 0 (negative powers are inverted before)',
    ('int_pow_fixed', 'y'): 'fixed-point base; documented for y >= 0 (callers pass pi, e, ... constants and |x|)',
    ('log_int_fixed', 'n'): 'log of a positive integer',
    ('exponential_series', 'x'): 'callers reduce the argument to 0 <= x < 1 first (mpf_exp/mpf_cosh_sinh pass abs/mod values)',
    ('mpf_besseljn', 'n'): 'order made non-negative before (n = abs(n) at entry)',
    ('mpc_besseljn', 'n'): 'order made non-negative before (n = abs(n) at entry)',
    ('numeral_python', 'n'): 'negative n is sent through "-" + numeral(-n) above',
    ('isqrt_small_python', 'x'): 'square root of a non-negative integer (documented domain)',
    ('isqrt_fast_python', 'x'): 'square root of a non-negative integer (documented domain)',
    ('strict_normalize', 'man'): 'mantissa field of a raw mpf (C01: man >= 0, sign separate)',
    ('strict_normalize1', 'man'): 'mantissa field of a raw mpf',
    ('python_mpf_mul_int', 'n'): 'n is made non-negative above (sign folded into the sign field)',
    ('mpf_pow_int', 'n'): 'negative n is handled by the reciprocal branch above',
    ('to_bstr', 'man'): 'mantissa field',
    ('from_bstr', 'man'): 'mantissa parsed from a binary digit string',
}


# parameters that are 0 or 1
PARAM_BIT = {
    ('strict_normalize', 'sign'): 'sign field of a raw mpf (the strict variants assert it)',
    ('strict_normalize1', 'sign'): 'sign field of a raw mpf',
    ('mpf_add', '_sub'): 'private flag: 0 for addition, 1 when called by mpf_sub',
}

# parameters that are >= 1 (so that `p - 1` is non-negative)
PARAM_POSITIVE = {
    ('atan_taylor_get_cached', 'prec'): 'a working precision is at least 1',
}

# (function qualname, argument text) -> why the argument of bitcount is non-negative although the sign analysis
# cannot show it; each entry was confirmed by reading the function
SITE_CONTRACT = {
    ('MPContext.nint_distance', 'man'):
        't = man >> d; for odd t: t += 1 and man = (t << d) - man with (t << d) > man; else man -= t << d with '
        '(t << d) <= man: the remainder to the nearest integer, taken non-negative in both branches',
    ('stirling_coefficient', 'q'):
        'denominator of a Bernoulli number (positive) times n*(n-1) for an even n >= 2',
    ('mpf_gamma', 'gamma_size'):
        'n*mag with n = floor(|x|): for n >= 1, |x| >= 1 and mag = exp + bc >= 1; for n = 0 the product is 0',
    ('mpc_gamma', 'gamma_size'):
        'absn*mag with absn = max(|int(re)|, |int(im)|): for absn >= 1 the larger part has mag >= 1; else 0',
    ('def_mpf_constant.f', 'v'):
        'fixed(wp) is the fixed-point value of a positive mathematical constant (pi, e, ln 2, ...)',
    ('mpf_log', 'tman'):
        'man has exactly bc bits: 2**(bc-1) <= man < 2**bc, so both (1 << bc) - man and man - (1 << (bc-1)) are >= 0',
}

# (function qualname, argument text) of a normaliser call: why the sign / mantissa argument is non-negative
NORMALISER_SITE_CONTRACT = {
    ('def_mpf_constant.f', 'v'): SITE_CONTRACT[('def_mpf_constant.f', 'v')],
    ('mpf_log', 'tman'): SITE_CONTRACT[('mpf_log', 'tman')],
    ('mpf_log', 'tsign'): 'tsign = 1 - abs(mag) inside `if 0 <= mag <= 1`: 0 or 1',
}

# unpacking `p, q = <x>._mpq_`: the denominator of an mpq is positive (mpq.__new__ normalises the sign into p)
MPQ_FIELD = '_mpq_'


def _is_small_nonneg_const(e):
    return isinstance(e, ast.Constant) and isinstance(e.value, int) and not isinstance(e.value, bool) and e.value >= 0


class NonNeg(object):
    def __init__(self, f):
        self.f = f
        self.own = list(_walk_own(f.node))
        self.depth = 0
        self.active = set()           # names whose definitions are being examined (induction hypothesis)

    # ------------------------------------------------------------------ expressions
    def expr(self, e, at):
        """(True, reason) or (False, why not)"""
        self.depth += 1
        try:
            if self.depth > 12:
                return False, 'definition chain too deep'
            return self._expr(e, at)
        finally:
            self.depth -= 1

    def _expr(self, e, at):
        if _is_small_nonneg_const(e):
            return True, 'literal'
        if isinstance(e, ast.Name):
            if e.id.isupper() and e.id.startswith('MPZ_'):
                return True, 'MPZ constant'
            return self.name(e.id, at)
        if isinstance(e, ast.Call):
            fn = norm(e.func)
            if fn in ('abs', 'len', 'bitcount', 'python_bitcount', 'gmpy_bitcount', 'ifac', 'ifac2', 'trailing'):
                return True, fn + '()'
            if fn in ('int', 'MPZ') and len(e.args) == 1:
                return self.expr(e.args[0], at)
            if fn == 'max' and e.args:
                for a in e.args:
                    ok, r = self.expr(a, at)
                    if ok:
                        return True, 'max with a non-negative argument'
                return False, 'no argument of max is known non-negative'
            if fn == 'min' and e.args:
                for a in e.args:
                    ok, r = self.expr(a, at)
                    if not ok:
                        return False, 'min: ' + r
                return True, 'min of non-negative values'
            return False, 'value of %s() is not known' % fn
        if isinstance(e, ast.BinOp):
            if isinstance(e.op, ast.Mult) and norm(e.left) == norm(e.right):
                return True, 'a square'
            if isinstance(e.op, ast.Pow):
                if isinstance(e.right, ast.Constant) and isinstance(e.right.value, int) and e.right.value % 2 == 0:
                    return True, 'an even power'
                return self.expr(e.left, at)
            if isinstance(e.op, (ast.Mult, ast.Add, ast.FloorDiv, ast.BitOr)):
                for side in (e.left, e.right):
                    ok, r = self.expr(side, at)
                    if not ok:
                        return False, r
                return True, 'composed of non-negative parts'
            if isinstance(e.op, (ast.LShift, ast.RShift)):
                return self.expr(e.left, at)
            if isinstance(e.op, ast.Mod):
                ok, r = self.expr(e.right, at)
                return (True, 'a remainder by a non-negative modulus') if ok else (False, r)
            if isinstance(e.op, ast.BitAnd):
                for side in (e.left, e.right):
                    ok, r = self.expr(side, at)
                    if ok:
                        return True, 'masked by a non-negative value'
                return False, 'neither side of & is known non-negative'
            if isinstance(e.op, ast.Sub):
                if self.guarded_ge(e.left, e.right, at):
                    return True, 'difference under a guard'
                return False, 'a difference `%s` with no guard that orders its terms' % norm(e, 60)
        if isinstance(e, ast.UnaryOp) and isinstance(e.op, ast.USub):
            if isinstance(e.operand, ast.Name) and self.guarded_negative(e.operand.id, at):
                return True, 'negation of a value tested negative'
            return False, '`%s` is not of a form known to be non-negative' % norm(e, 60)
        if isinstance(e, ast.IfExp):
            for side in (e.body, e.orelse):
                ok, r = self.expr(side, at)
                if not ok:
                    return False, r
            return True, 'both alternatives non-negative'
        if isinstance(e, ast.Subscript) and isinstance(e.slice, ast.Constant) and e.slice.value in (1, 3):
            return True, 'mantissa / bit-count field of a raw mpf tuple'
        return False, '`%s` is not of a form known to be non-negative' % norm(e, 60)

    # ------------------------------------------------------------------ names
    def name(self, n, at):
        if self.guarded_name(n, at):
            return True, 'guarded'
        if n in self.active:
            return True, 'induction hypothesis'
        self.active.add(n)
        try:
            return self._name(n, at)
        finally:
            self.active.discard(n)

    def _name(self, n, at):
        defs = []
        params = self.f.all_params() if hasattr(self.f, 'all_params') else self.f.params
        if n in params:
            key = (self.f.qualname.split('.')[-1], n)
            if key in PARAM_CONTRACT:
                defs.append(('param', None))
            else:
                return False, 'parameter `%s` has no recorded contract' % n
        for x in self.own:
            if isinstance(x, ast.Assign):
                for t in x.targets:
                    if isinstance(t, ast.Name) and t.id == n:
                        defs.append(('assign', x.value, x))
                    elif isinstance(t, (ast.Tuple, ast.List)):
                        names = [el.id if isinstance(el, ast.Name) else None for el in t.elts]
                        if n in names:
                            i = names.index(n)
                            if isinstance(x.value, (ast.Tuple, ast.List)) and len(x.value.elts) == len(t.elts):
                                defs.append(('assign', x.value.elts[i], x))
                            elif len(t.elts) == 4 and i in (0, 1, 3):
                                defs.append(('mpf-field', None, x))
                            elif isinstance(x.value, ast.Call) and norm(x.value.func) == 'divmod' and \
                                    len(x.value.args) == 2:
                                defs.append(('divmod', x.value, x))
                            else:
                                defs.append(('unknown', x.value, x))
            elif isinstance(x, ast.AugAssign) and isinstance(x.target, ast.Name) and x.target.id == n:
                defs.append(('aug', x, x))
            elif isinstance(x, (ast.For, ast.comprehension)) and any(
                    isinstance(el, ast.Name) and el.id == n for el in ast.walk(x.target)):
                defs.append(('for', x.iter, x))
            elif isinstance(x, ast.With):
                for it in x.items:
                    if it.optional_vars is not None and any(isinstance(el, ast.Name) and el.id == n
                                                            for el in ast.walk(it.optional_vars)):
                        defs.append(('unknown', None, x))
        if not defs:
            return False, 'no definition of `%s` in the function' % n
        for d in defs:
            kind = d[0]
            if kind in ('param', 'mpf-field'):
                continue
            if kind == 'assign':
                if isinstance(d[1], ast.Name) and d[1].id == n:
                    continue
                ok, r = self.expr(d[1], d[2])
                if not ok:
                    return False, '`%s = %s`: %s' % (n, norm(d[1], 40), r)
            elif kind == 'divmod':
                for a in d[1].args:
                    ok, r = self.expr(a, d[2])
                    if not ok:
                        return False, 'divmod: ' + r
            elif kind == 'aug':
                x = d[1]
                if isinstance(x.op, (ast.RShift, ast.LShift)):
                    continue
                if isinstance(x.op, (ast.Add, ast.Mult, ast.FloorDiv, ast.BitOr, ast.Pow)):
                    ok, r = self.expr(x.value, x)
                    if not ok:
                        return False, '`%s`: %s' % (norm(x, 40), r)
                    continue
                if isinstance(x.op, ast.Mod):
                    continue
                return False, '`%s` may change the sign' % norm(x, 40)
            elif kind == 'for':
                it = d[1]
                if isinstance(it, ast.Call) and norm(it.func) in ('range', 'xrange'):
                    args = it.args
                    start = args[0] if len(args) > 1 else None
                    step_neg = len(args) == 3 and isinstance(args[2], ast.UnaryOp)
                    if step_neg:
                        ok, r = self.expr(args[1], d[2])      # counts down to (above) stop
                        if not ok and not (isinstance(args[1], ast.UnaryOp) and isinstance(args[1].op, ast.USub) and
                                           isinstance(args[1].operand, ast.Constant) and args[1].operand.value == 1):
                            return False, 'loop counts down below zero'
                    elif start is not None:
                        ok, r = self.expr(start, d[2])
                        if not ok:
                            return False, 'loop start: ' + r
                    continue
                return False, 'loop over `%s`' % norm(it, 40)
            else:
                return False, 'unpacked from `%s`' % norm(d[1], 40) if d[1] is not None else 'bound by a with-statement'
        return True, 'every definition of `%s` is non-negative' % n

    # ------------------------------------------------------------------ guards
    def _assigned_between(self, n, lo, hi):
        for x in self.own:
            ln = getattr(x, 'lineno', None)
            if ln is None or not (lo < ln < hi):
                continue
            if isinstance(x, ast.Assign) and any(isinstance(el, ast.Name) and el.id == n
                                                 for t in x.targets for el in ast.walk(t)):
                return True
            if isinstance(x, ast.AugAssign) and isinstance(x.target, ast.Name) and x.target.id == n and \
                    not isinstance(x.op, (ast.RShift, ast.LShift)):
                return True
        return False

    @staticmethod
    def _test_implies_negative(t, n):
        """the test is true ONLY IF n < 0 ... we need the converse: false test => n >= 0, i.e. the test holds
        whenever n < 0"""
        if isinstance(t, ast.Compare) and len(t.ops) == 1 and norm(t.left) == n and \
                isinstance(t.comparators[0], ast.Constant) and t.comparators[0].value in (0, 1):
            c = t.comparators[0].value
            return (isinstance(t.ops[0], ast.Lt) and c in (0, 1)) or (isinstance(t.ops[0], ast.LtE) and c == 0)
        if isinstance(t, ast.BoolOp) and isinstance(t.op, ast.Or):
            return any(NonNeg._test_implies_negative(v, n) for v in t.values)
        return False

    @staticmethod
    def _test_implies_nonneg(t, n):
        if isinstance(t, ast.Compare) and len(t.ops) == 1 and norm(t.left) == n and \
                isinstance(t.comparators[0], ast.Constant) and isinstance(t.comparators[0].value, int):
            c = t.comparators[0].value
            return (isinstance(t.ops[0], ast.GtE) and c >= 0) or (isinstance(t.ops[0], ast.Gt) and c >= -1)
        if isinstance(t, ast.BoolOp) and isinstance(t.op, ast.And):
            return any(NonNeg._test_implies_nonneg(v, n) for v in t.values)
        return False

    def guarded_name(self, n, at):
        # enclosing if whose test implies n >= 0 (use in its body) or n < 0 (use in its orelse)
        p = at
        while p is not None and p is not self.f.node:
            par = getattr(p, '_parent', None)
            if isinstance(par, (ast.If, ast.While)):
                inbody = any(p is s for s in par.body)
                inelse = any(p is s for s in par.orelse)
                if inbody and self._test_implies_nonneg(par.test, n) and \
                        not self._assigned_between(n, par.lineno, getattr(at, 'lineno', par.lineno)):
                    return True
                if inelse and self._test_implies_negative(par.test, n) and \
                        not self._assigned_between(n, par.lineno, getattr(at, 'lineno', par.lineno)):
                    return True
            # earlier sibling `if n < 0: <leaves>`
            for field in ('body', 'orelse', 'finalbody'):
                blk = getattr(par, field, None)
                if isinstance(blk, list) and any(p is s for s in blk):
                    for s in blk[:[i for i, q in enumerate(blk) if q is p][0]]:
                        if isinstance(s, ast.If) and self._test_implies_negative(s.test, n) and s.body and \
                                isinstance(s.body[-1], (ast.Return, ast.Raise, ast.Continue, ast.Break)) and \
                                not self._assigned_between(n, s.lineno, getattr(at, 'lineno', s.lineno)):
                            return True
            p = par
        return False

    def guarded_negative(self, n, at):
        """the statement lies in the body of an `if n < 0` (or `n <= 0`: then -n >= 0 as well)"""
        p = at
        while p is not None and p is not self.f.node:
            par = getattr(p, '_parent', None)
            if isinstance(par, ast.If) and any(p is s for s in par.body):
                tests = par.test.values if isinstance(par.test, ast.BoolOp) and isinstance(par.test.op, ast.And) \
                    else [par.test]
                for t in tests:
                    if isinstance(t, ast.Compare) and len(t.ops) == 1 and norm(t.left) == n and \
                            isinstance(t.comparators[0], ast.Constant) and t.comparators[0].value == 0 and \
                            isinstance(t.ops[0], (ast.Lt, ast.LtE)):
                        if not self._assigned_between(n, par.lineno, getattr(at, 'lineno', par.lineno)):
                            return True
            p = par
        return False

    def guarded_ge(self, a, b, at):
        """a - b under an enclosing test a >= b / a > b / b <= a / b < a"""
        ta, tb = norm(a), norm(b)
        p = at
        while p is not None and p is not self.f.node:
            par = getattr(p, '_parent', None)
            if isinstance(par, (ast.If, ast.While)) and any(p is s for s in par.body):
                tests = par.test.values if isinstance(par.test, ast.BoolOp) and isinstance(par.test.op, ast.And) \
                    else [par.test]
                for t in tests:
                    if isinstance(t, ast.Compare) and len(t.ops) == 1:
                        l, r = norm(t.left), norm(t.comparators[0])
                        if (l, r) == (ta, tb) and isinstance(t.ops[0], (ast.Gt, ast.GtE)):
                            return True
                        if (l, r) == (tb, ta) and isinstance(t.ops[0], (ast.Lt, ast.LtE)):
                            return True
            p = par
        return False


def bitcount_sites(ix):
    for f in ix.all_funcs():
        if '/tests/' in f.file:
            continue
        for x in _walk_own(f.node):
            if isinstance(x, ast.Call) and isinstance(x.func, ast.Name) and \
                    x.func.id in ('bitcount', 'python_bitcount', 'gmpy_bitcount') and x.args:
                yield f, x
