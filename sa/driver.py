"""Command-line driver:  ./check <ID> [--tier quick|thorough] [--replay FILE]

Exit 0: every obligation discharged (KNOWN-FINDING lines possible);
exit 1: VIOLATION line(s); exit 2: ANALYSIS-ERROR (never folded into 'holds').
"""
import importlib
import json
import os
import sys
import time
import traceback

from .index import AnalysisError, get_index
from .report import Run

CHECKS = ['C01', 'C02', 'C03', 'C04', 'C05', 'C06', 'C07', 'C08', 'C09', 'C10', 'C11', 'C13',
          'C14', 'C15', 'C16', 'C17', 'C24', 'C29', 'C33', 'C34', 'C35', 'C37', 'C38', 'C39',
          'C40', 'C43']


def main(argv):
    args = list(argv)
    if not args:
        print('usage: check <ID> [--tier quick|thorough] [--replay FILE]')
        return 2
    prop = args.pop(0)
    tier = os.environ.get('VERIF_TIER', 'quick')
    replay = None
    write = True
    t_start = time.time()
    while args:
        a = args.pop(0)
        if a == '--tier':
            tier = args.pop(0)
        elif a == '--replay':
            replay = args.pop(0)
        elif a == '--no-write':
            write = False
        else:
            print('ANALYSIS-ERROR property=%s unknown argument %s' % (prop, a))
            return 2
    if tier not in ('quick', 'thorough'):
        tier = 'quick'
    try:
        seed = int(os.environ.get('VERIF_SEED', '0'))
    except ValueError:
        seed = 0
    repo = os.environ.get('VERIF_REPO', '/repo')
    try:
        try:
            mod = importlib.import_module('sa.checks.%s' % prop.lower())
        except ImportError:
            print('ANALYSIS-ERROR property=%s no check implemented' % prop)
            return 2
        ix = get_index(repo)
        run = Run(prop, tier=tier, seed=seed, repo=repo)
        run.t0 = t_start
        mod.run(run, ix, tier)
        if replay:
            with open(replay) as fh:
                want = json.load(fh)
            keys = set(f.key for f in run.findings)
            code = run.finish(write=False, quiet=True)
            if want.get('key') in keys:
                print('VIOLATION property=%s replay=%s' % (prop, replay))
                for f in run.findings:
                    if f.key == want.get('key'):
                        print('  ' + f.describe())
                return 1
            print('OK property=%s replayed obligation no longer fails: %s' % (prop, want.get('key')))
            return 0
        code = run.finish(write=write)
        if code == 0 and tier == 'thorough' and write:
            # checker self-validation on seeded variants of the repo (scratch
            # copies under the system temp dir, removed before returning)
            from . import selftest
            rc = selftest.main([prop])
            if rc != 0:
                print('ANALYSIS-ERROR property=%s checker self-validation failed' % prop)
                return 2
        return code
    except AnalysisError as e:
        print('ANALYSIS-ERROR property=%s %s' % (prop, e))
        return 2
    except Exception:
        traceback.print_exc()
        print('ANALYSIS-ERROR property=%s internal error (see traceback)' % prop)
        return 2


if __name__ == '__main__':
    sys.exit(main(sys.argv[1:]))
