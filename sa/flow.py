"""Structured (syntax-directed) abstract interpretation over Python statements.

Instead of materialising a CFG, each statement maps an input state to an
``Outcome`` with one state per *kind of completion*: normal, break, continue,
return, exception.  ``try/finally`` applies the finally block separately to
every completion kind, so a state reaching the function exit is attributed to
the right kind of exit (this is the "finally bodies are duplicated per
continuation" construction of DESIGN section 1.3).  Loops iterate to a
fix-point; domains must be finite or provide ``widen``.

A domain subclasses ``FlowAnalysis`` and overrides the small hooks.  ``None``
is bottom (unreachable) everywhere.
"""
import ast

from .index import AnalysisError, norm


class Outcome(object):
    __slots__ = ('normal', 'brk', 'cont', 'ret', 'exc')

    def __init__(self, normal=None, brk=None, cont=None, ret=None, exc=None):
        self.normal = normal
        self.brk = brk
        self.cont = cont
        self.ret = ret
        self.exc = exc

    def kinds(self):
        return (('normal', self.normal), ('brk', self.brk), ('cont', self.cont),
                ('ret', self.ret), ('exc', self.exc))


CATCH_ALL = {'BaseException', 'Exception'}


class FlowAnalysis(object):
    max_iter = 40

    # ---- lattice ---------------------------------------------------------
    def join(self, a, b):
        raise NotImplementedError

    def widen(self, old, new, n):
        return self.join(old, new)

    def j(self, a, b):
        if a is None:
            return b
        if b is None:
            return a
        return self.join(a, b)

    # ---- hooks (defaults: state-preserving, everything may raise) --------
    def simple(self, node, state):
        """-> (normal, exc)"""
        return state, state

    def cond(self, test, state):
        """-> (true_state, false_state, exc_state)"""
        return state, state, state

    def ret(self, node, state):
        """-> (ret_state, exc_state)"""
        return state, (state if node.value is not None else None)

    def raise_(self, node, state):
        return state

    def for_iter(self, node, state):
        """evaluate the iterable: -> (state, exc)"""
        return state, state

    def for_target(self, node, state):
        """bind the loop target: -> state"""
        return state

    def with_enter(self, node, state):
        """-> (body_in_state, exc_state, token)"""
        return state, state, None

    def with_exit(self, node, token, out):
        """out: Outcome of the body -> Outcome after the with statement"""
        return out

    def handler_entry(self, handler, state):
        return state

    def nested_def(self, node, state):
        return state

    # ---- engine ------------------------------------------------------------
    def run(self, body, state):
        return self.block(body, state)

    def block(self, stmts, state):
        out = Outcome()
        cur = state
        for st in stmts:
            if cur is None:
                break
            o = self.statement(st, cur)
            out.brk = self.j(out.brk, o.brk)
            out.cont = self.j(out.cont, o.cont)
            out.ret = self.j(out.ret, o.ret)
            out.exc = self.j(out.exc, o.exc)
            cur = o.normal
        out.normal = cur
        return out

    def statement(self, st, state):
        m = getattr(self, 'st_' + type(st).__name__, None)
        if m is None:
            raise AnalysisError('unmodelled statement kind %s: %s'
                                % (type(st).__name__, norm(st)))
        return m(st, state)

    def _simple(self, st, state):
        n, e = self.simple(st, state)
        return Outcome(normal=n, exc=e)

    st_Assign = st_AugAssign = st_AnnAssign = st_Expr = st_Delete = _simple
    st_Assert = _simple

    def st_Pass(self, st, state):
        return Outcome(normal=state)

    st_Import = st_ImportFrom = st_Global = st_Nonlocal = st_Pass

    def st_FunctionDef(self, st, state):
        return Outcome(normal=self.nested_def(st, state))

    st_AsyncFunctionDef = st_ClassDef = st_FunctionDef

    def st_Return(self, st, state):
        r, e = self.ret(st, state)
        return Outcome(ret=r, exc=e)

    def st_Raise(self, st, state):
        return Outcome(exc=self.raise_(st, state))

    def st_Break(self, st, state):
        return Outcome(brk=state)

    def st_Continue(self, st, state):
        return Outcome(cont=state)

    def st_If(self, st, state):
        t, f, e = self.cond(st.test, state)
        out = Outcome(exc=e)
        o1 = self.block(st.body, t) if t is not None else Outcome()
        o2 = self.block(st.orelse, f) if f is not None else Outcome()
        for o in (o1, o2):
            out.normal = self.j(out.normal, o.normal)
            out.brk = self.j(out.brk, o.brk)
            out.cont = self.j(out.cont, o.cont)
            out.ret = self.j(out.ret, o.ret)
            out.exc = self.j(out.exc, o.exc)
        return out

    def st_While(self, st, state):
        out = Outcome()
        head = state
        n = 0
        exit_false = None
        while True:
            n += 1
            t, f, e = self.cond(st.test, head)
            if _const_true(st.test):
                f = None
            o = self.block(st.body, t) if t is not None else Outcome()
            back = self.j(o.normal, o.cont)
            new_head = self.j(head, back)
            if n > 6 and new_head is not None:
                new_head = self.widen(head, new_head, n)
            if new_head == head or n > self.max_iter:
                if n > self.max_iter:
                    raise AnalysisError('loop fix-point did not converge: %s' % norm(st))
                out.exc = self.j(e, o.exc)
                out.ret = o.ret
                exit_false = f
                brk = o.brk
                break
            head = new_head
        if exit_false is not None and st.orelse:
            oe = self.block(st.orelse, exit_false)
            out.exc = self.j(out.exc, oe.exc)
            out.ret = self.j(out.ret, oe.ret)
            out.brk = oe.brk
            out.cont = oe.cont
            exit_false = oe.normal
        out.normal = self.j(exit_false, brk)
        return out

    def st_For(self, st, state):
        s0, e0 = self.for_iter(st, state)
        out = Outcome(exc=e0)
        if s0 is None:
            return out
        head = s0
        n = 0
        while True:
            n += 1
            t = self.for_target(st, head)
            o = self.block(st.body, t)
            back = self.j(o.normal, o.cont)
            new_head = self.j(head, back)
            if n > 6 and new_head is not None:
                new_head = self.widen(head, new_head, n)
            if new_head == head or n > self.max_iter:
                if n > self.max_iter:
                    raise AnalysisError('loop fix-point did not converge: %s' % norm(st))
                break
            head = new_head
        out.exc = self.j(out.exc, o.exc)
        # advancing the iterator may raise as well (generators calling user code)
        out.exc = self.j(out.exc, self.for_iter(st, head)[1])
        out.ret = o.ret
        exhausted = head
        if st.orelse:
            oe = self.block(st.orelse, exhausted)
            out.exc = self.j(out.exc, oe.exc)
            out.ret = self.j(out.ret, oe.ret)
            out.brk = oe.brk
            out.cont = oe.cont
            exhausted = oe.normal
        out.normal = self.j(exhausted, o.brk)
        return out

    st_AsyncFor = st_For

    def st_With(self, st, state):
        s, e, tok = self.with_enter(st, state)
        o = self.block(st.body, s) if s is not None else Outcome()
        o = self.with_exit(st, tok, o)
        o.exc = self.j(o.exc, e)
        return o

    st_AsyncWith = st_With

    def st_Try(self, st, state):
        body = self.block(st.body, state)
        out = Outcome(brk=body.brk, cont=body.cont, ret=body.ret)
        normal = body.normal
        if st.orelse and normal is not None:
            oe = self.block(st.orelse, normal)
            normal = oe.normal
            out.brk = self.j(out.brk, oe.brk)
            out.cont = self.j(out.cont, oe.cont)
            out.ret = self.j(out.ret, oe.ret)
            # exceptions in else are not caught by the handlers
            else_exc = oe.exc
        else:
            else_exc = None
        out.normal = normal
        exc = body.exc
        uncaught = exc
        if st.handlers and exc is not None:
            caught_all = False
            for h in st.handlers:
                hs = self.handler_entry(h, exc)
                oh = self.block(h.body, hs)
                out.normal = self.j(out.normal, oh.normal)
                out.brk = self.j(out.brk, oh.brk)
                out.cont = self.j(out.cont, oh.cont)
                out.ret = self.j(out.ret, oh.ret)
                else_exc = self.j(else_exc, oh.exc)
                if h.type is None or norm(h.type) in CATCH_ALL:
                    caught_all = True
            if caught_all and self.trust_catch_all(st):
                uncaught = None
        out.exc = self.j(uncaught, else_exc)
        if st.finalbody:
            res = Outcome()
            for kind, s in out.kinds():
                if s is None:
                    continue
                of = self.block(st.finalbody, s)
                # completion of finally overrides; normal completion resumes kind
                setattr(res, kind, self.j(getattr(res, kind), of.normal))
                res.brk = self.j(res.brk, of.brk)
                res.cont = self.j(res.cont, of.cont)
                res.ret = self.j(res.ret, of.ret)
                res.exc = self.j(res.exc, of.exc)
            return res
        return out

    def trust_catch_all(self, st):
        """`except:` / `except Exception` does not stop KeyboardInterrupt etc.
        for `Exception`; domains decide.  Default: a bare except catches all."""
        return all(h.type is None for h in st.handlers if h.type is None or True) and \
            any(h.type is None for h in st.handlers)

    def st_Match(self, st, state):  # pragma: no cover
        raise AnalysisError('match statements are not modelled')


def _const_true(test):
    return isinstance(test, ast.Constant) and bool(test.value) is True


def calls_in(node, skip_nested=True):
    """All ast.Call nodes in evaluation-relevant position inside node (does
    not descend into nested function/lambda bodies)."""
    out = []
    todo = [node]
    while todo:
        x = todo.pop()
        if isinstance(x, ast.Call):
            out.append(x)
        for c in ast.iter_child_nodes(x):
            if skip_nested and isinstance(c, (ast.FunctionDef, ast.AsyncFunctionDef,
                                              ast.Lambda, ast.ClassDef)):
                continue
            todo.append(c)
    out.sort(key=lambda c: (getattr(c, 'lineno', 0), getattr(c, 'col_offset', 0)))
    return out


def may_raise_expr(node):
    """Conservative syntactic may-raise for an expression/statement: anything
    with a call, subscript, attribute load, arithmetic/comparison operator."""
    for x in ast.walk(node):
        if isinstance(x, (ast.Call, ast.Subscript, ast.Attribute, ast.BinOp,
                          ast.UnaryOp, ast.Compare, ast.Await, ast.Yield,
                          ast.YieldFrom, ast.Starred)):
            return True
    return False
