"""Checker self-validation: seeded variants of the repo.

Each variant is a text edit applied to a scratch copy of /repo/mpmath (created
with tempfile outside /repo and /verif, removed before returning).  Breaking
variants must make the named rule fire and name the edited function; benign
variants must leave the check silent.  A failure here means the *checker* is
broken: exit 2, never a VIOLATION against /repo.

usage: python -m sa.selftest [PROP ...] [-j N] [-v]
"""
import json
import os
import shutil
import subprocess
import sys
import tempfile
from concurrent.futures import ThreadPoolExecutor

HERE = os.path.dirname(os.path.dirname(os.path.abspath(__file__)))
REPO = os.environ.get('VERIF_REPO', '/repo')


def load_variants():
    from . import variants
    return variants.VARIANTS


def apply_edit(root, v):
    path = os.path.join(root, v['file'])
    with open(path, encoding='utf-8') as fh:
        src = fh.read()
    edits = v.get('edits') or [(v['old'], v['new'])]
    for old, new in edits:
        n = src.count(old)
        if n < 1:
            return 'anchor text not found in %s: %r' % (v['file'], old[:60])
        if n > 1 and not v.get('all'):
            # replace the k-th occurrence (default first)
            k = v.get('occurrence', 1)
            idx = -1
            for _ in range(k):
                idx = src.index(old, idx + 1)
            src = src[:idx] + new + src[idx + len(old):]
        else:
            src = src.replace(old, new)
    try:
        compile(src, path, 'exec')
    except SyntaxError as e:
        return 'variant does not compile: %s' % e
    with open(path, 'w', encoding='utf-8') as fh:
        fh.write(src)
    return None


def run_variant(v, base):
    tmp = tempfile.mkdtemp(prefix='verif-variant-')
    try:
        shutil.copytree(os.path.join(base, 'mpmath'), os.path.join(tmp, 'mpmath'),
                        ignore=shutil.ignore_patterns('__pycache__', 'tests'))
        err = apply_edit(tmp, v)
        if err:
            return v, 'broken', err
        env = dict(os.environ)
        env['VERIF_REPO'] = tmp
        env['VERIF_NO_EVIDENCE'] = '1'
        p = subprocess.run([sys.executable, '-B', '-m', 'sa.driver', v['prop'], '--no-write'],
                           cwd=HERE, env=env, capture_output=True, text=True, timeout=600)
        out = p.stdout + p.stderr
        expect = v['expect']
        if expect == 'silent':
            if p.returncode == 0 and 'VIOLATION' not in out:
                return v, 'ok', ''
            return v, 'fail', 'benign variant raised an alarm (exit %d): %s' % (p.returncode, out[-600:])
        if expect.startswith('analysis-error'):
            needle = expect.split(':', 1)[1] if ':' in expect else ''
            if p.returncode == 2 and 'ANALYSIS-ERROR' in out and needle in out:
                return v, 'ok', ''
            return v, 'fail', 'expected ANALYSIS-ERROR (%s), exit %d: %s' % (needle, p.returncode, out[-400:])
        # fire:<rule>[:<substring that must appear in the report>]
        parts = expect.split(':')
        rule = parts[1]
        needle = parts[2] if len(parts) > 2 else None
        if p.returncode != 1:
            return v, 'fail', 'expected a violation, exit was %d: %s' % (p.returncode, out[-600:])
        lines = [l for l in out.splitlines() if l.strip().startswith('[%s]' % rule)]
        if not lines:
            return v, 'fail', 'rule %s did not fire: %s' % (rule, out[-600:])
        if needle and not any(needle in l for l in lines):
            return v, 'fail', 'rule %s fired but did not name %r: %s' % (rule, needle, lines[0][:300])
        return v, 'ok', lines[0][:200]
    except subprocess.TimeoutExpired:
        return v, 'fail', 'timeout'
    finally:
        shutil.rmtree(tmp, ignore_errors=True)


def main(argv):
    props = [a for a in argv if not a.startswith('-')]
    jobs = 16
    verbose = '-v' in argv
    if '-j' in argv:
        jobs = int(argv[argv.index('-j') + 1])
        props = [p for p in props if p != str(jobs)]
    variants = [v for v in load_variants() if not props or v['prop'] in props]
    if not variants:
        print('no variants for %s' % props)
        return 0
    results = []
    with ThreadPoolExecutor(max_workers=jobs) as ex:
        for v, status, msg in ex.map(lambda v: run_variant(v, REPO), variants):
            results.append((v, status, msg))
            if verbose or status != 'ok':
                print('%-6s %-4s %-40s %s' % (status, v['prop'], v['id'], msg))
    bad = [r for r in results if r[1] != 'ok']
    print('selftest: %d variants, %d ok, %d not ok' % (len(results), len(results) - len(bad), len(bad)))
    return 2 if bad else 0


if __name__ == '__main__':
    sys.exit(main(sys.argv[1:]))
