"""Sign-domain path interpreter for the bracketing root finders (C29).

The bracketing solvers (Bisection, Illinois/Pegasus/Anderson, Ridder) touch the
values f(a), f(b), f(z) only through their SIGNS when they decide which
endpoint to replace.  "The returned point lies inside the bracket and the
bracket keeps a sign change" is therefore an inductive invariant over a finite
abstraction: the signs of the function values at the points the loop holds.

The interpreter executes ONE iteration of the solver's loop body from every
abstract state satisfying the invariant (sign f(a) = -sign f(b), stored values
agreeing with their points), forking on every unknown f-value (three signs)
and on every test it cannot decide, and reports each path on which the
invariant is broken at the back edge.  Nothing of the repository is executed:
the AST is interpreted over sign sets.

Values:   frozenset of signs (subset of {-1, 0, 1}), or frozenset of bools,
          each with a flag "modelled" (False when an expression kind outside the
          modelled fragment contributed: a verdict that depends on it is an
          ANALYSIS-ERROR, not a violation).
Points:   opaque tokens; F[token] is the concrete sign of f at that point.
"""
import ast
import itertools

from .index import AnalysisError, norm

NEG, ZERO, POS = -1, 0, 1
TOP = frozenset((NEG, ZERO, POS))
NONZERO = frozenset((NEG, POS))
BOOLS = frozenset((True, False))


class Val(object):
    __slots__ = ('s', 'kind', 'modelled')

    def __init__(self, s, kind='sign', modelled=True):
        self.s = frozenset(s)
        self.kind = kind              # 'sign' | 'bool'
        self.modelled = modelled

    def __repr__(self):
        return 'Val(%s,%s%s)' % (sorted(self.s, key=str), self.kind, '' if self.modelled else ',unmodelled')


def top(modelled=True):
    return Val(TOP, 'sign', modelled)


def sgn_mul(a, b):
    return frozenset(x * y for x in a for y in b)


def sgn_add(a, b):
    out = set()
    for x in a:
        for y in b:
            if x == 0:
                out.add(y)
            elif y == 0:
                out.add(x)
            elif x == y:
                out.add(x)
            else:
                out.update(TOP)
    return frozenset(out)


def sgn_neg(a):
    return frozenset(-x for x in a)


class State(object):
    def __init__(self):
        self.pt = {}        # name -> token
        self.val = {}       # name -> Val
        self.F = {}         # token -> concrete sign
        self.ntok = 0
        self.trace = []     # human-readable decisions taken on this path
        self.unmodelled = []  # unmodelled tests that mention f-values, taken on this path

    def copy(self):
        s = State()
        s.pt = dict(self.pt)
        s.val = dict(self.val)
        s.F = dict(self.F)
        s.ntok = self.ntok
        s.trace = list(self.trace)
        s.unmodelled = list(self.unmodelled)
        return s

    def fresh(self):
        self.ntok += 1
        return self.ntok


class Stop(Exception):
    """path leaves the loop (break / return / raise)"""


class SignInterp(object):
    def __init__(self, fnames, selfname='self', inline=None, positive_attrs=('tol',)):
        self.fnames = set(fnames)          # names/attrs that denote the user function f
        self.selfname = selfname
        self.inline = inline or {}         # attr name -> ast.FunctionDef to inline (self.getm)
        self.positive_attrs = set(positive_attrs)
        self.value_names = set()           # names known to hold f-values (for the unmodelled test)

    # ---- expressions: generator of (state, Val | ('pt', token)) --------------------------------
    def ev(self, e, st):
        """yields (state, value); forks on unknown f-values"""
        if isinstance(e, ast.Constant):
            v = e.value
            if isinstance(v, bool):
                yield st, Val([v], 'bool')
            elif isinstance(v, (int, float)):
                yield st, Val([(v > 0) - (v < 0)])
            elif v is None:
                yield st, Val([False], 'bool')
            else:
                yield st, top(False)
            return
        if isinstance(e, ast.Name):
            if e.id in st.pt:
                yield st, ('pt', st.pt[e.id])
            elif e.id in st.val:
                yield st, st.val[e.id]
            else:
                yield st, top(True)      # a number we know nothing about (step sizes, points)
            return
        if isinstance(e, ast.Attribute):
            if isinstance(e.value, ast.Name) and e.value.id == self.selfname and e.attr in self.positive_attrs:
                yield st, Val([POS])
            else:
                yield st, top(True)
            return
        if isinstance(e, ast.UnaryOp):
            for s1, v in self.ev(e.operand, st):
                if isinstance(v, tuple):
                    yield s1, top(True)
                elif isinstance(e.op, ast.USub) and v.kind == 'sign':
                    yield s1, Val(sgn_neg(v.s), 'sign', v.modelled)
                elif isinstance(e.op, ast.UAdd) and v.kind == 'sign':
                    yield s1, v
                elif isinstance(e.op, ast.Not):
                    b = self.truth(v)
                    yield s1, Val([not x for x in b.s], 'bool', b.modelled)
                else:
                    yield s1, top(False)
            return
        if isinstance(e, ast.BinOp):
            for s1, a in self.ev(e.left, st):
                for s2, b in self.ev(e.right, s1):
                    if isinstance(a, tuple) or isinstance(b, tuple):
                        yield s2, top(True)      # arithmetic on points: a number of unknown sign
                        continue
                    if a.kind != 'sign' or b.kind != 'sign':
                        yield s2, top(False)
                        continue
                    m = a.modelled and b.modelled
                    if isinstance(e.op, ast.Mult):
                        yield s2, Val(sgn_mul(a.s, b.s), 'sign', m)
                    elif isinstance(e.op, (ast.Div, ast.FloorDiv)):
                        d = b.s - {ZERO}
                        if not d:
                            continue             # certain ZeroDivisionError: path ends
                        yield s2, Val(sgn_mul(a.s, d), 'sign', m)
                    elif isinstance(e.op, ast.Add):
                        yield s2, Val(sgn_add(a.s, b.s), 'sign', m)
                    elif isinstance(e.op, ast.Sub):
                        yield s2, Val(sgn_add(a.s, sgn_neg(b.s)), 'sign', m)
                    elif isinstance(e.op, ast.Pow):
                        if isinstance(e.right, ast.Constant) and isinstance(e.right.value, int) and e.right.value > 0:
                            if e.right.value % 2 == 0:
                                yield s2, Val(frozenset(abs(x) for x in a.s), 'sign', m)
                            else:
                                yield s2, Val(a.s, 'sign', m)
                        else:
                            yield s2, top(False)
                    else:
                        yield s2, top(False)
            return
        if isinstance(e, ast.Compare) and len(e.ops) == 1:
            for s1, a in self.ev(e.left, st):
                for s2, b in self.ev(e.comparators[0], s1):
                    yield s2, self.compare(e.ops[0], a, b)
            return
        if isinstance(e, ast.BoolOp):
            # value semantics of and/or
            for r in self.boolop(e, 0, st):
                yield r
            return
        if isinstance(e, ast.IfExp):
            for s1, branch in self.branch(e.test, st):
                for r in self.ev(e.body if branch else e.orelse, s1):
                    yield r
            return
        if isinstance(e, ast.Call):
            for r in self.call(e, st):
                yield r
            return
        if isinstance(e, ast.Tuple):
            yield st, top(True)
            return
        yield st, top(False)

    def boolop(self, e, i, st):
        if i == len(e.values) - 1:
            for r in self.ev(e.values[i], st):
                yield r
            return
        for s1, v in self.ev(e.values[i], st):
            if isinstance(v, tuple):
                v = top(True)
            t = self.truth(v)
            for tv in sorted(t.s):
                short = (not tv) if isinstance(e.op, ast.And) else tv
                if short:
                    # the value of this operand is the value of the expression
                    if v.kind == 'sign':
                        keep = frozenset(x for x in v.s if bool(x) == tv)
                        yield s1, Val(keep, 'sign', v.modelled)
                    else:
                        yield s1, Val([tv], 'bool', v.modelled)
                else:
                    for r in self.boolop(e, i + 1, s1):
                        yield r

    def truth(self, v):
        if isinstance(v, tuple):
            return Val(BOOLS, 'bool', True)
        if v.kind == 'bool':
            return v
        return Val(set(bool(x) for x in v.s), 'bool', v.modelled)

    def compare(self, op, a, b):
        if isinstance(a, tuple) or isinstance(b, tuple):
            return Val(BOOLS, 'bool', True)
        m = a.modelled and b.modelled
        if a.kind == 'bool' and b.kind == 'bool':
            out = set()
            for x in a.s:
                for y in b.s:
                    if isinstance(op, (ast.Eq, ast.Is)):
                        out.add(x == y)
                    elif isinstance(op, (ast.NotEq, ast.IsNot)):
                        out.add(x != y)
                    else:
                        return Val(BOOLS, 'bool', False)
            return Val(out, 'bool', m)
        if a.kind != 'sign' or b.kind != 'sign':
            return Val(BOOLS, 'bool', False)
        out = set()
        for x in a.s:
            for y in b.s:
                if x != y:
                    # different signs: order is decided
                    lt = x < y
                    res = {ast.Lt: lt, ast.LtE: lt, ast.Gt: not lt, ast.GtE: not lt,
                           ast.Eq: False, ast.NotEq: True}.get(type(op))
                    if res is None:
                        return Val(BOOLS, 'bool', False)
                    out.add(res)
                elif x == 0:
                    res = {ast.Lt: False, ast.LtE: True, ast.Gt: False, ast.GtE: True,
                           ast.Eq: True, ast.NotEq: False}.get(type(op))
                    if res is None:
                        return Val(BOOLS, 'bool', False)
                    out.add(res)
                else:
                    # same non-zero sign: magnitudes unknown
                    out.update(BOOLS)
        return Val(out, 'bool', m)

    def call(self, e, st):
        fn = e.func
        name = fn.id if isinstance(fn, ast.Name) else fn.attr if isinstance(fn, ast.Attribute) else None
        is_f = (isinstance(fn, ast.Name) and fn.id in self.fnames) or \
               (isinstance(fn, ast.Attribute) and isinstance(fn.value, ast.Name) and
                fn.value.id == self.selfname and fn.attr in self.fnames)
        if is_f and len(e.args) == 1:
            a = e.args[0]
            if isinstance(a, ast.Name):
                if a.id not in st.pt:
                    st = st.copy()
                    st.pt[a.id] = st.fresh()
                tok = st.pt[a.id]
            else:
                st = st.copy()
                tok = st.fresh()
            if tok in st.F:
                yield st, Val([st.F[tok]])
            else:
                for s in (NEG, ZERO, POS):
                    s2 = st.copy()
                    s2.F[tok] = s
                    s2.trace.append('f(%s) %s 0' % (norm(a), {NEG: '<', ZERO: '==', POS: '>'}[s]))
                    yield s2, Val([s])
            return
        if name == 'abs' and len(e.args) == 1:
            for s1, v in self.ev(e.args[0], st):
                if isinstance(v, tuple) or v.kind != 'sign':
                    yield s1, Val([ZERO, POS], 'sign', not isinstance(v, tuple) and v.modelled)
                else:
                    yield s1, Val(frozenset(abs(x) for x in v.s), 'sign', v.modelled)
            return
        if name == 'sign' and len(e.args) == 1:
            for s1, v in self.ev(e.args[0], st):
                if isinstance(v, tuple) or v.kind != 'sign':
                    yield s1, top(False)
                else:
                    yield s1, v
            return
        if name == 'sqrt' and len(e.args) == 1:
            for s1, v in self.ev(e.args[0], st):
                if isinstance(v, tuple) or v.kind != 'sign':
                    yield s1, top(False)
                else:
                    # principal square root of a non-negative real is non-negative; of anything else
                    # it is not a real sign: unknown
                    yield s1, Val(frozenset(x for x in v.s if x >= 0) or TOP, 'sign', v.modelled and NEG not in v.s)
            return
        if isinstance(fn, ast.Attribute) and isinstance(fn.value, ast.Name) and fn.value.id == self.selfname \
                and fn.attr in self.inline:
            for r in self.inline_call(self.inline[fn.attr], e, st):
                yield r
            return
        if name in ('print',):
            yield st, top(True)
            return
        # unknown call: arguments are evaluated (forks on f-values inside), result unknown
        mentions_value = any(isinstance(x, ast.Name) and x.id in self.value_names for x in ast.walk(e))
        yield st, top(not mentions_value)

    def inline_call(self, fdef, e, st):
        """evaluate a small pure helper (getm) on sign values: union of the returns of all paths"""
        params = [a.arg for a in fdef.args.args]
        if len(params) != len(e.args):
            yield st, top(False)
            return
        # evaluate arguments
        def args_iter(i, s, acc):
            if i == len(e.args):
                yield s, acc
                return
            for s1, v in self.ev(e.args[i], s):
                for r in args_iter(i + 1, s1, acc + [v]):
                    yield r
        for s1, vals in args_iter(0, st, []):
            sub = State()
            sub.F = dict(s1.F)
            sub.ntok = s1.ntok
            for p, v in zip(params, vals):
                if isinstance(v, tuple):
                    sub.val[p] = top(True)
                else:
                    sub.val[p] = v
            results = []
            helper = SignInterp(self.fnames, self.selfname, {}, self.positive_attrs)
            helper.value_names = set(params)
            for kind, s2, v in helper.exec_block(fdef.body, sub):
                if kind == 'return':
                    results.append(v)
                elif kind == 'normal':
                    results.append(Val([False], 'bool'))
            for v in results:
                s3 = s1.copy()
                if v is None or isinstance(v, tuple):
                    v = top(False)
                s3.trace.append('%s(...) in %s' % (fdef.name, sorted(v.s, key=str)))
                yield s3, v

    # ---- tests ---------------------------------------------------------------------------------
    def branch(self, test, st):
        """yields (state, bool) for each feasible outcome, refining simple facts"""
        for s1, v in self.ev(test, st):
            t = self.truth(v)
            for tv in sorted(t.s):
                s2 = s1.copy()
                if len(t.s) > 1:
                    s2.trace.append('%s is %s' % (norm(test, 60), tv))
                    self.refine(test, tv, s2)
                    if not t.modelled and any(isinstance(x, ast.Name) and x.id in self.value_names
                                              for x in ast.walk(test)):
                        s2.unmodelled.append(norm(test, 80))
                yield s2, tv

    def refine(self, test, tv, st):
        """Name <op> 0 refinements"""
        if isinstance(test, ast.UnaryOp) and isinstance(test.op, ast.Not):
            self.refine(test.operand, not tv, st)
            return
        if isinstance(test, ast.Name) and test.id in st.val and st.val[test.id].kind == 'sign':
            v = st.val[test.id]
            keep = frozenset(x for x in v.s if bool(x) == tv)
            if keep:
                st.val[test.id] = Val(keep, 'sign', v.modelled)
            return
        if isinstance(test, ast.Compare) and len(test.ops) == 1 and isinstance(test.left, ast.Name) and \
                isinstance(test.comparators[0], ast.Constant) and test.comparators[0].value == 0 and \
                test.left.id in st.val and st.val[test.left.id].kind == 'sign':
            v = st.val[test.left.id]
            op = type(test.ops[0])
            allowed = {ast.Gt: {POS}, ast.GtE: {POS, ZERO}, ast.Lt: {NEG}, ast.LtE: {NEG, ZERO},
                       ast.Eq: {ZERO}, ast.NotEq: {NEG, POS}}.get(op)
            if allowed is None:
                return
            if not tv:
                allowed = set(TOP) - allowed
            keep = frozenset(x for x in v.s if x in allowed)
            if keep:
                st.val[test.left.id] = Val(keep, 'sign', v.modelled)

    # ---- statements: generator of (kind, state, value) ---------------------------------------
    def exec_block(self, body, st):
        """kinds: 'normal', 'break', 'continue', 'return', 'raise'"""
        if not body:
            yield 'normal', st, None
            return
        first, rest = body[0], body[1:]
        for kind, s1, v in self.exec_stmt(first, st):
            if kind == 'normal':
                for r in self.exec_block(rest, s1):
                    yield r
            else:
                yield kind, s1, v

    def assign_name(self, name, v, st):
        st = st.copy()
        if isinstance(v, tuple):
            st.pt[name] = v[1]
            st.val.pop(name, None)
        else:
            st.pt.pop(name, None)
            st.val[name] = v
        return st

    def exec_stmt(self, node, st):
        if isinstance(node, ast.Expr):
            # yield / print / docstring: evaluate calls for their forks, ignore the value
            if isinstance(node.value, (ast.Yield, ast.YieldFrom, ast.Constant)):
                yield 'normal', st, None
                return
            for s1, v in self.ev(node.value, st):
                yield 'normal', s1, None
            return
        if isinstance(node, ast.Assign):
            if len(node.targets) == 1 and isinstance(node.targets[0], ast.Name):
                for s1, v in self.ev(node.value, st):
                    yield 'normal', self.assign_name(node.targets[0].id, v, s1), None
                return
            if len(node.targets) == 1 and isinstance(node.targets[0], ast.Tuple) and \
                    isinstance(node.value, ast.Tuple) and len(node.value.elts) == len(node.targets[0].elts) and \
                    all(isinstance(t, ast.Name) for t in node.targets[0].elts):
                def rec(i, s, acc):
                    if i == len(node.value.elts):
                        yield s, acc
                        return
                    for s1, v in self.ev(node.value.elts[i], s):
                        for r in rec(i + 1, s1, acc + [v]):
                            yield r
                for s1, vals in rec(0, st, []):
                    for t, v in zip(node.targets[0].elts, vals):
                        s1 = self.assign_name(t.id, v, s1)
                    yield 'normal', s1, None
                return
            # attribute / subscript stores: no effect on the abstraction; names in tuple targets: unknown
            s1 = st.copy()
            for t in node.targets:
                for n in ast.walk(t):
                    if isinstance(n, ast.Name) and isinstance(n.ctx, ast.Store):
                        s1.pt.pop(n.id, None)
                        s1.val[n.id] = top(n.id not in self.value_names)
            yield 'normal', s1, None
            return
        if isinstance(node, ast.AugAssign):
            if isinstance(node.target, ast.Name):
                fake = ast.BinOp(left=ast.Name(id=node.target.id, ctx=ast.Load()), op=node.op, right=node.value)
                for s1, v in self.ev(fake, st):
                    yield 'normal', self.assign_name(node.target.id, v, s1), None
            else:
                yield 'normal', st, None
            return
        if isinstance(node, ast.If):
            for s1, tv in self.branch(node.test, st):
                for r in self.exec_block(node.body if tv else node.orelse, s1):
                    yield r
            return
        if isinstance(node, ast.Break):
            yield 'break', st, None
            return
        if isinstance(node, ast.Continue):
            yield 'continue', st, None
            return
        if isinstance(node, ast.Return):
            if node.value is None:
                yield 'return', st, None
            else:
                for s1, v in self.ev(node.value, st):
                    yield 'return', s1, v
            return
        if isinstance(node, ast.Raise):
            yield 'raise', st, None
            return
        if isinstance(node, ast.Pass):
            yield 'normal', st, None
            return
        if isinstance(node, ast.Try):
            # body may be interrupted anywhere; model: body runs, or the handlers run from the entry state
            for r in self.exec_block(node.body + node.orelse, st):
                yield r
            for h in node.handlers:
                for r in self.exec_block(h.body, st):
                    yield r
            return
        if isinstance(node, (ast.FunctionDef, ast.Import, ast.ImportFrom, ast.Assert, ast.Global)):
            yield 'normal', st, None
            return
        raise AnalysisError('sign interpreter: unmodelled statement %s' % norm(node))
