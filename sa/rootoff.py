"""Root-offset interpreter: decides the integer square-root correction code of the pure-Python backend.

The pure-Python backend builds its exact floor square root (`isqrt_python`, `sqrtrem_python`) from an
approximate one (`isqrt_fast_python`, documented and observed to be at most one unit off in either direction)
by a few comparisons and unit corrections.  The gmpy backend calls the exact C routine, so the two agree only
if every exit of the Python code returns exactly floor(sqrt(x)) (and x - floor^2 as remainder).

The code under analysis only ever adds/multiplies integers and compares polynomials in x and the candidate
root, so it can be executed over a finite abstract domain without running it:

  * every integer variable is an exact polynomial over the symbols `x` (the argument) and `Y` (the value the
    approximate root call returned);
  * Y = F + d with F = floor(sqrt(x)) and d one concrete value of the callee's error set (forked);
  * x = F^2 + i  (i = 0..K),  x = (F+1)^2 - j (j = 1..K)  or  "in between" (forked): with this position class
    every comparison  x  <op>  (Y+a)^2 + e  with |e| <= K is decided exactly (F is assumed larger than K).

Each reachable `return` must then return Y + c with d + c == 0 (rule Y-R7) and, for the remainder, a
polynomial identical to x - root^2 (rule Y-R6).  Statements outside the fragment raise Unsupported; the
caller reports the function as not judged (the floor of the rule then fails the run as analysis-broken
rather than passing silently).
"""
import ast

K = 8                       # largest |e| decided; x position classes are exact up to this distance
MAX_ITER = 32


class Unsupported(Exception):
    pass


# ------------------------------------------------------------------------------------------ polynomials
class Poly:
    __slots__ = ('t',)

    def __init__(self, terms=None):
        self.t = {k: v for k, v in (terms or {}).items() if v}

    @staticmethod
    def const(c):
        return Poly({(): c})

    @staticmethod
    def sym(s):
        return Poly({((s, 1),): 1})

    def __add__(self, o):
        t = dict(self.t)
        for k, v in o.t.items():
            t[k] = t.get(k, 0) + v
        return Poly(t)

    def __neg__(self):
        return Poly({k: -v for k, v in self.t.items()})

    def __sub__(self, o):
        return self + (-o)

    def __mul__(self, o):
        t = {}
        for k1, v1 in self.t.items():
            for k2, v2 in o.t.items():
                m = dict(k1)
                for s, p in k2:
                    m[s] = m.get(s, 0) + p
                k = tuple(sorted(m.items()))
                t[k] = t.get(k, 0) + v1 * v2
        return Poly(t)

    def __eq__(self, o):
        return self.t == o.t

    def __hash__(self):
        return hash(tuple(sorted(self.t.items())))

    def symbols(self):
        return {s for k in self.t for s, _ in k}

    def is_const(self):
        return all(k == () for k in self.t)

    def constant(self):
        return self.t.get((), 0)

    def coeff(self, *mon):
        return self.t.get(tuple(sorted(mon)), 0)

    def __repr__(self):
        if not self.t:
            return '0'
        out = []
        for k, v in sorted(self.t.items()):
            m = '*'.join(s if p == 1 else '%s^%d' % (s, p) for s, p in k)
            out.append(('%d*%s' % (v, m)) if m and v != 1 else (m or str(v)))
        return ' + '.join(out)


X = Poly.sym('x')


# ------------------------------------------------------------------------------------------ interpreter
class Root:
    """value of a root call: symbol name and concrete offset from the floor root"""
    def __init__(self, sym, d):
        self.sym, self.d = sym, d


class Pair:
    """(root, remainder) returned by an exact sqrtrem call"""
    def __init__(self, root, rem):
        self.root, self.rem = root, rem


class Exit:
    def __init__(self, node, value, state):
        self.node, self.value, self.state = node, value, state


class State:
    def __init__(self, xclass):
        self.env = {}
        self.roots = {}          # symbol -> d
        self.xclass = xclass     # ('lo', i) | ('mid',) | ('hi', j)
        self.choices = []        # pending forced choices (replay prefix)
        self.trace = []

    def describe(self):
        ds = ', '.join('%s = floor%+d' % (s, d) if d else '%s = floor' % s for s, d in sorted(self.roots.items()))
        xc = self.xclass
        pos = ('x = floor^2 + %d' % xc[1]) if xc[0] == 'lo' else \
              ('x = (floor+1)^2 - %d' % xc[1]) if xc[0] == 'hi' else 'floor^2 + %d < x < (floor+1)^2 - %d' % (K, K)
        return (ds + '; ' if ds else '') + pos


class NeedChoice(Exception):
    def __init__(self, options):
        self.options = options


def x_classes():
    return [('lo', i) for i in range(K + 1)] + [('mid',)] + [('hi', j) for j in range(K, 0, -1)]


class RootInterp:
    """Executes one function over the abstract domain; `root_calls` maps a callee name to
    ('approx', (d, ...)) | ('exact',) | ('pair',)."""

    def __init__(self, fn, root_calls, param=None):
        self.fn = fn
        self.root_calls = root_calls
        self.param = param or fn.args.args[0].arg
        self.exits = []
        self.visited = set()          # id of statements executed in some state
        self.n_states = 0

    # -- driver: enumerate x classes and all choice sequences
    def run(self):
        for xc in x_classes():
            stack = [[]]
            while stack:
                prefix = stack.pop()
                st = State(xc)
                st.env[self.param] = X
                st.choices = list(prefix)
                st.taken = []
                try:
                    self.n_states += 1
                    self.exec_block(self.fn.body, st)
                    self.exits.append(Exit(self.fn, None, st))
                except _Return as r:
                    self.exits.append(Exit(r.node, r.value, st))
                except NeedChoice as nc:
                    for o in nc.options:
                        stack.append(prefix + [o])
        return self.exits

    def choose(self, st, options):
        if len(options) == 1:
            return options[0]
        if st.choices:
            c = st.choices.pop(0)
            st.taken.append(c)
            return c
        raise NeedChoice(options)

    # -- statements
    def exec_block(self, body, st):
        for s in body:
            self.exec_stmt(s, st)

    def exec_stmt(self, s, st):
        self.visited.add(id(s))
        if isinstance(s, ast.Expr) and isinstance(s.value, ast.Constant):
            return
        if isinstance(s, ast.Pass):
            return
        if isinstance(s, ast.Return):
            raise _Return(s, self.eval(s.value, st) if s.value is not None else None)
        if isinstance(s, ast.Assign):
            if len(s.targets) != 1:
                raise Unsupported('chained assignment')
            self.assign(s.targets[0], self.eval(s.value, st), st)
            return
        if isinstance(s, ast.AugAssign):
            if not isinstance(s.target, ast.Name):
                raise Unsupported('augmented assignment to %s' % type(s.target).__name__)
            cur = self.eval(ast.Name(id=s.target.id, ctx=ast.Load()), st)
            new = self.binop(s.op, cur, self.eval(s.value, st))
            st.env[s.target.id] = new
            return
        if isinstance(s, ast.If):
            if self.test(s.test, st):
                self.exec_block(s.body, st)
            else:
                self.exec_block(s.orelse, st)
            return
        if isinstance(s, ast.While):
            for _ in range(MAX_ITER):
                if not self.test(s.test, st):
                    break
                for b in s.body:
                    if any(isinstance(n, (ast.Break, ast.Continue)) for n in ast.walk(b)):
                        raise Unsupported('break/continue in a correction loop')
                self.exec_block(s.body, st)
            else:
                raise Unsupported('loop did not settle in %d iterations' % MAX_ITER)
            self.exec_block(s.orelse, st)
            return
        raise Unsupported('statement %s' % type(s).__name__)

    def assign(self, target, value, st):
        if isinstance(target, ast.Name):
            st.env[target.id] = value
        elif isinstance(target, (ast.Tuple, ast.List)):
            if isinstance(value, Pair):
                value = (value.root, value.rem)
            if not isinstance(value, tuple) or len(value) != len(target.elts):
                raise Unsupported('unpacking')
            for t, v in zip(target.elts, value):
                self.assign(t, v, st)
        else:
            raise Unsupported('assignment target %s' % type(target).__name__)

    # -- expressions
    def eval(self, e, st):
        if isinstance(e, ast.Constant):
            if isinstance(e.value, bool) or not isinstance(e.value, int):
                raise Unsupported('constant %r' % (e.value,))
            return Poly.const(e.value)
        if isinstance(e, ast.Name):
            if e.id not in st.env:
                raise Unsupported('free name %s' % e.id)
            return st.env[e.id]
        if isinstance(e, ast.Tuple):
            return tuple(self.eval(x, st) for x in e.elts)
        if isinstance(e, ast.UnaryOp) and isinstance(e.op, ast.USub):
            v = self.eval(e.operand, st)
            if not isinstance(v, Poly):
                raise Unsupported('negated non-integer')
            return -v
        if isinstance(e, ast.BinOp):
            return self.binop(e.op, self.eval(e.left, st), self.eval(e.right, st))
        if isinstance(e, ast.Subscript):
            v = self.eval(e.value, st)
            i = e.slice
            if isinstance(v, Pair):
                v = (v.root, v.rem)
            if isinstance(v, tuple) and isinstance(i, ast.Constant) and isinstance(i.value, int) \
                    and -len(v) <= i.value < len(v):
                return v[i.value]
            raise Unsupported('subscript')
        if isinstance(e, ast.Call):
            return self.call(e, st)
        raise Unsupported('expression %s' % type(e).__name__)

    def binop(self, op, a, b):
        if not (isinstance(a, Poly) and isinstance(b, Poly)):
            raise Unsupported('arithmetic on a non-integer value')
        if isinstance(op, ast.Add):
            return a + b
        if isinstance(op, ast.Sub):
            return a - b
        if isinstance(op, ast.Mult):
            return a * b
        if isinstance(op, ast.Pow) and b.is_const() and 0 <= b.constant() <= 4:
            r = Poly.const(1)
            for _ in range(b.constant()):
                r = r * a
            return r
        if isinstance(op, ast.LShift) and b.is_const() and 0 <= b.constant() <= 8:
            return a * Poly.const(1 << b.constant())
        raise Unsupported('operator %s' % type(op).__name__)

    def call(self, e, st):
        name = e.func.id if isinstance(e.func, ast.Name) else None
        if name not in self.root_calls:
            raise Unsupported('call of %s' % (name or ast.dump(e.func)[:40]))
        if len(e.args) != 1 or e.keywords or not isinstance(e.args[0], ast.Name) \
                or st.env.get(e.args[0].id) != X:
            raise Unsupported('%s called on something other than the argument' % name)
        kind = self.root_calls[name]
        sym = 'Y%d' % (len(st.roots) + 1) if st.roots else 'Y'
        if kind[0] == 'approx':
            d = self.choose(st, list(kind[1]))
        else:
            d = 0
        st.roots[sym] = d
        y = Poly.sym(sym)
        if kind[0] == 'pair':
            return Pair(y, X - y * y)
        return y

    # -- conditions
    def test(self, t, st):
        if isinstance(t, ast.UnaryOp) and isinstance(t.op, ast.Not):
            return not self.test(t.operand, st)
        if isinstance(t, ast.BoolOp):
            if isinstance(t.op, ast.And):
                for v in t.values:
                    if not self.test(v, st):
                        return False
                return True
            for v in t.values:
                if self.test(v, st):
                    return True
            return False
        if isinstance(t, ast.Compare) and len(t.ops) == 1:
            try:
                a = self.eval(t.left, st)
                b = self.eval(t.comparators[0], st)
            except Unsupported:
                return self.choose(st, [True, False])       # opaque test (size cut-off etc.)
            if not (isinstance(a, Poly) and isinstance(b, Poly)):
                raise Unsupported('comparison of non-integers')
            return self.cmp(a - b, t.ops[0], st)
        if isinstance(t, (ast.Name, ast.BinOp, ast.UnaryOp)):
            v = self.eval(t, st)
            if not isinstance(v, Poly):
                raise Unsupported('truth value of a non-integer')
            return self.cmp(v, ast.NotEq(), st)
        if isinstance(t, ast.Constant):
            return bool(t.value)
        raise Unsupported('test %s' % type(t).__name__)

    def cmp(self, p, op, st):
        """truth of  p <op> 0"""
        sg = self.sign(p, st)
        if sg is None:
            return self.choose(st, [True, False])
        return {ast.Lt: sg < 0, ast.LtE: sg <= 0, ast.Gt: sg > 0, ast.GtE: sg >= 0,
                ast.Eq: sg == 0, ast.NotEq: sg != 0}[type(op)]

    def sign(self, p, st):
        """exact sign of the polynomial in the current state, None when it is outside the fragment"""
        syms = p.symbols()
        if not syms:
            c = p.constant()
            return (c > 0) - (c < 0)
        ys = syms - {'x'}
        if 'x' not in syms or len(ys) > 1:
            return None
        cx = p.coeff(('x', 1))
        if not ys:
            # c*x + k: x is huge and positive
            if set(p.t) <= {(('x', 1),), ()} and cx:
                return 1 if cx > 0 else -1
            return None
        y = next(iter(ys))
        cyy, cy, c0 = p.coeff((y, 2)), p.coeff((y, 1)), p.constant()
        if set(p.t) - {(('x', 1),), ((y, 2),), ((y, 1),), ()} or cx == 0 or cyy != -cx:
            return None
        g = abs(cx)
        if cy % (2 * g) or c0 % g:
            return None
        s = 1 if cx > 0 else -1
        # p = s*g*(x - (Y^2 + 2a Y + k)),  (Y+a)^2 + e with e = k - a^2
        a = -(cy // g) * s // 2
        k = -(c0 // g) * s
        e = k - a * a
        if abs(e) > K:
            return None
        m = st.roots[y] + a
        # position of x relative to R = (F+m)^2 + e
        xc = st.xclass
        if m >= 2:
            r = -1
        elif m <= -1:
            r = 1
        elif m == 0:                     # x - F^2 versus e
            off = xc[1] if xc[0] == 'lo' else K + 1
            r = (off > e) - (off < e)
        else:                            # m == 1: x - (F+1)^2 versus e
            off = -xc[1] if xc[0] == 'hi' else -(K + 1)
            r = (off > e) - (off < e)
        return s * r


class _Return(Exception):
    def __init__(self, node, value):
        self.node, self.value = node, value


# ------------------------------------------------------------------------------------------ verdicts
def root_offset(value, st):
    """offset from the floor root of a returned integer, or a reason string"""
    if not isinstance(value, Poly):
        return 'the returned value is not an integer expression'
    ys = value.symbols()
    if len(ys) != 1 or 'x' in ys:
        return 'the returned value `%r` is not a corrected root' % value
    y = next(iter(ys))
    if value.coeff((y, 1)) != 1 or set(value.t) - {((y, 1),), ()}:
        return 'the returned value `%r` is not root + constant' % value
    return st.roots[y] + value.constant()
