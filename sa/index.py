"""Loader / module index for the mpmath source tree.

Parses every ``*.py`` under ``<repo>/mpmath`` except ``tests/`` and
``function_docs.py`` with the standard ``ast`` module; nothing is imported.
Provides parent links, a qualified-name table of all functions (nested ones
included), classes, module-level bindings, and the *generated* operator
methods of ``_mpf`` (reproduced by constant-folding the string template in
``ctx_mp_python.py`` -- "cover what the build covers").
"""
import ast
import hashlib
import os

REPO = os.environ.get('VERIF_REPO', '/repo')

EXCLUDE_DIRS = {'tests'}
EXCLUDE_FILES = {'function_docs.py'}


class AnalysisError(Exception):
    """The analyser cannot decide (vanished anchor, unmodelled syntax, count
    below floor).  Always exit code 2, never folded into 'holds'."""


def norm(node, limit=160):
    """Normalised one-line text of a statement/expression (no positions)."""
    if node is None:
        return ''
    if isinstance(node, (ast.FunctionDef, ast.AsyncFunctionDef)):
        return 'def %s' % node.name
    if isinstance(node, ast.ClassDef):
        return 'class %s' % node.name
    if isinstance(node, (ast.If, ast.While)):
        s = '%s %s:' % (type(node).__name__.lower(), ast.unparse(node.test))
    elif isinstance(node, ast.For):
        s = 'for %s in %s:' % (ast.unparse(node.target), ast.unparse(node.iter))
    elif isinstance(node, ast.With):
        s = 'with %s:' % ', '.join(ast.unparse(i) for i in node.items)
    elif isinstance(node, ast.Try):
        s = 'try:'
    else:
        try:
            s = ast.unparse(node)
        except Exception:  # pragma: no cover
            s = type(node).__name__
    s = ' '.join(s.split())
    if len(s) > limit:
        s = s[:limit - 3] + '...'
    return s


class Func(object):
    def __init__(self, module, node, qualname, parent, cls, generated=False):
        self.module = module
        self.node = node
        self.qualname = qualname
        self.parent = parent          # enclosing Func or None
        self.cls = cls                # enclosing class name (direct) or None
        self.generated = generated
        self.name = getattr(node, 'name', '<lambda>')
        a = node.args
        self.params = [x.arg for x in a.posonlyargs + a.args]
        self.kwonly = [x.arg for x in a.kwonlyargs]
        self.vararg = a.vararg.arg if a.vararg else None
        self.kwarg = a.kwarg.arg if a.kwarg else None
        self.decorators = []
        for d in getattr(node, 'decorator_list', []):
            self.decorators.append(norm(d))
        self.nested = []              # directly nested Funcs

    @property
    def file(self):
        return self.module.relpath

    @property
    def lineno(self):
        return self.node.lineno

    def __repr__(self):
        return '<Func %s:%s>' % (self.module.relpath, self.qualname)

    def body(self):
        if isinstance(self.node, ast.Lambda):
            if not hasattr(self, '_lambda_body'):
                r = ast.Return(value=self.node.body)
                r.lineno = self.node.lineno
                r.col_offset = self.node.col_offset
                self._lambda_body = [r]
            return self._lambda_body
        return self.node.body

    def all_params(self):
        p = list(self.params) + list(self.kwonly)
        if self.vararg:
            p.append(self.vararg)
        if self.kwarg:
            p.append(self.kwarg)
        return p

    def defaults(self):
        """param name -> default expr node (positional and kw-only)."""
        a = self.node.args
        out = {}
        pos = a.posonlyargs + a.args
        for p, d in zip(pos[len(pos) - len(a.defaults):], a.defaults):
            out[p.arg] = d
        for p, d in zip(a.kwonlyargs, a.kw_defaults):
            if d is not None:
                out[p.arg] = d
        return out


class ClassInfo(object):
    def __init__(self, module, node, qualname):
        self.module = module
        self.node = node
        self.qualname = qualname
        self.name = node.name
        self.bases = [norm(b) for b in node.bases]
        self.methods = {}             # name -> Func (last definition wins)
        self.assigns = {}             # name -> value node (class-body assigns)


class Module(object):
    def __init__(self, relpath, source):
        self.relpath = relpath
        self.source = source
        self.modname = relpath[:-3].replace('/', '.')
        if self.modname.endswith('.__init__'):
            self.modname = self.modname[:-9]
        self.tree = ast.parse(source, filename=relpath)
        self.digest = hashlib.sha1(source.encode('utf-8')).hexdigest()
        self.funcs = {}               # qualname -> Func
        self.classes = {}             # qualname -> ClassInfo
        self.toplevel_assigns = []    # (target-name, value node, stmt, guard-chain)
        self.imports = {}             # local name -> (module, original name)
        self._link(self.tree)
        self._collect(self.tree.body, '', None, None)
        self._collect_toplevel(self.tree.body, ())

    def _link(self, tree):
        for parent in ast.walk(tree):
            for child in ast.iter_child_nodes(parent):
                child._parent = parent
        tree._parent = None

    def _collect(self, body, prefix, pfunc, cls):
        for st in body:
            self._collect_node(st, prefix, pfunc, cls)

    def _collect_node(self, st, prefix, pfunc, cls):
        if isinstance(st, (ast.FunctionDef, ast.AsyncFunctionDef)):
            qn = prefix + st.name
            # several definitions under if/else (backend selection): keep all
            base = qn
            k = 2
            while qn in self.funcs:
                qn = '%s#%d' % (base, k)
                k += 1
            f = Func(self, st, qn, pfunc, cls)
            self.funcs[qn] = f
            st._func = f
            if pfunc is not None:
                pfunc.nested.append(f)
            if cls is not None and pfunc is None:
                ci = self.classes.get(prefix[:-1])
                if ci is not None:
                    ci.methods[st.name] = f
            self._collect(st.body, base + '.', f, None)
            # lambdas / defs in decorators+defaults are rare; skip
        elif isinstance(st, ast.ClassDef):
            qn = prefix + st.name
            ci = ClassInfo(self, st, qn)
            self.classes[qn] = ci
            st._class = ci
            for s2 in st.body:
                if isinstance(s2, ast.Assign) and len(s2.targets) == 1 and \
                        isinstance(s2.targets[0], ast.Name):
                    ci.assigns[s2.targets[0].id] = s2.value
            self._collect(st.body, qn + '.', pfunc, qn)
        else:
            # statements containing nested blocks (if/try/for/with/while)
            for field in ('body', 'orelse', 'finalbody', 'handlers'):
                sub = getattr(st, field, None)
                if isinstance(sub, list):
                    for s2 in sub:
                        if isinstance(s2, ast.ExceptHandler):
                            self._collect(s2.body, prefix, pfunc, cls)
                        elif isinstance(s2, ast.stmt):
                            self._collect_node(s2, prefix, pfunc, cls)
            # lambdas inside expressions of this statement
            self._collect_lambdas(st, prefix, pfunc, cls)

    def _collect_lambdas(self, st, prefix, pfunc, cls):
        # only the expressions owned directly by this statement
        todo = []
        for field, value in ast.iter_fields(st):
            if field in ('body', 'orelse', 'finalbody', 'handlers'):
                continue
            if isinstance(value, ast.AST):
                todo.append(value)
            elif isinstance(value, list):
                todo.extend(v for v in value if isinstance(v, ast.AST))
        n = 0
        while todo:
            x = todo.pop()
            if isinstance(x, ast.Lambda):
                n += 1
                qn = '%s<lambda@%s>' % (prefix, self._lambda_tag(x))
                base = qn
                k = 2
                while qn in self.funcs:
                    qn = '%s#%d' % (base, k)
                    k += 1
                f = Func(self, x, qn, pfunc, cls)
                self.funcs[qn] = f
                x._func = f
                if pfunc is not None:
                    pfunc.nested.append(f)
                # nested lambdas inside
                sub = [x.body]
                while sub:
                    y = sub.pop()
                    if isinstance(y, ast.Lambda):
                        todo.append(y)
                    else:
                        sub.extend(ast.iter_child_nodes(y))
                continue
            todo.extend(ast.iter_child_nodes(x))

    def _lambda_tag(self, lam):
        # name of the assignment target / keyword / call it sits in
        p = getattr(lam, '_parent', None)
        while p is not None and not isinstance(p, ast.stmt):
            if isinstance(p, ast.keyword) and p.arg:
                return p.arg
            p = getattr(p, '_parent', None)
        if isinstance(p, ast.Assign) and len(p.targets) == 1:
            return norm(p.targets[0], 40)
        if isinstance(p, ast.Return):
            return 'return'
        return 'expr'

    def _collect_toplevel(self, body, guards):
        for st in body:
            if isinstance(st, ast.Assign):
                for t in st.targets:
                    if isinstance(t, ast.Name):
                        self.toplevel_assigns.append((t.id, st.value, st, guards))
                    elif isinstance(t, ast.Tuple):
                        for e in t.elts:
                            if isinstance(e, ast.Name):
                                self.toplevel_assigns.append((e.id, st.value, st, guards))
            elif isinstance(st, ast.ImportFrom):
                for a in st.names:
                    self.imports[a.asname or a.name] = (st.module or '', a.name, st.level)
            elif isinstance(st, ast.Import):
                for a in st.names:
                    self.imports[a.asname or a.name.split('.')[0]] = (a.name, None, 0)
            elif isinstance(st, ast.If):
                g = norm(st.test)
                self._collect_toplevel(st.body, guards + (g,))
                self._collect_toplevel(st.orelse, guards + ('not (%s)' % g,))
            elif isinstance(st, ast.Try):
                self._collect_toplevel(st.body, guards + ('try',))
                for h in st.handlers:
                    self._collect_toplevel(h.body, guards + ('except',))
                self._collect_toplevel(st.orelse, guards)
                self._collect_toplevel(st.finalbody, guards)


class Index(object):
    def __init__(self, repo=None):
        self.repo = repo or REPO
        self.root = os.path.join(self.repo, 'mpmath')
        if not os.path.isdir(self.root):
            raise AnalysisError('no mpmath package under %s' % self.repo)
        self.modules = {}
        for dirpath, dirnames, filenames in os.walk(self.root):
            dirnames[:] = sorted(d for d in dirnames
                                 if d not in EXCLUDE_DIRS and not d.startswith('.')
                                 and d != '__pycache__')
            for fn in sorted(filenames):
                if not fn.endswith('.py') or fn in EXCLUDE_FILES:
                    continue
                full = os.path.join(dirpath, fn)
                rel = os.path.relpath(full, self.repo)
                with open(full, encoding='utf-8') as fh:
                    src = fh.read()
                try:
                    self.modules[rel] = Module(rel, src)
                except SyntaxError as e:
                    raise AnalysisError('cannot parse %s: %s' % (rel, e))
        self.by_name = {}
        for m in self.modules.values():
            for f in m.funcs.values():
                self.by_name.setdefault(f.name, []).append(f)
        self.generated = []
        self._fold_generated()

    # ------------------------------------------------------------------
    def module(self, relpath):
        try:
            return self.modules[relpath]
        except KeyError:
            raise AnalysisError('anchor module vanished: %s' % relpath)

    def func(self, relpath, qualname):
        m = self.module(relpath)
        try:
            return m.funcs[qualname]
        except KeyError:
            raise AnalysisError('anchor function vanished: %s:%s' % (relpath, qualname))

    def find_func(self, relpath, qualname):
        m = self.modules.get(relpath)
        return m.funcs.get(qualname) if m else None

    def all_funcs(self):
        for rel in sorted(self.modules):
            m = self.modules[rel]
            for qn in m.funcs:
                yield m.funcs[qn]

    def digest(self, relpaths=None):
        h = hashlib.sha1()
        for rel in sorted(relpaths or self.modules):
            h.update(rel.encode())
            h.update(self.modules[rel].digest.encode())
        return h.hexdigest()

    # ------------------------------------------------------------------
    # generated operator methods of _mpf
    def _fold_generated(self):
        rel = 'mpmath/ctx_mp_python.py'
        m = self.modules.get(rel)
        if m is None:
            return
        strings = {}
        for name, value, st, guards in m.toplevel_assigns:
            v = self._fold_str(value, strings)
            if v is not None:
                strings[name] = v
        bop = m.funcs.get('binary_op')
        if bop is None:
            return
        for st in m.tree.body:
            if not (isinstance(st, ast.Assign) and isinstance(st.value, ast.Call)
                    and isinstance(st.value.func, ast.Name)
                    and st.value.func.id == 'binary_op'):
                continue
            call = st.value
            argvals = {}
            params = bop.params
            defaults = bop.defaults()
            ok = True
            for i, a in enumerate(call.args):
                v = self._fold_str(a, strings)
                if v is None:
                    ok = False
                argvals[params[i]] = v
            for kw in call.keywords:
                v = self._fold_str(kw.value, strings)
                if v is None:
                    ok = False
                argvals[kw.arg] = v
            for p in params:
                if p not in argvals:
                    d = defaults.get(p)
                    argvals[p] = self._fold_str(d, strings) if d is not None else None
            if not ok:
                raise AnalysisError('cannot constant-fold arguments of %s' % norm(st))
            src = self._interp_binary_op(bop, argvals, strings)
            try:
                tree = ast.parse(src)
            except SyntaxError as e:
                raise AnalysisError('generated source of %s does not parse: %s' % (norm(st.targets[0]), e))
            for parent in ast.walk(tree):
                for child in ast.iter_child_nodes(parent):
                    child._parent = parent
            fnode = tree.body[0]
            tgt = norm(st.targets[0])          # e.g. _mpf.__add__
            cls = tgt.split('.')[0]
            f = Func(m, fnode, tgt, None, cls, generated=True)
            f.gen_source = src
            f.gen_stmt = st
            fnode._func = f
            m.funcs[tgt] = f
            ci = m.classes.get(cls)
            if ci is not None:
                ci.methods[fnode.name] = f
            self.by_name.setdefault(f.name, []).append(f)
            self.generated.append(f)

    def _fold_str(self, node, env):
        if node is None:
            return None
        if isinstance(node, ast.Constant) and isinstance(node.value, str):
            return node.value
        if isinstance(node, ast.Name) and node.id in env:
            return env[node.id]
        if isinstance(node, ast.BinOp) and isinstance(node.op, ast.Add):
            a = self._fold_str(node.left, env)
            b = self._fold_str(node.right, env)
            if a is None or b is None:
                return None
            return a + b
        if isinstance(node, ast.BinOp) and isinstance(node.op, ast.Mod):
            a = self._fold_str(node.left, env)
            if a is None:
                return None
            if isinstance(node.right, ast.Tuple):
                vals = [self._fold_str(e, env) for e in node.right.elts]
            else:
                vals = [self._fold_str(node.right, env)]
            if any(v is None for v in vals):
                return None
            try:
                return a % tuple(vals)
            except Exception:
                return None
        return None

    def _interp_binary_op(self, bop, argvals, strings):
        """Interpret the straight-line string manipulation in binary_op up to
        the exec_ call and return the generated source."""
        env = dict(strings)
        env.update({k: v for k, v in argvals.items() if v is not None})
        for st in bop.node.body:
            if isinstance(st, ast.Expr) and isinstance(st.value, ast.Constant):
                continue
            if isinstance(st, ast.Assign) and len(st.targets) == 1 and \
                    isinstance(st.targets[0], ast.Name):
                tname = st.targets[0].id
                v = st.value
                if isinstance(v, ast.Call) and isinstance(v.func, ast.Attribute) \
                        and v.func.attr == 'replace' and len(v.args) == 2:
                    base = self._fold_str(v.func.value, env)
                    a = self._fold_str(v.args[0], env)
                    b = self._fold_str(v.args[1], env)
                    if None in (base, a, b):
                        raise AnalysisError('binary_op: cannot fold %s' % norm(st))
                    env[tname] = base.replace(a, b)
                    continue
                s = self._fold_str(v, env)
                if s is not None:
                    env[tname] = s
                    continue
                if isinstance(v, ast.Dict) and not v.keys:
                    continue
                raise AnalysisError('binary_op: unmodelled statement %s' % norm(st))
            if isinstance(st, ast.Expr) and isinstance(st.value, ast.Call) and \
                    norm(st.value.func) in ('exec_', 'exec'):
                src = self._fold_str(st.value.args[0], env)
                if src is None:
                    raise AnalysisError('binary_op: exec_ argument not folded')
                return src
            if isinstance(st, ast.Return):
                break
            raise AnalysisError('binary_op: unmodelled statement %s' % norm(st))
        raise AnalysisError('binary_op: no exec_ call found')


_INDEX_CACHE = {}


def get_index(repo=None):
    repo = repo or os.environ.get('VERIF_REPO', '/repo')
    if repo not in _INDEX_CACHE:
        _INDEX_CACHE[repo] = Index(repo)
    return _INDEX_CACHE[repo]
