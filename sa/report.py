"""Findings, known-findings matching, replay files, evidence, exit codes."""
import hashlib
import json
import os
import sys
import time

VERIF = os.path.dirname(os.path.dirname(os.path.abspath(__file__)))
KNOWN_FILE = os.path.join(VERIF, 'known_findings.json')
EVIDENCE_DIR = os.path.join(VERIF, 'evidence')
REPLAY_DIR = os.path.join(EVIDENCE_DIR, 'replays')


class Finding(object):
    def __init__(self, rule, file, qualname, site, reason, line=None, path=None, extra=None):
        self.rule = rule
        self.file = file
        self.qualname = qualname
        self.site = site              # normalised statement text (no positions)
        self.reason = reason
        self.line = line              # informational only
        self.path = path or []
        self.extra = extra or {}

    @property
    def key(self):
        return '%s|%s|%s|%s' % (self.rule, self.file, self.qualname, self.site)

    def as_dict(self, prop):
        return {'property': prop, 'rule': self.rule, 'file': self.file,
                'qualname': self.qualname, 'site': self.site, 'line': self.line,
                'reason': self.reason, 'path': self.path, 'key': self.key,
                'extra': self.extra}

    def describe(self):
        loc = '%s:%s' % (self.file, self.line) if self.line else self.file
        s = '[%s] %s in %s: `%s` -- %s' % (self.rule, loc, self.qualname, self.site, self.reason)
        if self.path:
            s += ' (path: %s)' % ' -> '.join(self.path)
        return s


def load_known():
    if not os.path.exists(KNOWN_FILE):
        return []
    with open(KNOWN_FILE) as fh:
        data = json.load(fh)
    return data.get('findings', [])


class Run(object):
    """One check run for one property."""

    def __init__(self, prop, tier='quick', seed=0, repo='/repo'):
        self.prop = prop
        self.tier = tier
        self.seed = seed
        self.repo = repo
        self.t0 = time.time()
        self.findings = []
        self.obligations = 0
        self.discharged = 0
        self.samples = []
        self.stats = {}
        self.rules = {}               # rule -> {'sites': n, 'failed': n, 'floor': n}
        self.assumptions = []
        self.trusted = []
        self.explanation = ''
        self.notes = []
        self.exhaustive = False

    # -- obligations -----------------------------------------------------
    def rule(self, name, floor=0, desc=''):
        r = self.rules.setdefault(name, {'sites': 0, 'failed': 0, 'floor': floor, 'desc': desc})
        if floor:
            r['floor'] = floor
        if desc:
            r['desc'] = desc
        return r

    def ok(self, rule, sample=None):
        self.rule(rule)['sites'] += 1
        self.obligations += 1
        self.discharged += 1
        if sample is not None and len(self.samples) < 40:
            self.samples.append({'rule': rule, 'obligation': sample, 'verdict': 'discharged'})

    def fail(self, finding):
        r = self.rule(finding.rule)
        r['sites'] += 1
        r['failed'] += 1
        self.obligations += 1
        self.findings.append(finding)

    def sample(self, rule, text):
        if len(self.samples) < 60:
            self.samples.append({'rule': rule, 'obligation': text, 'verdict': 'discharged'})

    # -- finish ------------------------------------------------------------
    def finish(self, write=True, quiet=False):
        from .index import AnalysisError
        known = [k for k in load_known()
                 if self.prop in k.get('properties', [k.get('property')])]
        known_active = {k['key']: k for k in known if k.get('status') == 'known'}
        violations = []
        known_hits = []
        seen = set()
        for f in self.findings:
            if f.key in seen:
                continue
            seen.add(f.key)
            if f.key in known_active:
                known_hits.append(f)
            else:
                violations.append(f)
        # floors: a run without (unlisted) violations must have matched what was confirmed
        # by hand; a run that reports violations is not a pass and may stop early
        if not violations:
            for name, r in sorted(self.rules.items()):
                if r['sites'] < r['floor']:
                    raise AnalysisError('rule %s matched %d sites, below its floor %d '
                                        '(the rule would pass vacuously)' % (name, r['sites'], r['floor']))
        out = []
        for f in known_hits:
            out.append('KNOWN-FINDING: property=%s %s' % (self.prop, f.describe()))
        replay_paths = []
        if violations and write:
            os.makedirs(REPLAY_DIR, exist_ok=True)
        for f in violations:
            h = hashlib.sha1(f.key.encode()).hexdigest()[:12]
            path = os.path.join(REPLAY_DIR, '%s-%s.json' % (self.prop, h))
            if write:
                with open(path, 'w') as fh:
                    json.dump(f.as_dict(self.prop), fh, indent=1, sort_keys=True)
            replay_paths.append(path)
            out.append('VIOLATION property=%s replay=%s' % (self.prop, path))
            out.append('  ' + f.describe())
            if os.environ.get('VERIF_PRINT_KEYS'):
                out.append('  key=' + f.key)
        wall = time.time() - self.t0
        ev = {
            'property_id': self.prop,
            'tier': self.tier,
            'seed': self.seed,
            'level': 'other',
            'coverage': {
                'explanation': self.explanation,
                'obligations': self.obligations,
                'discharged': self.discharged,
                'evaluations': max(self.obligations, 1),
                'distinct_nontrivial': max(self.obligations, 0),
                'rule': 'one obligation per analysed site of each rule (sites are '
                        'distinct AST constructs of /repo; counted by the analyser)',
                'samples': self.samples[:60] or [{'note': 'no sites'}],
                'rules': self.rules,
                'stats': self.stats,
                'known_findings_matched': [f.key for f in known_hits],
                'violations': [f.as_dict(self.prop) for f in violations],
                'trusted_base': self.trusted,
                'exhaustive': self.exhaustive,
                'repo': self.repo,
                'notes': self.notes,
            },
            'assumptions': self.assumptions,
            'wall_s': round(wall, 3),
            'violations': len(violations),
        }
        if write:
            os.makedirs(EVIDENCE_DIR, exist_ok=True)
            with open(os.path.join(EVIDENCE_DIR, '%s.json' % self.prop), 'w') as fh:
                json.dump(ev, fh, indent=1, sort_keys=True, default=str)
        if not violations:
            out.append('OK property=%s obligations=%d discharged=%d known=%d wall=%.2fs'
                       % (self.prop, self.obligations, self.discharged, len(known_hits), wall))
        if not quiet:
            for line in out:
                print(line)
        self.violations = violations
        self.known_hits = known_hits
        self.evidence = ev
        return 1 if violations else 0


class SubRun(object):
    """Lets one check reuse the rules of another check's module inside its own run: obligations
    of the selected rules are forwarded to the parent under a mapped rule id, everything else the
    borrowed module sets (explanation, floors, other rules) stays local and is dropped."""

    def __init__(self, parent, keep, rename=None):
        self.parent = parent
        self.keep = set(keep)
        self.rename = rename or (lambda r: r)
        self.explanation = ''
        self.assumptions = []
        self.trusted = []
        self.notes = []
        self.stats = {}
        self.exhaustive = False
        self.findings = []
        self.tier = parent.tier
        self.seed = parent.seed
        self.repo = parent.repo

    def rule(self, name, floor=0, desc=''):
        return {'sites': 0, 'failed': 0, 'floor': floor, 'desc': desc}

    def ok(self, rule, sample=None):
        if rule in self.keep:
            self.parent.ok(self.rename(rule), sample)

    def fail(self, finding):
        self.findings.append(finding)
        if finding.rule in self.keep:
            finding.rule = self.rename(finding.rule)
            self.parent.fail(finding)

    def sample(self, rule, text):
        pass
