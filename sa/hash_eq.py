"""Engine G -- integer range analysis of the hash emulation kernels (C05).

Abstract value of an integer variable: (lo, hi, excluded) with lo/hi in
Z u {-inf, +inf} and a finite set of excluded points.  The platform constants
sys.hash_info.{width, modulus, inf, nan, imag} and HASH_MODULUS/HASH_BITS are
instantiated for both CPython configurations (64 and 32 bit) -- these are the
documented values of the interpreter, not values read from the running
process.
"""
import ast

from .index import AnalysisError, norm

INF = float('inf')

PLATFORMS = {
    64: {'width': 64, 'modulus': 2 ** 61 - 1, 'inf': 314159, 'nan': 0, 'imag': 1000003,
         'HASH_MODULUS': 2 ** 61 - 1, 'HASH_BITS': 61},
    32: {'width': 32, 'modulus': 2 ** 31 - 1, 'inf': 314159, 'nan': 0, 'imag': 1000003,
         'HASH_MODULUS': 2 ** 31 - 1, 'HASH_BITS': 31},
}


class Unsupported(AnalysisError):
    pass


class IV(object):
    __slots__ = ('lo', 'hi', 'excl')

    def __init__(self, lo, hi, excl=frozenset()):
        self.lo = lo
        self.hi = hi
        self.excl = frozenset(e for e in excl if lo <= e <= hi)
        # tighten
        while self.lo in self.excl and self.lo < self.hi:
            self.lo += 1
        while self.hi in self.excl and self.hi > self.lo:
            self.hi -= 1
        self.excl = frozenset(e for e in self.excl if self.lo <= e <= self.hi)

    def const(self):
        return self.lo if self.lo == self.hi else None

    def contains(self, k):
        return self.lo <= k <= self.hi and k not in self.excl

    def join(self, o):
        lo = min(self.lo, o.lo)
        hi = max(self.hi, o.hi)
        excl = set()
        for e in self.excl:
            if not o.contains(e):
                excl.add(e)
        for e in o.excl:
            if not self.contains(e):
                excl.add(e)
        # points in the gap between two disjoint ranges are not tracked (over-approx.)
        return IV(lo, hi, frozenset(excl))

    def __repr__(self):
        s = '[%s, %s]' % (self.lo, self.hi)
        if self.excl:
            s += ' \\ %s' % sorted(self.excl)
        return s


TOP = IV(-INF, INF)


def const(k):
    return IV(k, k)


def _mul_bound(a, b):
    if a == 0 or b == 0:
        return 0
    return a * b


def add(a, b):
    return IV(a.lo + b.lo, a.hi + b.hi)


def neg(a):
    return IV(-a.hi, -a.lo, frozenset(-e for e in a.excl))


def sub(a, b):
    return add(a, neg(b))


def mul(a, b):
    c = [_mul_bound(x, y) for x in (a.lo, a.hi) for y in (b.lo, b.hi)]
    return IV(min(c), max(c))


def mod(a, b):
    m = b.const()
    if m is None or m <= 0:
        raise Unsupported('modulus is not a positive constant')
    if 0 <= a.lo and a.hi < m:
        return a
    return IV(0, m - 1)


def lshift(a, b):
    if b.lo < 0:
        raise Unsupported('shift count may be negative')
    if a.lo < 0:
        raise Unsupported('left shift of a possibly negative value')
    hi = INF if (a.hi == INF or b.hi == INF) else a.hi << int(b.hi)
    return IV(a.lo << int(b.lo) if a.lo != INF else INF, hi)


class RangeEval(object):
    """Interprets the statement subset of the *_hash kernels over ranges."""

    def __init__(self, ix, plat, summaries):
        self.ix = ix
        self.plat = PLATFORMS[plat]
        self.summaries = summaries      # function name -> IV of its result
        self.returns = []               # (node, IV)
        self.noeffect = []              # comparison expression statements

    # -- expressions -----------------------------------------------------------
    def expr(self, e, env):
        if isinstance(e, ast.Constant):
            if isinstance(e.value, bool):
                return const(int(e.value))
            if isinstance(e.value, int):
                return const(e.value)
            raise Unsupported('constant %r' % (e.value,))
        if isinstance(e, ast.Name):
            if e.id in env:
                return env[e.id]
            if e.id in self.plat:
                return const(self.plat[e.id])
            raise Unsupported('free name %s' % e.id)
        if isinstance(e, ast.Attribute):
            t = norm(e)
            if t.startswith('sys.hash_info.') and e.attr in self.plat:
                return const(self.plat[e.attr])
            raise Unsupported('attribute %s' % t)
        if isinstance(e, ast.UnaryOp) and isinstance(e.op, ast.USub):
            return neg(self.expr(e.operand, env))
        if isinstance(e, ast.BinOp):
            a = self.expr(e.left, env)
            b = self.expr(e.right, env)
            if isinstance(e.op, ast.Add):
                return add(a, b)
            if isinstance(e.op, ast.Sub):
                return sub(a, b)
            if isinstance(e.op, ast.Mult):
                return mul(a, b)
            if isinstance(e.op, ast.Mod):
                return mod(a, b)
            if isinstance(e.op, ast.LShift):
                return lshift(a, b)
            if isinstance(e.op, ast.Pow):
                x, y = a.const(), b.const()
                if x is None or y is None or y < 0:
                    raise Unsupported('non-constant power')
                return const(x ** y)
            if isinstance(e.op, ast.BitXor):
                if a.lo >= 0 and b.lo >= 0:
                    hi = max(a.hi, b.hi)
                    if hi == INF:
                        return IV(0, INF)
                    return IV(0, (1 << int(hi).bit_length()) - 1)
            raise Unsupported('operator in %s' % norm(e))
        if isinstance(e, ast.Call):
            fn = norm(e.func)
            if fn == 'int' and len(e.args) == 1:
                return self.expr(e.args[0], env)
            if fn == 'abs' and len(e.args) == 1:
                a = self.expr(e.args[0], env)
                return IV(0 if a.lo <= 0 <= a.hi else min(abs(a.lo), abs(a.hi)),
                          max(abs(a.lo), abs(a.hi)))
            if fn in self.summaries:
                return self.summaries[fn]
            raise Unsupported('call %s' % fn)
        raise Unsupported('expression %s' % norm(e))

    # -- conditions ---------------------------------------------------------------
    def refine(self, test, env):
        """-> (env_true or None, env_false or None)"""
        t = norm(test)
        if t.startswith('sys.version_info >='):
            return env, None            # Python 3 only (setup.py: python_requires)
        if isinstance(test, ast.BoolOp) and isinstance(test.op, ast.And):
            # true branch: every conjunct holds; false branch: no information
            te = env
            for c in test.values:
                if te is None:
                    break
                te, _ = self.refine(c, te)
            return te, env
        if isinstance(test, ast.Compare) and len(test.ops) == 1 and \
                isinstance(test.left, ast.Name) and test.left.id in env:
            name = test.left.id
            v = env[name]
            try:
                k = self.expr(test.comparators[0], env).const()
            except Unsupported:
                k = None
            if k is not None:
                op = test.ops[0]
                if isinstance(op, ast.Eq):
                    tv = IV(k, k) if v.contains(k) else None
                    fv = IV(v.lo, v.hi, v.excl | {k})
                    if fv.lo == fv.hi == k:
                        fv = None
                    return self._with(env, name, tv), self._with(env, name, fv)
                if isinstance(op, ast.GtE):
                    return (self._with(env, name, IV(max(v.lo, k), v.hi, v.excl) if v.hi >= k else None),
                            self._with(env, name, IV(v.lo, min(v.hi, k - 1), v.excl) if v.lo <= k - 1 else None))
                if isinstance(op, ast.Gt):
                    return (self._with(env, name, IV(max(v.lo, k + 1), v.hi, v.excl) if v.hi >= k + 1 else None),
                            self._with(env, name, IV(v.lo, min(v.hi, k), v.excl) if v.lo <= k else None))
                if isinstance(op, ast.Lt):
                    return (self._with(env, name, IV(v.lo, min(v.hi, k - 1), v.excl) if v.lo <= k - 1 else None),
                            self._with(env, name, IV(max(v.lo, k), v.hi, v.excl) if v.hi >= k else None))
                if isinstance(op, ast.LtE):
                    return (self._with(env, name, IV(v.lo, min(v.hi, k), v.excl) if v.lo <= k else None),
                            self._with(env, name, IV(max(v.lo, k + 1), v.hi, v.excl) if v.hi >= k + 1 else None))
        # unknown condition: both branches, no refinement
        return env, env

    def _with(self, env, name, v):
        if v is None:
            return None
        e = dict(env)
        e[name] = v
        return e

    # -- statements -----------------------------------------------------------------
    def block(self, stmts, env):
        """-> env after (None if every path returned)"""
        for st in stmts:
            if env is None:
                return None
            env = self.stmt(st, env)
        return env

    def stmt(self, st, env):
        if isinstance(st, ast.Expr):
            if isinstance(st.value, ast.Compare):
                self.noeffect.append(st)
            return env
        if isinstance(st, ast.Assign) and len(st.targets) == 1:
            t = st.targets[0]
            if isinstance(t, ast.Name):
                env = dict(env)
                env[t.id] = self.expr(st.value, env)
                return env
            if isinstance(t, ast.Tuple):
                env = dict(env)
                src = norm(st.value)
                for i, el in enumerate(t.elts):
                    if not isinstance(el, ast.Name):
                        raise Unsupported('unpack target')
                    env[el.id] = self.unpack_field(src, i, len(t.elts))
                return env
            raise Unsupported('assignment %s' % norm(st))
        if isinstance(st, ast.AugAssign) and isinstance(st.target, ast.Name):
            fake = ast.BinOp(left=ast.Name(id=st.target.id, ctx=ast.Load()), op=st.op, right=st.value)
            env = dict(env)
            env[st.target.id] = self.expr(fake, env)
            return env
        if isinstance(st, ast.If):
            te, fe = self.refine(st.test, env)
            a = self.block(st.body, te) if te is not None else None
            b = self.block(st.orelse, fe) if fe is not None else None
            if a is None:
                return b
            if b is None:
                return a
            out = {}
            for k in set(a) & set(b):
                va, vb = a[k], b[k]
                if isinstance(va, IV) and isinstance(vb, IV):
                    out[k] = va.join(vb)
                elif va == vb:
                    out[k] = va
            return out
        if isinstance(st, ast.Return):
            self.returns.append((st, self.expr(st.value, env)))
            return None
        if isinstance(st, ast.Try):
            # python-2 compatibility branch only; not reachable on Python 3
            raise Unsupported('try statement in a hash kernel')
        raise Unsupported('statement %s' % norm(st))

    def unpack_field(self, src, i, n):
        """fields of a raw mpf tuple (sign, man, exp, bc) / of an mpc pair"""
        if n == 4:
            return [IV(0, 1), IV(0, INF), TOP, IV(-3, INF)][i]
        if n == 2:
            return ('component', src, i)
        raise Unsupported('unpack of %d fields' % n)


def analyse_hash_function(ix, f, plat, summaries):
    ev = RangeEval(ix, plat, summaries)
    env = {}
    for p in f.params:
        env[p] = ('param', p)
    # special-value guard `if not sman:` with returns of constants is handled by
    # generic If (unknown condition -> both branches)
    ev_env = ev.block(f.node.body, env)
    if ev_env is not None:
        raise Unsupported('%s may fall off the end without returning' % f.qualname)
    return ev
