"""Engine F -- order-type abstract interpretation (C16).

The interval comparison predicates touch their operands only through the
exact order kernels mpf_lt/le/gt/ge (and tuple equality).  Their behaviour is
therefore a function of the *weak ordering* of the four endpoints, a finite
domain.  A small evaluator interprets the AST of each predicate over every
weak ordering (endpoints abstracted to ranks) and the result is compared with
the specification computed from the property's own definition (quantifying
over a refinement grid of member points).  No repo code is executed.
"""
import ast
import itertools

from .index import AnalysisError, norm

ORDER_KERNELS = {
    'mpf_lt': lambda a, b: a < b,
    'mpf_le': lambda a, b: a <= b,
    'mpf_gt': lambda a, b: a > b,
    'mpf_ge': lambda a, b: a >= b,
    'mpf_eq': lambda a, b: a == b,
}


class Unsupported(AnalysisError):
    pass


class _Return(Exception):
    def __init__(self, value):
        self.value = value


class OrderEvaluator(object):
    """Interprets the statement subset used by the mpi_* predicates.
    Values: ints (endpoint ranks), tuples of values, True/False/None."""

    def __init__(self, ix, module_rel):
        self.ix = ix
        self.mod = ix.module(module_rel)
        self.depth = 0
        self.kernel_calls = 0
        self.other_reads = []

    def call(self, fname, args):
        base = fname.split('.')[-1]
        if base in ORDER_KERNELS:
            for a in args:
                if not isinstance(a, int) or isinstance(a, bool):
                    raise Unsupported('order kernel %s applied to a non-endpoint value' % base)
            self.kernel_calls += 1
            return ORDER_KERNELS[base](*args)
        f = self.mod.funcs.get(base)
        if f is None:
            raise Unsupported('call of %s is not modelled by the order-type evaluator' % fname)
        return self.run_func(f, args)

    def run_func(self, f, args):
        self.depth += 1
        if self.depth > 8:
            raise Unsupported('recursion too deep in %s' % f.qualname)
        if len(args) != len(f.params):
            raise Unsupported('arity mismatch calling %s' % f.qualname)
        env = dict(zip(f.params, args))
        try:
            self.block(f.body(), env)
            result = None
        except _Return as r:
            result = r.value
        self.depth -= 1
        return result

    def block(self, stmts, env):
        for st in stmts:
            if isinstance(st, ast.Expr) and isinstance(st.value, ast.Constant):
                continue
            if isinstance(st, ast.Assign) and len(st.targets) == 1:
                v = self.expr(st.value, env)
                self.bind(st.targets[0], v, env)
            elif isinstance(st, ast.If):
                if self.truth(self.expr(st.test, env)):
                    self.block(st.body, env)
                else:
                    self.block(st.orelse, env)
            elif isinstance(st, ast.Return):
                raise _Return(self.expr(st.value, env) if st.value is not None else None)
            elif isinstance(st, ast.Pass):
                continue
            else:
                raise Unsupported('statement not modelled: %s' % norm(st))

    def bind(self, target, v, env):
        if isinstance(target, ast.Name):
            env[target.id] = v
        elif isinstance(target, (ast.Tuple, ast.List)):
            if not isinstance(v, tuple) or len(v) != len(target.elts):
                raise Unsupported('cannot unpack %r' % (v,))
            for t, x in zip(target.elts, v):
                self.bind(t, x, env)
        else:
            raise Unsupported('assignment target not modelled: %s' % norm(target))

    def truth(self, v):
        if v is None or isinstance(v, bool):
            return bool(v)
        raise Unsupported('truth value of a non-boolean (an endpoint used as a condition)')

    def expr(self, e, env):
        if isinstance(e, ast.Constant):
            if e.value is None or isinstance(e.value, bool):
                return e.value
            raise Unsupported('constant %r' % (e.value,))
        if isinstance(e, ast.Name):
            if e.id in env:
                return env[e.id]
            raise Unsupported('free name %s' % e.id)
        if isinstance(e, ast.Tuple):
            return tuple(self.expr(x, env) for x in e.elts)
        if isinstance(e, ast.Subscript) and isinstance(e.slice, ast.Constant) and isinstance(e.slice.value, int):
            v = self.expr(e.value, env)
            if isinstance(v, tuple) and -len(v) <= e.slice.value < len(v):
                return v[e.slice.value]
            raise Unsupported('subscript of a non-interval value: %s' % norm(e))
        if isinstance(e, ast.Call):
            if e.keywords:
                raise Unsupported('keyword call')
            return self.call(norm(e.func), [self.expr(a, env) for a in e.args])
        if isinstance(e, ast.BoolOp):
            if isinstance(e.op, ast.And):
                v = True
                for x in e.values:
                    v = self.expr(x, env)
                    if not self.truth(v):
                        return v
                return v
            v = False
            for x in e.values:
                v = self.expr(x, env)
                if self.truth(v):
                    return v
            return v
        if isinstance(e, ast.UnaryOp) and isinstance(e.op, ast.Not):
            return not self.truth(self.expr(e.operand, env))
        if isinstance(e, ast.Compare) and len(e.ops) == 1:
            a = self.expr(e.left, env)
            b = self.expr(e.comparators[0], env)
            # only structural (in)equality of whole intervals is allowed here:
            # ordering of endpoints must go through the mpf_* kernels
            if isinstance(e.ops[0], ast.Eq):
                return a == b
            if isinstance(e.ops[0], ast.NotEq):
                return a != b
            raise Unsupported('raw comparison %s bypasses the exact order kernels' % norm(e))
        raise Unsupported('expression not modelled: %s' % norm(e))


def weak_orderings():
    """All assignments of ranks to (sa, sb, ta, tb) up to order-isomorphism
    with sa <= sb and ta <= tb."""
    seen = set()
    out = []
    for ranks in itertools.product(range(4), repeat=4):
        # canonical form: dense ranks
        vals = sorted(set(ranks))
        canon = tuple(vals.index(r) for r in ranks)
        if canon in seen:
            continue
        seen.add(canon)
        sa, sb, ta, tb = canon
        if sa <= sb and ta <= tb:
            out.append(canon)
    return out


def members(a, b):
    """refinement grid of the closed interval [a, b] (ranks doubled so that
    midpoints between distinct ranks are representable)"""
    return range(2 * a, 2 * b + 1)


REL = {
    'lt': lambda x, y: x < y,
    'le': lambda x, y: x <= y,
    'gt': lambda x, y: x > y,
    'ge': lambda x, y: x >= y,
}


def spec_three_valued(rel, o):
    sa, sb, ta, tb = o
    r = REL[rel]
    pairs = [(x, y) for x in members(sa, sb) for y in members(ta, tb)]
    if all(r(x, y) for x, y in pairs):
        return True
    if not any(r(x, y) for x, y in pairs):
        return False
    return None
