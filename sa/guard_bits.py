"""Rule B-R9: an intermediate without guard bits must not feed a guarded computation.

Kernels that need an accurate final rounding evaluate their intermediates at
`prec + k` (k > 0 guard bits).  If, in the same region, one inexact
intermediate is rounded at `prec` itself (or below) and is then an operand of a
kernel call evaluated at `prec + k`, the code contradicts itself (Engler's
"inconsistent belief": the region believes k guard bits are needed, this
operand has none): the operand's own rounding error is as large as the final
rounding unit, so inputs whose exact result is representable (perfect powers,
...) are no longer returned exactly and the guard bits of the consumer are
wasted.

Flow-sensitive on the statement structure: precisions are tracked as
`base + const` where the base is the function's precision parameter (re-based
symbolically after an augmented assignment or a join), so only provable
`lo.const <= 0 < hi.const` over the SAME base is reported.
"""
import ast

from .index import norm

KERNEL_PREFIX = ('mpf_', 'mpc_')
PREC_PARAMS = ('prec', 'wp')


def nonneg(e):
    """expression that is >= 0 whatever its arguments: bitcount(..), abs(..), max(0, ..), len(..)"""
    if isinstance(e, ast.Call) and isinstance(e.func, ast.Name):
        if e.func.id in ('bitcount', 'abs', 'len'):
            return True
        if e.func.id == 'max' and any(isinstance(a, ast.Constant) and a.value == 0 for a in e.args):
            return True
    return False


def aff(e, env):
    """(base, const) for base + const; (base, const, 'ge') when only a lower bound base + const is
    known (a non-negative term such as bitcount(..) was added)"""
    if isinstance(e, ast.Name):
        return env.get(e.id)
    if isinstance(e, ast.BinOp) and isinstance(e.op, (ast.Add, ast.Sub)):
        l = aff(e.left, env)
        if l is not None and isinstance(e.right, ast.Constant) and isinstance(e.right.value, int):
            return (l[0], l[1] + (e.right.value if isinstance(e.op, ast.Add) else -e.right.value)) + tuple(l[2:])
        if isinstance(e.left, ast.Constant) and isinstance(e.left.value, int) and isinstance(e.op, ast.Add):
            r = aff(e.right, env)
            if r is not None:
                return (r[0], r[1] + e.left.value) + tuple(r[2:])
        if l is not None and isinstance(e.op, ast.Add) and nonneg(e.right):
            return (l[0], l[1], 'ge')
    return None


def kernel_call(e):
    return isinstance(e, ast.Call) and isinstance(e.func, ast.Name) and e.func.id.startswith(KERNEL_PREFIX)


def call_prec(c, env):
    for a in c.args[1:]:
        p = aff(a, env)
        if p is not None:
            return p
    for k in c.keywords:
        if k.arg == 'prec':
            return aff(k.value, env)
    return None


class GuardScan(object):
    def __init__(self):
        self.pairs = 0          # (intermediate -> consumer) pairs with comparable precisions
        self.findings = []      # (consumer call, def stmt, lo, hi)

    def scan_function(self, fnode, pname):
        self.scan_block(fnode.body, {pname: (pname, 0)}, {})

    def _own_exprs(self, st):
        """expression roots evaluated by st itself (not its nested blocks)"""
        if isinstance(st, (ast.If, ast.While)):
            return [st.test]
        if isinstance(st, ast.For):
            return [st.iter]
        if isinstance(st, ast.With):
            return [i.context_expr for i in st.items]
        if isinstance(st, (ast.Try, ast.FunctionDef, ast.ClassDef)):
            return []
        return [st]

    def scan_block(self, body, env, defs):
        env = dict(env)
        defs = dict(defs)
        for st in body:
            for root in self._own_exprs(st):
                for x in ast.walk(root):
                    if kernel_call(x):
                        hi = call_prec(x, env)
                        if hi is None:
                            continue
                        for a in x.args:
                            if isinstance(a, ast.Name) and a.id in defs:
                                d, lo = defs[a.id]
                            elif kernel_call(a) and call_prec(a, env) is not None:
                                # the intermediate is written as a nested argument
                                d, lo = st, call_prec(a, env)
                            else:
                                continue
                            if lo[0] == hi[0] and len(lo) == 2:
                                self.pairs += 1
                                if lo[1] <= 0 < hi[1]:
                                    self.findings.append((x, d, lo, hi))
            if isinstance(st, ast.Assign) and len(st.targets) == 1 and isinstance(st.targets[0], ast.Name):
                t = st.targets[0].id
                a = aff(st.value, env)
                defs.pop(t, None)
                if a is not None:
                    env[t] = a
                else:
                    env.pop(t, None)
                    if kernel_call(st.value):
                        p = call_prec(st.value, env)
                        if p is not None:
                            defs[t] = (st, p)
            elif isinstance(st, ast.AugAssign) and isinstance(st.target, ast.Name):
                t = st.target.id
                if t in env:
                    if isinstance(st.value, ast.Constant) and isinstance(st.value.value, int) and \
                            isinstance(st.op, (ast.Add, ast.Sub)):
                        b, c = env[t][0], env[t][1]
                        env[t] = (b, c + (st.value.value if isinstance(st.op, ast.Add) else -st.value.value)) + \
                            tuple(env[t][2:])
                    elif isinstance(st.op, ast.Add) and nonneg(st.value):
                        env[t] = (env[t][0], env[t][1], 'ge')
                    else:
                        env[t] = ('%s@%d' % (t, st.lineno), 0)
                defs.pop(t, None)
            elif isinstance(st, ast.Assign):
                for t in st.targets:
                    for n in ast.walk(t):
                        if isinstance(n, ast.Name):
                            env.pop(n.id, None)
                            defs.pop(n.id, None)
            elif isinstance(st, (ast.If, ast.While, ast.For, ast.Try, ast.With)):
                for field in ('body', 'orelse', 'finalbody'):
                    b = getattr(st, field, None)
                    if b:
                        self.scan_block(b, env, defs)
                for h in getattr(st, 'handlers', []):
                    self.scan_block(h.body, env, defs)
                for n in ast.walk(st):
                    if isinstance(n, ast.Name) and isinstance(n.ctx, ast.Store):
                        if n.id in env:
                            env[n.id] = ('%s@join%d' % (n.id, st.lineno), 0)
                        defs.pop(n.id, None)


def check_guard_bits(run, ix, rule='B-R9', modules=None):
    from .report import Finding
    total_pairs = 0
    nfunc = 0
    for rel in sorted(ix.modules):
        if modules is not None and rel not in modules:
            continue
        if modules is None and not rel.startswith('mpmath/libmp/'):
            continue
        for f in ix.modules[rel].funcs.values():
            if not isinstance(f.node, ast.FunctionDef):
                continue
            pn = [p for p in PREC_PARAMS if p in f.params]
            if not pn:
                continue
            nfunc += 1
            g = GuardScan()
            g.scan_function(f.node, pn[0])
            total_pairs += g.pairs
            for _ in range(g.pairs - len(g.findings)):
                run.ok(rule)
            for call, d, lo, hi in g.findings:
                st = call
                while not isinstance(st, ast.stmt):
                    st = st._parent
                run.fail(Finding(rule, rel, f.qualname, norm(d),
                                 'this intermediate is rounded at the target precision itself (%s%+d) and '
                                 'then feeds `%s`, which is evaluated with %d guard bits: the operand\'s own '
                                 'rounding error is a full unit in the last place of the result, so exactly '
                                 'representable results are not returned exactly (the guard bits of the '
                                 'consumer are wasted)' % (lo[0].split('@')[0], lo[1], norm(call, 70),
                                                           hi[1] - lo[1]), line=d.lineno))
    run.stats['guard_pairs'] = total_pairs
    run.stats['guard_functions'] = nfunc
    return total_pairs
