"""Corner choice of mpi_atan2, decided over every sign configuration of the box (rule C-R20 of C14).

mpi_atan2(y, x) returns [a, b] with a and b taken from atan2 at CORNERS of the box [ya, yb] x [xa, xb] or from the
constants 0, pi, -pi.  Which corner bounds the function depends only on the signs of the four endpoints: every test
of the function compares an endpoint with zero.  The function body is therefore interpreted once per sign
configuration (3**4 assignments of {negative, zero, positive}, less those contradicting ya <= yb, xa <= xb): the tests
are decided exactly, and the returned endpoints are SYMBOLIC ("atan2 at (yb, xa), rounded down", "pi rounded up").

The oracle does not come from the code.  The box is cut along the axes into its open-quadrant parts, its axis segments
and the origin.  atan2 is monotone inside an open quadrant (d/dy has the sign of x, d/dx the sign of -y), so the
infimum and supremum over a part are attained at the corner of the part given by these signs, or -- where the part is
cut off by an axis -- are the limit on that axis (0, +-pi/2, and +pi from above / -pi from below on the negative real
axis).  atan2(0, 0) = 0 by the library's convention.  The returned a must be provably <= the infimum of every part,
b >= every supremum: by the quadrant the corners lie in, or, inside one quadrant, by monotonicity and ya <= yb,
xa <= xb.  An endpoint that is pi or a corner value must be rounded downward for a, upward for b.

Nothing is executed: endpoints never have values, only signs and names.  Tightness is not decided ([-pi, pi] always
passes)."""
import ast
import itertools

from .index import AnalysisError, norm

NEG, ZERO, POS = -1, 0, 1


class Unsupported(AnalysisError):
    pass


def angle_range(sy, sx):
    """(lo, hi) in units of pi/4 of atan2(y, x) for y, x of the given signs; lo == hi: exact value"""
    if sy == 0 and sx == 0:
        return (0, 0)
    if sy == 0:
        return (0, 0) if sx > 0 else (4, 4)
    if sx == 0:
        return (2, 2) if sy > 0 else (-2, -2)
    if sy > 0:
        return (0, 2) if sx > 0 else (2, 4)
    return (-2, 0) if sx > 0 else (-4, -2)


class Interp:
    def __init__(self, fnode, signs):
        self.fn = fnode
        self.csigns = dict(signs)         # canonical endpoint name (ya, yb, xa, xb) -> sign
        self.signs = {}                   # the function's own endpoint names -> sign
        self.canon = {}                   # the function's own endpoint names -> canonical name
        self.env = {}                     # local name -> symbolic value
        ps = [a.arg for a in fnode.args.args]
        self.params = {ps[0]: ('ya', 'yb'), ps[1]: ('xa', 'xb')}

    # -- expressions --------------------------------------------------------------
    def sign_of(self, e):
        t = norm(e)
        if t in self.signs:
            return self.signs[t]
        if t == 'fzero':
            return 0
        raise Unsupported('mpi_atan2: sign of `%s` is not known' % t)

    def test(self, t):
        if isinstance(t, ast.BoolOp):
            vals = [self.test(v) for v in t.values]
            return all(vals) if isinstance(t.op, ast.And) else any(vals)
        if isinstance(t, ast.UnaryOp) and isinstance(t.op, ast.Not):
            return not self.test(t.operand)
        if isinstance(t, ast.Call) and isinstance(t.func, ast.Name) and len(t.args) == 2 and \
                t.func.id in ('mpf_ge', 'mpf_gt', 'mpf_le', 'mpf_lt', 'mpf_eq'):
            if norm(t.args[1]) != 'fzero':
                raise Unsupported('mpi_atan2: comparison `%s` is not with zero' % norm(t))
            s = self.sign_of(t.args[0])
            return {'mpf_ge': s >= 0, 'mpf_gt': s > 0, 'mpf_le': s <= 0, 'mpf_lt': s < 0, 'mpf_eq': s == 0}[t.func.id]
        if isinstance(t, ast.Compare) and all(isinstance(o, ast.Eq) for o in t.ops):
            # a == fzero, a == b == fzero: true exactly when every endpoint in the chain is of class zero
            items = [t.left] + list(t.comparators)
            if 'fzero' not in [norm(i) for i in items]:
                raise Unsupported('mpi_atan2: comparison `%s` is not with zero' % norm(t))
            return all(self.sign_of(i) == 0 for i in items)
        if isinstance(t, ast.Compare) and len(t.ops) == 1 and isinstance(t.ops[0], ast.NotEq):
            items = [t.left, t.comparators[0]]
            if 'fzero' not in [norm(i) for i in items]:
                raise Unsupported('mpi_atan2: comparison `%s` is not with zero' % norm(t))
            return not all(self.sign_of(i) == 0 for i in items)
        raise Unsupported('mpi_atan2: test `%s` is not a sign test' % norm(t))

    def value(self, e):
        t = norm(e)
        if isinstance(e, ast.Name):
            if e.id in self.env:
                return self.env[e.id]
            if e.id == 'fzero':
                return ('exact', 0, None)
            raise Unsupported('mpi_atan2: value of `%s`' % t)
        if isinstance(e, ast.Call) and isinstance(e.func, ast.Name):
            n = e.func.id
            if n == 'mpf_pi' and len(e.args) == 2:
                return ('exact', 4, self.dir_of(e.args[1]))
            if n == 'mpf_neg' and len(e.args) == 1:
                v = self.value(e.args[0])
                if v[0] != 'exact':
                    raise Unsupported('mpi_atan2: negated corner value')
                return ('exact', -v[1], {'f': 'c', 'c': 'f', None: None}[v[2]])
            if n in ('mpf_outward',) and len(e.args) >= 4 and norm(e.args[0]) == 'mpf_atan2' and \
                    isinstance(e.args[1], ast.Tuple) and len(e.args[1].elts) == 2:
                yy, xx = [norm(z) for z in e.args[1].elts]
                if yy not in self.signs or xx not in self.signs:
                    raise Unsupported('mpi_atan2: corner (%s, %s) is not made of endpoints' % (yy, xx))
                return ('corner', self.canon[yy], self.canon[xx], self.dir_of(e.args[3]))
            if n == 'mpf_atan2' and len(e.args) == 4:
                yy, xx = norm(e.args[0]), norm(e.args[1])
                if yy not in self.signs or xx not in self.signs:
                    raise Unsupported('mpi_atan2: corner (%s, %s) is not made of endpoints' % (yy, xx))
                return ('corner', self.canon[yy], self.canon[xx], self.dir_of(e.args[3]))
        raise Unsupported('mpi_atan2: endpoint expression `%s`' % t)

    @staticmethod
    def dir_of(e):
        t = norm(e)
        if t == 'round_floor':
            return 'f'
        if t == 'round_ceiling':
            return 'c'
        raise Unsupported('mpi_atan2: rounding `%s`' % t)

    def pair(self, e):
        if isinstance(e, ast.Tuple) and len(e.elts) == 2:
            return self.value(e.elts[0]), self.value(e.elts[1])
        t = norm(e)
        if t == 'mpi_zero':
            return ('exact', 0, None), ('exact', 0, None)
        if isinstance(e, ast.Call) and norm(e.func) == 'mpi_pi':
            return ('exact', 4, 'f'), ('exact', 4, 'c')
        raise Unsupported('mpi_atan2: returned `%s`' % t)

    # -- statements ---------------------------------------------------------------
    def run(self):
        r = self.block(self.fn.body)
        if r is None:
            raise Unsupported('mpi_atan2: a path ends without return')
        return r

    def block(self, stmts):
        for st in stmts:
            if isinstance(st, ast.Expr) and isinstance(st.value, ast.Constant):
                continue
            if isinstance(st, ast.Assign) and len(st.targets) == 1:
                tg = st.targets[0]
                if isinstance(tg, ast.Tuple) and isinstance(st.value, ast.Name) and len(tg.elts) == 2 and \
                        st.value.id in self.params and all(isinstance(e, ast.Name) for e in tg.elts):
                    for e, c in zip(tg.elts, self.params[st.value.id]):     # ya, yb = y
                        self.canon[e.id] = c
                        self.signs[e.id] = self.csigns[c]
                    continue
                if isinstance(tg, ast.Name):
                    self.env[tg.id] = self.value(st.value)
                    continue
                raise Unsupported('mpi_atan2: statement `%s`' % norm(st))
            if isinstance(st, ast.If):
                r = self.block(st.body if self.test(st.test) else st.orelse)
                if r is not None:
                    return r
                continue
            if isinstance(st, ast.Return):
                return self.pair(st.value), st
            raise Unsupported('mpi_atan2: statement `%s`' % norm(st))
        return None


ORDER = {('ya', 'yb'), ('xa', 'xb')}


def name_le(a, b):
    return a == b or (a, b) in ORDER


def provably_le(A, B, signs):
    """A <= B for every box with these endpoint signs.  Values: ('exact', k, dir) / ('corner', Y, X, dir) /
    ('limit', k) (an infimum or supremum that is approached on an axis)"""
    def rng(v):
        if v[0] in ('exact', 'limit'):
            return (v[1], v[1])
        return angle_range(signs[v[1]], signs[v[2]])
    la, ha = rng(A)
    lb, hb = rng(B)
    if ha <= lb:
        return True
    if A[0] == 'corner' and B[0] == 'corner':
        qa = (signs[A[1]], signs[A[2]])
        qb = (signs[B[1]], signs[B[2]])
        if qa == qb and 0 not in qa:
            sy, sx = qa
            dy, dx = sx, -sy               # signs of d/dy, d/dx
            oky = name_le(A[1], B[1]) if dy > 0 else name_le(B[1], A[1])
            okx = name_le(A[2], B[2]) if dx > 0 else name_le(B[2], A[2])
            return oky and okx
    return False


def parts(signs):
    """(description, inf, sup) for the parts of the box: open quadrants, axis segments, origin"""
    def present(lo, hi):
        s = set()
        if signs[lo] < 0:
            s.add(NEG)
        if signs[hi] > 0:
            s.add(POS)
        if signs[lo] <= 0 <= signs[hi]:
            s.add(ZERO)
        return s
    ys, xs = present('ya', 'yb'), present('xa', 'xb')
    out = []
    for sy in sorted(ys):
        for sx in sorted(xs):
            if sy == 0 or sx == 0:
                k = angle_range(sy, sx)[0]
                out.append(('points with sign(y) = %d, sign(x) = %d' % (sy, sx), ('exact', k, None), ('exact', k, None)))
                continue
            # extremal coordinates of the open part
            y_lo = 'ya' if signs['ya'] == sy and sy > 0 else ('ya' if sy < 0 else None)
            y_hi = 'yb' if signs['yb'] == sy and sy < 0 else ('yb' if sy > 0 else None)
            x_lo = 'xa' if signs['xa'] == sx and sx > 0 else ('xa' if sx < 0 else None)
            x_hi = 'xb' if signs['xb'] == sx and sx < 0 else ('xb' if sx > 0 else None)
            dy, dx = sx, -sy
            yi, ys_ = (y_lo, y_hi) if dy > 0 else (y_hi, y_lo)       # y at the infimum, at the supremum
            xi, xs_ = (x_lo, x_hi) if dx > 0 else (x_hi, x_lo)

            def ext(yc, xc, lower):
                if yc is not None and xc is not None:
                    return ('corner', yc, xc, None)
                if yc is None:                                        # y -> 0 with x of sign sx
                    k = 0 if sx > 0 else (4 if sy > 0 else -4)
                else:                                                 # x -> 0 with y of sign sy
                    k = 2 if sy > 0 else -2
                return ('limit', k)
            out.append(('open quadrant sign(y) = %d, sign(x) = %d' % (sy, sx), ext(yi, xi, True), ext(ys_, xs_, False)))
    return out


def configurations():
    for sya, syb, sxa, sxb in itertools.product((NEG, ZERO, POS), repeat=4):
        if sya > syb or sxa > sxb:
            continue
        yield {'ya': sya, 'yb': syb, 'xa': sxa, 'xb': sxb}


def show(v):
    if v[0] == 'corner':
        return 'atan2(%s, %s)%s' % (v[1], v[2], {'f': ' rounded down', 'c': ' rounded up', None: ''}[v[3]])
    k = v[1]
    txt = {0: '0', 2: 'pi/2', -2: '-pi/2', 4: 'pi', -4: '-pi'}.get(k, '%d*pi/4' % k)
    if v[0] == 'limit':
        return 'the limit ' + txt
    return txt + ({'f': ' rounded down', 'c': ' rounded up'}.get(v[2], '') if len(v) > 2 else '')


def check(fnode):
    """yields (signs, problem or None, return statement)"""
    for signs in configurations():
        it = Interp(fnode, signs)
        (a, b), ret = it.run()
        problem = None
        # directions
        if (a[0] == 'corner' and a[3] != 'f') or (a[0] == 'exact' and a[1] != 0 and a[2] != 'f'):
            problem = 'the lower endpoint %s is not rounded downward' % show(a)
        elif (b[0] == 'corner' and b[3] != 'c') or (b[0] == 'exact' and b[1] != 0 and b[2] != 'c'):
            problem = 'the upper endpoint %s is not rounded upward' % show(b)
        else:
            for desc, inf, sup in parts(signs):
                if not provably_le(a, inf, signs):
                    problem = 'the lower endpoint %s is not below %s, the infimum of atan2 over the %s of the box' \
                              % (show(a), show(inf), desc)
                    break
                if not provably_le(sup, b, signs):
                    problem = 'the upper endpoint %s is not above %s, the supremum of atan2 over the %s of the box' \
                              % (show(b), show(sup), desc)
                    break
        yield signs, problem, ret
