"""Seeded variants for checker self-validation (sa/selftest.py).

Each entry: id, prop, file, old, new (text edit, first occurrence unless
'occurrence'/'all' given; or 'edits': [(old, new), ...]), expect:
  'fire:<RULE>[:<needle>]'  the rule must report a violation (naming needle)
  'silent'                  the check must stay silent (benign edit)
"""

VARIANTS = []


def V(**kw):
    VARIANTS.append(kw)


# ---------------------------------------------------------------- C11 -------
V(id='c11-wrapper-no-finally', prop='C11', file='mpmath/ctx_mp_python.py',
  old="""                try:
                    ctx.prec += 10
                    retval = f(ctx, *args, **kwargs)
                finally:
                    ctx.prec = prec
                return +retval""",
  new="""                ctx.prec += 10
                retval = f(ctx, *args, **kwargs)
                ctx.prec = prec
                return +retval""",
  expect='fire:A-R5:f_wrapped')
V(id='c11-wrapper-return-inside-try', prop='C11', file='mpmath/ctx_iv.py',
  old="""                    retval = f(ctx, *args, **kwargs)
                finally:
                    ctx.prec = prec
                return +retval""",
  new="""                    retval = f(ctx, *args, **kwargs)
                    return +retval
                finally:
                    ctx.prec = prec""",
  expect='fire:A-R5:f_wrapped')
V(id='c11-quad-restore-dropped', prop='C11', file='mpmath/calculus/quadrature.py',
  old="""        finally:
            ctx.prec = orig
        if kwargs.get("error"):""",
  new="""        finally:
            pass
        if kwargs.get("error"):""",
  expect='fire:A-R1:QuadratureMethods.quad')
V(id='c11-lambertw-no-try', prop='C11', file='mpmath/functions/functions.py',
  old="""    finally:
        ctx.prec = prec
    return +w""",
  new="""    except ValueError:
        ctx.prec = prec
        raise
    ctx.prec = prec
    return +w""",
  expect='fire:A-R2:lambertw')
V(id='c11-exit-conditional', prop='C11', file='mpmath/ctx_mp.py',
  old="""    def __exit__(self, exc_type, exc_val, exc_tb):
        self.ctx.prec = self.origp.pop()
        return False""",
  new="""    def __exit__(self, exc_type, exc_val, exc_tb):
        if exc_type is None:
            self.ctx.prec = self.origp.pop()
        return False""",
  expect='fire:A-R4:PrecisionManager')
V(id='c11-setter-rebind', prop='C11', file='mpmath/ctx_mp_python.py',
  old="""        prec, dps = max(1, int(n)), prec_to_dps(n)
        ctx._prec = ctx._prec_rounding[0] = prec""",
  new="""        prec, dps = max(1, int(n)), prec_to_dps(n)
        ctx._prec = prec
        ctx._prec_rounding = [ctx._prec, ctx._prec_rounding[1]]""",
  expect='fire:A-R6:_set_prec')
V(id='c11-dps-restore', prop='C11', file='mpmath/calculus/inverselaplace.py',
  old="            self.ctx.prec = self.prec_orig", new="            self.ctx.dps = self.dps_orig",
  expect='fire:A-R3:calc_time_domain_solution')
V(id='c11-hypercomb-raise-before-try', prop='C11', file='mpmath/functions/hypergeometric.py',
  old="""    finally:
        ctx.prec = orig
    return +sumvalue""",
  new="""    except ctx.NoConvergence:
        ctx.prec = orig
        raise
    ctx.prec = orig
    return +sumvalue""",
  expect='fire:A-R2:hypercomb')
V(id='c11-benign-with-workprec', prop='C11', file='mpmath/functions/functions.py',
  old="""    prec = ctx.prec
    try:
        ctx.prec += 20 + ctx.mag(k or 1)""",
  new="""    prec = ctx.prec
    saved_again = prec
    try:
        ctx.prec += 20 + ctx.mag(k or 1)""",
  expect='silent')
V(id='c11-benign-rename-snapshot', prop='C11', file='mpmath/ctx_mp.py',
  old="""        orig = ctx.prec
        try:
            v = ctx.one
            for p in factors:
                v *= p
        finally:
            ctx.prec = orig""",
  new="""        saved = ctx.prec
        try:
            v = ctx.one
            for p in factors:
                v *= p
        finally:
            ctx.prec = saved""",
  expect='silent')

# ---------------------------------------------------------------- C16 -------
V(id='c16-lt-touching', prop='C16', file='mpmath/libmp/libmpi.py',
  old="    if mpf_ge(sa, tb): return False\n    return None\n\ndef mpi_le",
  new="    if mpf_gt(sa, tb): return False\n    return None\n\ndef mpi_le",
  expect='fire:F-R1:mpi_lt')
V(id='c16-le-strict', prop='C16', file='mpmath/libmp/libmpi.py',
  old="    if mpf_le(sb, ta): return True\n    if mpf_gt(sa, tb): return False",
  new="    if mpf_le(sb, ta): return True\n    if mpf_ge(sa, tb): return False",
  expect='fire:F-R1:mpi_le')
V(id='c16-gt-not-swapped', prop='C16', file='mpmath/libmp/libmpi.py',
  old="def mpi_gt(s, t): return mpi_lt(t, s)", new="def mpi_gt(s, t): return mpi_le(t, s)",
  expect='fire:F-R1:mpi_gt')
V(id='c16-operator-swapped', prop='C16', file='mpmath/ctx_iv.py',
  old="    def __ge__(s, t): return s._compare(t, libmp.mpi_ge)",
  new="    def __ge__(s, t): return s._compare(t, libmp.mpi_gt)",
  expect='fire:F-R3:__ge__')
V(id='c16-compare-args-swapped', prop='C16', file='mpmath/ctx_iv.py',
  old="        return cmpfun(s._mpi_, t._mpi_)", new="        return cmpfun(t._mpi_, s._mpi_)",
  expect='fire:F-R3:_compare')
V(id='c16-contains-loose', prop='C16', file='mpmath/ctx_iv.py',
  old="        return (self.a <= t.a) and (t.b <= self.b)",
  new="        return (self.a <= t.b) and (t.a <= self.b)",
  expect='fire:F-R4:__contains__')
V(id='c16-benign-reorder', prop='C16', file='mpmath/libmp/libmpi.py',
  old="    if mpf_lt(sb, ta): return True\n    if mpf_ge(sa, tb): return False\n    return None",
  new="    if mpf_ge(sa, tb): return False\n    if mpf_gt(ta, sb): return True\n    return None",
  expect='silent')

# ---------------------------------------------------------------- C05 -------
V(id='c05-hash-noeffect', prop='C05', file='mpmath/libmp/libmpf.py',
  old="        if h == -1: h = -2\n", new="        if h == -1: h == -2\n",
  expect='fire:G-R2:mpf_hash')
V(id='c05-mpc-unsigned', prop='C05', file='mpmath/libmp/libmpc.py',
  old="        if h >= 2**(sys.hash_info.width-1):\n            h -= 2**sys.hash_info.width\n",
  new="", expect='fire:G-R1:mpc_hash')
V(id='c05-mpc-wrong-threshold', prop='C05', file='mpmath/libmp/libmpc.py',
  old="        if h >= 2**(sys.hash_info.width-1):", new="        if h > 2**(sys.hash_info.width-1):",
  expect='fire:G-R1:mpc_hash')
V(id='c05-mpc-no-minus-one', prop='C05', file='mpmath/libmp/libmpc.py',
  old="        if h == -1: h = -2\n        return int(h)", new="        return int(h)",
  expect='fire:G-R1:mpc_hash')
V(id='c05-mpc-imag-coefficient', prop='C05', file='mpmath/libmp/libmpc.py',
  old="h = mpf_hash(re) + sys.hash_info.imag * mpf_hash(im)",
  new="h = mpf_hash(im) + sys.hash_info.imag * mpf_hash(re)",
  expect='fire:G-R3:mpc_hash')
V(id='c05-hash-wrong-exponent-reduction', prop='C05', file='mpmath/libmp/libmpf.py',
  old="        h = (h << sexp) % HASH_MODULUS\n", new="        h = (h << sexp)\n",
  expect='fire:G-R1:mpf_hash')
V(id='c05-lt-dispatch', prop='C05', file='mpmath/ctx_mp_python.py',
  old="    def __le__(s, t): return s._cmp(t, mpf_le)", new="    def __le__(s, t): return s._cmp(t, mpf_lt)",
  expect='fire:G-R4:__le__')
V(id='c05-ge-kernel-op', prop='C05', file='mpmath/libmp/libmpf.py',
  old="    return mpf_cmp(s, t) >= 0", new="    return mpf_cmp(s, t) > 0",
  expect='fire:G-R4:mpf_ge')
V(id='c05-nan-guard-dropped', prop='C05', file='mpmath/libmp/libmpf.py',
  old="def mpf_gt(s, t):\n    if s == fnan or t == fnan:\n        return False\n",
  new="def mpf_gt(s, t):\n", expect='fire:G-R4:mpf_gt')
V(id='c05-eq-int-rounded', prop='C05', file='mpmath/ctx_mp_python.py',
  old="    'return mpf_eq(sval, from_int(other))',", new="    'return mpf_eq(sval, from_int(other, prec, rounding))',",
  expect='fire:G-R4:__eq__')
V(id='c05-cmp-float-rounded', prop='C05', file='mpmath/ctx_mp_python.py',
  old="""    def mpf_convert_rhs(cls, x):
        if isinstance(x, int_types): return from_int(x)
        if isinstance(x, float): return from_float(x)""",
  new="""    def mpf_convert_rhs(cls, x):
        if isinstance(x, int_types): return from_int(x)
        if isinstance(x, float): return from_float(x, cls.context.prec)""",
  expect='fire:G-R4:mpf_convert_rhs')
V(id='c05-mpc-hash-dropped', prop='C05', file='mpmath/ctx_mp_python.py',
  old="    def __hash__(s):\n        return mpc_hash(s._mpc_)\n", new="",
  expect='fire:G-R3:_mpc')
V(id='c05-benign-hash-refactor', prop='C05', file='mpmath/libmp/libmpc.py',
  old="        if h == -1: h = -2\n        return int(h)",
  new="        if h == -1:\n            return -2\n        return int(h)",
  expect='silent')

V(id='c11-setdps-early-out', prop='C11', file='mpmath/ctx_mp_python.py',
  old="    def _set_dps(ctx, n):\n",
  new="    def _set_dps(ctx, n):\n        if n == ctx._dps:\n            return\n",
  expect='fire:A-R6:_set_dps')
V(id='c11-setprec-conditional-store', prop='C11', file='mpmath/ctx_iv.py',
  old="        prec, dps = max(1, int(n)), prec_to_dps(n)\n        ctx._prec[0] = prec\n        ctx._dps = dps",
  new="        prec, dps = max(1, int(n)), prec_to_dps(n)\n        ctx._prec[0] = prec\n        if n > 3:\n            ctx._dps = dps",
  expect='fire:A-R6:_set_prec')

# ---------------------------------------------------------------- C33 -------
V(id='c33-logint-gate-reversed', prop='C33', file='mpmath/libmp/libelefun.py',
  old="        if vprec >= prec:\n            return value >> (vprec - prec)",
  new="        if vprec <= prec:\n            return value >> (vprec - prec)",
  expect='fire:D-R1a:log_int_fixed')
V(id='c33-logint-gate-dropped', prop='C33', file='mpmath/libmp/libelefun.py',
  old="        if vprec >= prec:\n            return value >> (vprec - prec)",
  new="        return value >> (vprec - prec)",
  expect='fire:D-R1a:log_int_fixed')
V(id='c33-logint-shift-wrong', prop='C33', file='mpmath/libmp/libelefun.py',
  old="            return value >> (vprec - prec)", new="            return value >> (vprec - wp)",
  expect='fire:D-R1a:log_int_fixed')
V(id='c33-zetaint-gate-reversed', prop='C33', file='mpmath/libmp/gammazeta.py',
  old="    if s in zeta_int_cache and zeta_int_cache[s][0] >= wp:",
  new="    if s in zeta_int_cache and zeta_int_cache[s][0] <= wp:",
  expect='fire:D-R1a:mpf_zeta_int')
V(id='c33-memoize-no-gate', prop='C33', file='mpmath/ctx_base.py',
  old="                if cprec >= prec:\n                    try:\n                        return +cvalue\n                    except TypeError:\n                        # not a number (e.g. a tuple of results)\n                        return cvalue\n",
  new="                try:\n                    return +cvalue\n                except TypeError:\n                    return cvalue\n",
  expect='fire:D-R1a:f_cached')
V(id='c33-cmemo-gate-reversed', prop='C33', file='mpmath/functions/bessel.py',
  old="        if p >= prec:\n            return +v", new="        if p <= prec:\n            return +v",
  expect='fire:D-R1a:f_wrapped')
V(id='c33-stieltjes-untagged', prop='C33', file='mpmath/functions/zeta.py',
  old="            if prec >= ctx.prec:\n                return +s", new="            return +s",
  expect='fire:D-R1a:stieltjes')
V(id='c33-bernoulli-key-no-prec', prop='C33', file='mpmath/libmp/gammazeta.py',
  old="    cached = bernoulli_cache.get(wp)", new="    cached = bernoulli_cache.get(0)",
  expect='fire:D-R1b:mpf_bernoulli')
V(id='c33-atan-key-no-prec', prop='C33', file='mpmath/libmp/libelefun.py',
  edits=[("    if (n, prec2) in atan_taylor_cache:\n        a, atan_a = atan_taylor_cache[n, prec2]",
          "    if n in atan_taylor_cache:\n        a, atan_a = atan_taylor_cache[n]"),
         ("        atan_taylor_cache[n, prec2] = (a, atan_a)", "        atan_taylor_cache[n] = (a, atan_a)")],
  expect='fire:D-R1b:atan_taylor_get_cached')
V(id='c33-quad-nodes-key-no-prec', prop='C33', file='mpmath/calculus/quadrature.py',
  old="        key = (a, b, type(a), type(b), degree, prec)", new="        key = (a, b, type(a), type(b), degree)",
  expect='fire:D-R1b:get_nodes')
V(id='c33-gamma-taylor-reuse-lower', prop='C33', file='mpmath/libmp/gammazeta.py',
  old="        if cprec > prec:\n            coeffs", new="        if cprec != prec:\n            coeffs",
  expect='fire:D-R1b:gamma_taylor_coefficients')
V(id='c33-cossin-no-bypass', prop='C33', file='mpmath/libmp/libelefun.py',
  old="    if prec > COS_SIN_CACHE_PREC:\n        return exponential_series(x, prec, 2)\n", new="",
  expect='fire:D-R1c:cos_sin_basecase')
V(id='c33-intcache-poisoned', prop='C33', file='mpmath/libmp/libmpf.py',
  old="    return from_man_exp(n, 0, prec, rnd)\n\ndef to_man_exp",
  new="    v = from_man_exp(n, 0, prec, rnd)\n    if -65536 < n < 65536:\n        int_cache[n] = v\n    return v\n\ndef to_man_exp",
  expect='fire:D-R1d:from_int')
V(id='c33-constmemo-tag-first', prop='C33', file='mpmath/libmp/libelefun.py',
  old="        val = f(newprec, **kwargs)\n        # invalidate, store, validate: an interrupt between the stores\n        # must not leave a value under the wrong precision\n        f.memo_prec = -1\n        f.memo_val = val\n        f.memo_prec = newprec\n        return val >> (newprec-prec)\n",
  new="        f.memo_prec = newprec\n        f.memo_val = f(newprec, **kwargs)\n        return f.memo_val >> (newprec-prec)\n",
  expect='fire:D-R2:constant_memo.g')
V(id='c33-constmemo-gate-reversed', prop='C33', file='mpmath/libmp/libelefun.py',
  old="        if prec <= memo_prec:", new="        if prec >= memo_prec:",
  expect='fire:D-R2:constant_memo.g')
V(id='c33-constmemo-shift', prop='C33', file='mpmath/libmp/libelefun.py',
  old="            return f.memo_val >> (memo_prec-prec)", new="            return f.memo_val >> (memo_prec-prec-1)",
  expect='fire:D-R2:constant_memo.g')
V(id='c33-lu-no-tag-gate', prop='C33', file='mpmath/matrices/linalg.py',
  old="        if use_cache and not overwrite and isinstance(A, ctx.matrix) and \\\n                A._LU and A._LU_prec == ctx.prec:",
  new="        if use_cache and not overwrite and isinstance(A, ctx.matrix) and A._LU:",
  expect='fire:D-LU:LU_decomp')
V(id='c33-setrows-no-reset', prop='C33', file='mpmath/matrices/matrices.py',
  old="    def __setrows(self, value):\n        self._LU = None\n", new="    def __setrows(self, value):\n",
  expect='fire:D-R4:__setrows')
V(id='c33-setrows-reset-last', prop='C33', file='mpmath/matrices/matrices.py',
  old="    def __setrows(self, value):\n        self._LU = None\n        for key in self.__data.copy():\n            if key[0] >= value:\n                del self.__data[key]\n        self.__rows = value\n",
  new="    def __setrows(self, value):\n        for key in self.__data.copy():\n            if key[0] >= value:\n                del self.__data[key]\n        self.__rows = value\n        self._LU = None\n",
  expect='fire:D-R4:__setrows')
V(id='c33-setcols-reset-after-deletions', prop='C33', file='mpmath/matrices/matrices.py',
  old="    def __setcols(self, value):\n        self._LU = None\n        for key in self.__data.copy():\n            if key[1] >= value:\n                del self.__data[key]\n",
  new="    def __setcols(self, value):\n        for key in self.__data.copy():\n            if key[1] >= value:\n                del self.__data[key]\n        self._LU = None\n",
  expect='fire:D-R4:__setcols')
V(id='c33-setitem-reset-only-single', prop='C33', file='mpmath/matrices/matrices.py',
  edits=[("        # in between must not leave them with a changed matrix)\n        self._LU = None\n", "        # in between must not leave them with a changed matrix)\n"),
         ("            # Single element assingment\n", "            # Single element assingment\n            self._LU = None\n")],
  expect='fire:D-R4:__setitem__')
V(id='c33-setitem-reset-last', prop='C33', file='mpmath/matrices/matrices.py',
  edits=[("        # in between must not leave them with a changed matrix)\n        self._LU = None\n", "        # in between must not leave them with a changed matrix)\n"),
         ("            elif key in self.__data:\n                del self.__data[key]\n        return\n", "            elif key in self.__data:\n                del self.__data[key]\n        if self._LU:\n            self._LU = None\n        return\n")],
  expect='fire:D-R4:__setitem__')
V(id='c33-benign-setitem-reset-after-key-normalisation', prop='C33', file='mpmath/matrices/matrices.py',
  edits=[("        # in between must not leave them with a changed matrix)\n        self._LU = None\n", "        # in between must not leave them with a changed matrix)\n"),
         ("        # Slice indexing\n        if isinstance(key[0],slice) or isinstance(key[1],slice):\n", "        if self._LU:\n            self._LU = None\n        # Slice indexing\n        if isinstance(key[0],slice) or isinstance(key[1],slice):\n")],
  expect='silent')
V(id='c33-lu-gate-higher-precision', prop='C33', file='mpmath/matrices/linalg.py',
  old="                A._LU and A._LU_prec == ctx.prec:", new="                A._LU and A._LU_prec >= ctx.prec:",
  expect='fire:D-LU4:LU_decomp')
V(id='c33-benign-lu-gate-flipped-equality', prop='C33', file='mpmath/matrices/linalg.py',
  old="                A._LU and A._LU_prec == ctx.prec:", new="                A._LU and ctx.prec == A._LU_prec:",
  expect='silent')
V(id='c33-memoize-shares-matrix', prop='C33', file='mpmath/ctx_base.py',
  old="            if isinstance(value, ctx.matrix):\n                # (mutable: the cache keeps its own copy, as a hit hands\n                # out a copy)\n                f_cache[key] = (prec, value.copy())\n            else:\n                f_cache[key] = (prec, value)\n",
  new="            f_cache[key] = (prec, value)\n", expect='fire:D-R6m:f_cached')
V(id='c33-memoize-matrix-branch-without-copy', prop='C33', file='mpmath/ctx_base.py',
  old="                f_cache[key] = (prec, value.copy())\n", new="                f_cache[key] = (prec, value)\n", expect='fire:D-R6m:f_cached')
V(id='c33-benign-memoize-returns-copy-instead', prop='C33', file='mpmath/ctx_base.py',
  old="            if isinstance(value, ctx.matrix):\n                # (mutable: the cache keeps its own copy, as a hit hands\n                # out a copy)\n                f_cache[key] = (prec, value.copy())\n            else:\n                f_cache[key] = (prec, value)\n            return value\n",
  new="            f_cache[key] = (prec, value)\n            if isinstance(value, ctx.matrix):\n                return value.copy()\n            return value\n", expect='silent')
V(id='c33-coulomb-shared-default', prop='C33', file='mpmath/functions/bessel.py',
  old="def coulombc(ctx, l, eta):\n    # cache per context: the values are numbers of this context\n    _cache = ctx._misc_const_cache\n",
  new="def coulombc(ctx, l, eta, _cache={}):\n",
  expect='fire:D-R3:coulombc')
V(id='c33-memoize-key-drops-kwargs', prop='C33', file='mpmath/ctx_base.py',
  old="                key = args, tuple(kwargs.items())", new="                key = args, tuple(sorted(kwargs))",
  expect='fire:D-R6:f_cached')
V(id='c33-new-untriaged-cache', prop='C33', file='mpmath/libmp/libelefun.py',
  old="def log_int_fixed(n, prec, ln2=None):",
  new="_exp_cache = {}\ndef _exp_cached(x, prec):\n    if x not in _exp_cache:\n        _exp_cache[x] = exp_basecase(x, prec)\n    return _exp_cache[x]\n\ndef log_int_fixed(n, prec, ln2=None):",
  expect='analysis-error:untriaged')
V(id='c33-benign-rename-tag', prop='C33', file='mpmath/libmp/libelefun.py',
  old="        value, vprec = log_int_cache[n]\n        if vprec >= prec:\n            return value >> (vprec - prec)",
  new="        cached_value, stored = log_int_cache[n]\n        if prec <= stored:\n            return cached_value >> (stored - prec)",
  expect='silent')

V(id='c05-intcache-poisoned', prop='C05', file='mpmath/libmp/libmpf.py',
  old="    return from_man_exp(n, 0, prec, rnd)\n\ndef to_man_exp",
  new="    v = from_man_exp(n, 0, prec, rnd)\n    if -65536 < n < 65536:\n        int_cache[n] = v\n    return v\n\ndef to_man_exp",
  expect='fire:G-R4:from_int')
V(id='c05-hash-fastpath-unreduced', prop='C05', file='mpmath/libmp/libmpf.py',
  old="        h = sman % HASH_MODULUS\n",
  new="        if sexp >= 0 and sbc + sexp <= HASH_BITS:\n            h = int(sman) << sexp\n            if ssign: h = -h\n            return h\n        h = sman % HASH_MODULUS\n",
  expect='fire:G-R1:mpf_hash')

# ---------------------------------------------------------------- C10 -------
V(id='c10-mod-early-return', prop='C10', file='mpmath/libmp/libmpf.py',
  old="            return mpf_pos(s, prec, rnd)\n        return mpf_add(s, t, prec, rnd)",
  new="            return s\n        return mpf_add(s, t, prec, rnd)",
  expect='fire:B-R1:mpf_mod')
V(id='c10-add-zero-branch', prop='C10', file='mpmath/libmp/libmpf.py',
  old="    if sman:\n        return normalize1(ssign, sman, sexp, sbc, prec or sbc, rnd)\n    return s",
  new="    return s",
  expect='fire:B-R1:mpf_add')
V(id='c10-powint-n1', prop='C10', file='mpmath/libmp/libmpf.py',
  old="    if n == 1: return mpf_pos(s, prec, rnd)", new="    if n == 1: return s",
  expect='fire:B-R1:mpf_pow_int')
V(id='c10-conjugate-passthrough', prop='C10', file='mpmath/libmp/libmpc.py',
  old="    return mpf_pos(re, prec, rnd), mpf_neg(im, prec, rnd)", new="    return re, mpf_neg(im, prec, rnd)",
  expect='fire:B-R1:mpc_conjugate')
V(id='c10-atanh-guard-bits', prop='C10', file='mpmath/libmp/libmpc.py',
  old="        v = (fzero, v[1])\n    return mpc_pos(v, prec, rnd)", new="        v = (fzero, v[1])\n    return v",
  expect='fire:B-R1:mpc_atanh')
V(id='c10-psi0-wp', prop='C10', file='mpmath/libmp/gammazeta.py',
  old="    return from_man_exp(s, -wp, prec, rnd)\n\ndef mpc_psi0", new="    return from_man_exp(s, -wp, wp, rnd)\n\ndef mpc_psi0",
  expect='fire:B-R1:mpf_psi0')
V(id='c10-bernoulli-fresh', prop='C10', file='mpmath/libmp/gammazeta.py',
  old="    if not rnd:\n        return numbers[n]\n    return mpf_pos(numbers[n], prec, rnd)\n\ndef mpf_bernoulli_huge",
  new="    return numbers[n]\n\ndef mpf_bernoulli_huge",
  expect='fire:B-R1:mpf_bernoulli')
V(id='c10-exp-exact-small', prop='C10', file='mpmath/libmp/libelefun.py',
  old="        if mag < -wp:\n            return mpf_perturb(fone, sign, prec, rnd)\n        # |x| >= 2",
  new="        if mag < -wp:\n            return mpf_add(fone, x)\n        # |x| >= 2",
  expect='fire:B-R1:mpf_exp')
V(id='c10-operator-no-prec', prop='C10', file='mpmath/ctx_mp_python.py',
  old="        v._mpf_ = mpf_neg(s._mpf_, prec, rounding)", new="        v._mpf_ = mpf_neg(s._mpf_)",
  expect='fire:B-R1:__neg__')
V(id='c10-mpf-new-skips-rounding', prop='C10', file='mpmath/ctx_mp_python.py',
  old="            if (not man) and exp:\n                return val\n            v = new(cls)\n            v._mpf_ = normalize(sign, man, exp, bc, prec, rounding)",
  new="            if (not man) and exp:\n                return val\n            v = new(cls)\n            v._mpf_ = val._mpf_",
  expect='fire:B-R1:__new__')
V(id='c10-wrapper-ignores-prec', prop='C10', file='mpmath/ctx_mp_python.py',
  old="                    return ctx.make_mpf(mpf_f(x._mpf_, prec, rounding))",
  new="                    return ctx.make_mpf(mpf_f(x._mpf_, prec + 10, rounding))",
  expect='fire:B-R1t:_wrap_libmp_function')
V(id='c10-parse-prec-exact-in', prop='C10', file='mpmath/ctx_mp.py',
  old="            if kwargs.get('exact'):", new="            if 'exact' in kwargs:",
  expect='fire:B-R1t:_parse_prec')
V(id='c10-specfun-no-plus', prop='C10', file='mpmath/ctx_mp_python.py',
  old="                return +retval\n        else:\n            f_wrapped = f\n        f_wrapped.__doc__",
  new="                return retval\n        else:\n            f_wrapped = f\n        f_wrapped.__doc__",
  expect='fire:A-R5:f_wrapped')
V(id='c10-fsum-exact', prop='C10', file='mpmath/ctx_mp_python.py',
  old="        s = mpf_sum(real, prec, rnd, absolute)", new="        s = mpf_sum(real, 0, rnd, absolute)",
  expect='fire:B-R1:fsum')
V(id='c10-benign-extra-rounding', prop='C10', file='mpmath/libmp/libmpc.py',
  old="def mpc_pos(z, prec, rnd=round_fast):\n    a, b = z\n    return mpf_pos(a, prec, rnd), mpf_pos(b, prec, rnd)",
  new="def mpc_pos(z, prec, rnd=round_fast):\n    re, im = z\n    x = mpf_pos(re, prec, rnd)\n    y = mpf_pos(im, prec, rnd)\n    return x, y",
  expect='silent')
V(id='c10-benign-lower-intermediate', prop='C10', file='mpmath/libmp/libmpc.py',
  old="    # atanh(z) = (log(1+z)-log(1-z))/2\n    wp = prec + 15\n", new="    # atanh(z) = (log(1+z)-log(1-z))/2\n    wp = prec + 17\n",
  expect='silent')

# ---------------------------------------------------------------- C06 -------
V(id='c06-frac-rounded-floor', prop='C06', file='mpmath/libmp/libmpf.py',
  old="    return mpf_sub(s, mpf_floor(s), prec, rnd)", new="    return mpf_sub(s, mpf_floor(s, prec, rnd), prec, rnd)",
  expect='fire:B-R4:mpf_frac')
V(id='c06-ceil-via-neg-floor', prop='C06', file='mpmath/libmp/libmpf.py',
  old="    v = mpf_round_int(s, round_ceiling)\n    if prec:\n        v = mpf_pos(v, prec, rnd)\n    return v",
  new="    return mpf_neg(mpf_floor(mpf_neg(s), prec, rnd))",
  expect='fire:B-R3:mpf_ceil')
V(id='c06-nint-direction', prop='C06', file='mpmath/libmp/libmpf.py',
  old="    v = mpf_round_int(s, round_nearest)", new="    v = mpf_round_int(s, round_floor)",
  expect='fire:H-C06:mpf_nint')
V(id='c06-floor-unrounded', prop='C06', file='mpmath/libmp/libmpf.py',
  old="    v = mpf_round_int(s, round_floor)\n    if prec:\n        v = mpf_pos(v, prec, rnd)\n    return v",
  new="    v = mpf_round_int(s, round_floor)\n    return v",
  expect='fire:B-R1:mpf_floor')
V(id='c06-floor-ignores-rnd', prop='C06', file='mpmath/libmp/libmpf.py',
  old="    v = mpf_round_int(s, round_floor)\n    if prec:\n        v = mpf_pos(v, prec, rnd)",
  new="    v = mpf_round_int(s, round_floor)\n    if prec:\n        v = mpf_pos(v, prec)",
  expect='fire:B-R3:mpf_floor')
V(id='c06-mod-final-mode', prop='C06', file='mpmath/libmp/libmpf.py',
  old="    return normalize(sign, man, base, bitcount(man), prec, rnd)\n\nreciprocal_rnd",
  new="    return normalize(sign, man, base, bitcount(man), prec, round_down)\n\nreciprocal_rnd",
  expect='fire:B-R3:mpf_mod')
V(id='c06-ceil-wired-to-floor', prop='C06', file='mpmath/ctx_mp.py',
  old="        ctx.ceil = ctx._wrap_libmp_function(libmp.mpf_ceil, libmp.mpc_ceil)",
  new="        ctx.ceil = ctx._wrap_libmp_function(libmp.mpf_ceil, libmp.mpc_floor)",
  expect='fire:H-C06:init_builtins')
V(id='c06-int-rounds', prop='C06', file='mpmath/ctx_mp_python.py',
  old="    def __int__(s): return int(to_int(s._mpf_))", new="    def __int__(s): return int(to_int(s._mpf_, round_nearest))",
  expect='fire:H-C06:__int__')
V(id='c06-benign-floor-refactor', prop='C06', file='mpmath/libmp/libmpf.py',
  old="    v = mpf_round_int(s, round_floor)\n    if prec:\n        v = mpf_pos(v, prec, rnd)\n    return v",
  new="    ipart = mpf_round_int(s, round_floor)\n    if not prec:\n        return ipart\n    return mpf_pos(ipart, prec, rnd)",
  expect='silent')

# ---------------------------------------------------------------- C13 -------
V(id='c13-acos-fieldwise-normalize', prop='C13', file='mpmath/libmp/libmpc.py',
  old="    re = mpf_pos(re, prec, rnd)\n    im = mpf_pos(im, prec, rnd)\n    return re, im\n\ndef mpc_acos",
  new="    re = normalize(re[0], re[1], re[2], re[3], prec, rnd)\n    im = mpf_pos(im, prec, rnd)\n    return re, im\n\ndef mpc_acos",
  expect='fire:B-R6:acos_asin')
V(id='c13-log-fieldwise-normalize1', prop='C13', file='mpmath/libmp/libelefun.py',
  old="        s = exact_nthroot(s, n, prec, r) or mpf_pos(r, prec, rnd)\n", new="        s = exact_nthroot(s, n, prec, r) or normalize1(r[0], r[1], r[2], r[3], prec, rnd)\n",
  expect='fire:B-R6:mpf_nthroot')
V(id='c13-benign-unpacked', prop='C13', file='mpmath/libmp/libelefun.py',
  old="        s = exact_nthroot(s, n, prec, r) or mpf_pos(r, prec, rnd)\n", new="        s = exact_nthroot(s, n, prec, r) or mpf_pos(mpf_pos(r, prec + 2, rnd), prec, rnd)\n",
  expect='silent')

# ---------------------------------------------------------------- C02 -------
V(id='c02-add-guard-mismatch', prop='C02', file='mpmath/libmp/libmpf.py',
  old="                    if delta > prec + 4 and offset >= tbc:\n                        offset = prec + 4\n                        sman <<= offset",
  new="                    if delta > prec and offset >= tbc:\n                        offset = prec + 4\n                        sman <<= offset",
  expect='fire:B-R4i:mpf_add')
V(id='c02-tie-mask-width', prop='C02', file='mpmath/libmp/libmpf.py',
  old="        return (MPZ_ONE<<(n-1))-1", new="        return (MPZ_ONE<<n)-1",
  expect='fire:B-R4m:h_mask_big')
V(id='c02-div-sticky-dropped', prop='C02', file='mpmath/libmp/libmpf.py',
  old="    quot, rem = divmod(sman<<extra, tman)\n    if rem:\n        quot = (quot<<1) + 1\n        extra += 1\n        return normalize1(sign, quot, sexp-texp-extra, bitcount(quot), prec, rnd)",
  new="    quot, rem = divmod(sman<<extra, tman)",
  expect='fire:B-R4i:mpf_div')
V(id='c02-sqrt-floor-for-up', prop='C02', file='mpmath/libmp/libmpf.py',
  old="    if rnd in 'fd':\n        man = isqrt(man<<shift)", new="    if rnd in 'fdu':\n        man = isqrt(man<<shift)",
  expect='fire:B-R4i:mpf_sqrt')
V(id='c02-shifts-down-table', prop='C02', file='mpmath/libmp/libmpf.py',
  old="shifts_down = {round_floor:(1,0), round_ceiling:(0,1),", new="shifts_down = {round_floor:(1,0), round_ceiling:(1,0),",
  expect='fire:B-R3:shifts_down')
V(id='c02-negative-rnd-table', prop='C02', file='mpmath/libmp/libmpf.py',
  old="  round_floor : round_ceiling,\n  round_ceiling : round_floor,\n  round_nearest : round_nearest\n}\n\ndef mpf_pow_int",
  new="  round_floor : round_floor,\n  round_ceiling : round_ceiling,\n  round_nearest : round_nearest\n}\n\ndef mpf_pow_int",
  expect='fire:B-R3:negative_rnd')
V(id='c02-sub-ignores-rnd', prop='C02', file='mpmath/libmp/libmpf.py',
  old="    return mpf_add(s, t, prec, rnd, 1)", new="    return mpf_add(s, t, prec, round_fast, 1)",
  expect='fire:B-R3:mpf_sub')
V(id='c02-rsub-no-rounding-arg', prop='C02', file='mpmath/ctx_mp_python.py',
  old="            v._mpf_ = mpf_sub(from_int(t), s._mpf_, prec, rounding)", new="            v._mpf_ = mpf_sub(from_int(t), s._mpf_, prec)",
  expect='fire:B-R3t:__rsub__')
V(id='c02-mpf-new-early-return', prop='C02', file='mpmath/ctx_mp_python.py',
  old="            if (not man) and exp:\n                return val\n            v = new(cls)",
  new="            if not kwargs or ((not man) and exp):\n                return val\n            v = new(cls)",
  expect='fire:B-R3t:__new__')
V(id='c02-benign-extra-guard-bits', prop='C02', file='mpmath/libmp/libmpf.py',
  edits=[("                    if delta > prec + 4 and offset >= tbc:\n                        offset = prec + 4\n                        sman <<= offset",
          "                    if delta > prec + 6 and offset >= tbc:\n                        offset = prec + 6\n                        sman <<= offset"),
         ("                    if delta > prec + 4 and -offset >= sbc:\n                        offset = prec + 4\n                        tman <<= offset",
          "                    if delta > prec + 6 and -offset >= sbc:\n                        offset = prec + 6\n                        tman <<= offset")],
  expect='silent')

# ---------------------------------------------------------------- C03 -------
V(id='c03-pm-always-floor', prop='C03', file='mpmath/libmp/libmpf.py',
  old="                if rounds_down:\n                    pm = pm >> (pbc-workprec)\n                else:\n                    pm = -((-pm) >> (pbc-workprec))",
  new="                pm = pm >> (pbc-workprec)",
  expect='fire:B-R5:mpf_pow_int')
V(id='c03-inner-no-reciprocal-mode', prop='C03', file='mpmath/libmp/libmpf.py',
  old="        inverse = mpf_pow_int(s, -n, prec+5, reciprocal_rnd[rnd])", new="        inverse = mpf_pow_int(s, -n, prec+5, rnd)",
  expect='fire:B-R5:mpf_pow_int')
V(id='c03-inner-no-guard-bits', prop='C03', file='mpmath/libmp/libmpf.py',
  old="        inverse = mpf_pow_int(s, -n, prec+5, reciprocal_rnd[rnd])", new="        inverse = mpf_pow_int(s, -n, prec, reciprocal_rnd[rnd])",
  expect='fire:B-R5:mpf_pow_int')
V(id='c03-result-sign', prop='C03', file='mpmath/libmp/libmpf.py',
  old="    result_sign = sign & n", new="    result_sign = sign",
  expect='fire:B-R5:mpf_pow_int')
V(id='c03-rounds-down-ignores-sign', prop='C03', file='mpmath/libmp/libmpf.py',
  old="        shifts_down[rnd][result_sign]\n", new="        shifts_down[rnd][0]\n",
  expect='fire:B-R5:mpf_pow_int')
V(id='c03-exact-path-prec', prop='C03', file='mpmath/libmp/libmpf.py',
  old="    if bc*n < 1000:", new="    if bc*n <= prec:",
  expect='fire:B-R5:mpf_pow_int')
V(id='c03-final-mode', prop='C03', file='mpmath/libmp/libmpf.py',
  old="    return normalize(result_sign, pm, pe, pbc, prec, rnd)\n\n\ndef mpf_perturb",
  new="    return normalize(result_sign, pm, pe, pbc, prec, round_nearest)\n\n\ndef mpf_perturb",
  expect='fire:B-R3:mpf_pow_int')
V(id='c03-benign-more-guard', prop='C03', file='mpmath/libmp/libmpf.py',
  old="    workprec = prec + 4*bitcount(n) + 4", new="    workprec = prec + 4*bitcount(n) + 8",
  expect='silent')

# ---------------------------------------------------------------- C04 -------
V(id='c04-mul-rounded-products', prop='C04', file='mpmath/libmp/libmpc.py',
  old="    p = mpf_mul(a, c)\n    q = mpf_mul(b, d)\n    r = mpf_mul(a, d)",
  new="    p = mpf_mul(a, c, prec, rnd)\n    q = mpf_mul(b, d)\n    r = mpf_mul(a, d)",
  expect='fire:B-R4:mpc_mul')
V(id='c04-mul-neg-after-round', prop='C04', file='mpmath/libmp/libmpc.py',
  old="    re = mpf_sub(p, q, prec, rnd)\n    im = mpf_add(r, s, prec, rnd)\n    return re, im",
  new="    re = mpf_neg(mpf_sub(q, p, prec, rnd))\n    im = mpf_add(r, s, prec, rnd)\n    return re, im",
  expect='fire:B-R3:mpc_mul')
V(id='c04-mul-int-mode', prop='C04', file='mpmath/libmp/libmpc.py',
  old="    im = mpf_mul_int(b, n, prec, rnd)", new="    im = mpf_mul_int(b, n, prec)",
  expect='fire:B-R3:mpc_mul_int')
V(id='c04-add-operator-no-rounding', prop='C04', file='mpmath/ctx_mp_python.py',
  old="        v._mpc_ = mpc_add(s._mpc_, t._mpc_, prec, rounding)", new="        v._mpc_ = mpc_add(s._mpc_, t._mpc_, prec)",
  expect='fire:B-R3t:__add__')
V(id='c04-sub-operands-swapped', prop='C04', file='mpmath/ctx_mp_python.py',
  old="        v._mpc_ = mpc_sub(s._mpc_, t._mpc_, prec, rounding)", new="        v._mpc_ = mpc_sub(t._mpc_, s._mpc_, prec, rounding)",
  expect='fire:H-C04:__sub__')
V(id='c04-eq-via-complex', prop='C04', file='mpmath/ctx_mp_python.py',
  old="        return s.real == t.real and s.imag == t.imag", new="        return complex(s) == complex(t)",
  expect='fire:H-C04:__eq__')
V(id='c04-fmul-kernel-prec', prop='C04', file='mpmath/ctx_mp.py',
  old="                    return ctx.make_mpc(mpc_mul(x._mpc_, y._mpc_, prec, rounding))",
  new="                    return ctx.make_mpc(mpc_mul(x._mpc_, y._mpc_, prec, 'n'))",
  expect='fire:B-R3t:fmul')
V(id='c04-benign-rename', prop='C04', file='mpmath/libmp/libmpc.py',
  old="    re = mpf_sub(p, q, prec, rnd)\n    im = mpf_add(r, s, prec, rnd)\n    return re, im",
  new="    x = mpf_sub(p, q, prec, rnd)\n    y = mpf_add(r, s, prec, rnd)\n    return x, y",
  expect='silent')

# ---------------------------------------------------------------- C07 -------
V(id='c07-float-detour', prop='C07', file='mpmath/libmp/libmpf.py',
  old="    man, exp = str_to_man_exp(x, base=10)\n\n    # XXX",
  new="    if prec <= 53 and rnd == round_nearest:\n        return from_float(float(x), prec, rnd)\n    man, exp = str_to_man_exp(x, base=10)\n\n    # XXX",
  expect='fire:B-R5:from_str')
V(id='c07-big-exp-mantissa-rounded', prop='C07', file='mpmath/libmp/libmpf.py',
  old="        s = from_int(man)\n        s = mpf_mul(s, mpf_pow_int(ften, exp, prec+10, prnd), prec, rnd)",
  new="        s = from_int(man, prec+10)\n        s = mpf_mul(s, mpf_pow_int(ften, exp, prec+10, prnd), prec, rnd)",
  expect='fire:B-R5:from_str')
V(id='c07-big-exp-undirected-power', prop='C07', file='mpmath/libmp/libmpf.py',
  old="        s = mpf_mul(s, mpf_pow_int(ften, exp, prec+10, prnd), prec, rnd)",
  new="        s = mpf_mul(s, mpf_pow_int(ften, exp, prec+10), prec, rnd)",
  expect='fire:B-R5:from_str')
V(id='c07-moderate-ignores-rnd', prop='C07', file='mpmath/libmp/libmpf.py',
  old="            s = from_rational(man, 10**-exp, prec, rnd)", new="            s = from_rational(man, 10**-exp, prec)",
  expect='fire:B-R5:from_str')
V(id='c07-interval-upper-floor', prop='C07', file='mpmath/libmp/libmpi.py',
  old="            a = from_str(a, prec, round_floor)\n            b = from_str(b, prec, round_ceiling)",
  new="            a = from_str(a, prec, round_floor)\n            b = from_str(b, prec, round_floor)",
  expect='fire:C-R7:mpi_from_str')
V(id='c07-halfwidth-truncated', prop='C07', file='mpmath/libmp/libmpi.py',
  old="    y = from_str(y, wp, round_ceiling)\n    assert", new="    y = from_str(y, wp)\n    assert",
  expect='fire:C-R7:mpi_from_str_a_b')
V(id='c07-convert-arg-drops-rounding', prop='C07', file='mpmath/ctx_mp_python.py',
  old="        if isinstance(x, basestring): return from_str(x, prec, rounding)\n",
  new="        if isinstance(x, basestring): return from_str(x, prec)\n",
  expect='fire:B-R3t:mpf_convert_arg')
V(id='c07-benign-threshold', prop='C07', file='mpmath/libmp/libmpf.py',
  old="    if abs(exp) > 400 and abs(exp + int(bitcount(abs(man))*0.30103)) > 400:", new="    if abs(exp) > 1000 and abs(exp + int(bitcount(abs(man))*0.30103)) > 400:",
  expect='silent')

# ---------------------------------------------------------------- C14 -------
V(id='c14-add-upper-floor', prop='C14', file='mpmath/libmp/libmpi.py',
  old="    a = mpf_add(sa, ta, prec, round_floor)\n    b = mpf_add(sb, tb, prec, round_ceiling)",
  new="    a = mpf_add(sa, ta, prec, round_floor)\n    b = mpf_add(sb, tb, prec, round_floor)",
  expect='fire:C-R1:mpi_add')
V(id='c14-sub-default-rounding', prop='C14', file='mpmath/libmp/libmpi.py',
  old="    a = mpf_sub(sa, tb, prec, round_floor)", new="    a = mpf_sub(sa, tb, prec)",
  expect='fire:C-R1:mpi_sub')
V(id='c14-exp-swapped-modes', prop='C14', file='mpmath/libmp/libmpi.py',
  old="    else: a = mpf_outward(mpf_exp, (sa,), prec, round_floor)\n    if sb == fzero: b = fone\n    else: b = mpf_outward(mpf_exp, (sb,), prec, round_ceiling)",
  new="    else: a = mpf_outward(mpf_exp, (sa,), prec, round_ceiling)\n    if sb == fzero: b = fone\n    else: b = mpf_outward(mpf_exp, (sb,), prec, round_floor)",
  expect='fire:C-R1:mpi_exp')
V(id='c14-mul-general-nearest', prop='C14', file='mpmath/libmp/libmpi.py',
  old="            a = mpf_pos(a, prec, round_floor)\n            b = mpf_pos(b, prec, round_ceiling)\n    return a, b\n\ndef mpi_square",
  new="            a = mpf_pos(a, prec, round_nearest)\n            b = mpf_pos(b, prec, round_ceiling)\n    return a, b\n\ndef mpi_square",
  expect='fire:C-R1:mpi_mul')
V(id='c14-loggamma-neg-after-round', prop='C14', file='mpmath/libmp/gammazeta.py',
  old="        if type == 3: return mpf_neg(mpf_log(mpf_abs(x), prec, negative_rnd[rnd]))",
  new="        if type == 3: return mpf_neg(mpf_log(mpf_abs(x), prec, rnd))",
  expect='silent')   # benign for C14 since 5948c3d: the real interval layer no longer relies on the kernel's directed mode
V(id='c14-atan2-pi-direction', prop='C14', file='mpmath/libmp/libelefun.py',
  old="            return mpf_neg(mpf_shift(mpf_pi(prec, negative_rnd[rnd]), -1))",
  new="            return mpf_neg(mpf_shift(mpf_pi(prec, rnd), -1))",
  expect='silent')   # benign for C14 since 5948c3d (same reason)
V(id='c14-finalize-inward', prop='C14', file='mpmath/libmp/libmpi.py',
  old="        if bool(v[0]) == (rounding == round_floor):", new="        if bool(v[0]) != (rounding == round_floor):",
  expect='fire:C-R4:finalize')
V(id='c14-finalize-direction-swap', prop='C14', file='mpmath/libmp/libmpi.py',
  old="    cb = finalize(cb, round_ceiling)", new="    cb = finalize(cb, round_floor)",
  expect='fire:C-R4:mpi_cos_sin')
V(id='c14-convert-upper-floor', prop='C14', file='mpmath/ctx_iv.py',
  old="                b = convert_mpf_(b, ctx.prec, round_ceiling)", new="                b = convert_mpf_(b, ctx.prec, round_floor)",
  expect='fire:C-R6:convert')
V(id='c14-halfwidth-default', prop='C14', file='mpmath/libmp/libmpi.py',
  old="    y = from_str(y, wp, round_ceiling)\n    assert", new="    y = from_str(y, wp)\n    assert",
  expect='fire:C-R2:mpi_from_str_a_b')
V(id='c14-pow-intermediate-rounded-wrong', prop='C14', file='mpmath/libmp/libmpi.py',
  old="    u = mpi_log(s, prec + 20)\n    v = mpi_mul(u, t, prec + 20)\n    return mpi_exp(v, prec)",
  new="    u = mpi_log(s, prec + 20)\n    v = mpi_mul(u, t, prec + 20)\n    v = (v[1], v[0])\n    return mpi_exp(v, prec)",
  expect='fire:C-R3:mpi_pow')
V(id='c14-benign-more-guard', prop='C14', file='mpmath/libmp/libmpi.py',
  old="    u = mpi_log(s, prec + 20)\n    v = mpi_mul(u, t, prec + 20)", new="    u = mpi_log(s, prec + 30)\n    v = mpi_mul(u, t, prec + 30)",
  expect='silent')

# ---------------------------------------------------------------- C15 -------
V(id='c15-gamma-cross-direction', prop='C15', file='mpmath/libmp/libmpi.py',
  old="        maxim = mpc_outward(mpc_loggamma, (a2,b2), wp, round_ceiling, 1)\n\n    w =", new="        maxim = mpc_outward(mpc_loggamma, (a2,b2), wp, round_floor, 1)\n\n    w =",
  expect='fire:C-R3:mpci_gamma')
V(id='c15-gamma-upper-half-direction', prop='C15', file='mpmath/libmp/libmpi.py',
  old="        minre = mpc_outward(mpc_loggamma, (a1,b2), wp, round_floor, 0)\n        maxre = mpc_outward(mpc_loggamma, (a2,b1), wp, round_ceiling, 0)",
  new="        minre = mpc_outward(mpc_loggamma, (a1,b2), wp, round_ceiling, 0)\n        maxre = mpc_outward(mpc_loggamma, (a2,b1), wp, round_ceiling, 0)",
  expect='fire:C-R3:mpci_gamma')
V(id='c15-cos-neg-dropped-swap', prop='C15', file='mpmath/libmp/libmpi.py',
  old="    im = mpi_mul(s, sh, prec)\n    return re, mpi_neg(im)", new="    im = mpi_mul(s, sh, prec)\n    return re, (mpf_neg(im[0]), mpf_neg(im[1]))",
  expect='fire:C-R1:mpci_cos')
V(id='c15-mul-real-part-unrounded-swap', prop='C15', file='mpmath/libmp/libmpi.py',
  old="    re = mpi_sub(r1,r2,prec)\n    i1 = mpi_mul(a,d)", new="    re = mpi_sub(r1,r2,prec)\n    re = (re[1], re[0])\n    i1 = mpi_mul(a,d)",
  expect='fire:C-R1:mpci_mul')
V(id='c15-rop-real-swapped', prop='C15', file='mpmath/ctx_iv.py',
  old='        if hasattr(t, "_mpci_"): return g_complex(ctx, t._mpci_, (s._mpi_, mpi_zero))',
  new='        if hasattr(t, "_mpci_"): return g_complex(ctx, (s._mpi_, mpi_zero), t._mpci_)',
  expect='fire:C-R8:rop_real')
V(id='c15-op-table-mismatch', prop='C15', file='mpmath/ctx_iv.py',
  old="ivmpf.__div__, ivmpf.__rdiv__, ivmpc.__div__, ivmpc.__rdiv__ = _binary_op(mpi_div, mpci_div)",
  new="ivmpf.__div__, ivmpf.__rdiv__, ivmpc.__div__, ivmpc.__rdiv__ = _binary_op(mpi_div, mpci_mul)",
  expect='fire:C-R8:<module>')
V(id='c15-benign-rename', prop='C15', file='mpmath/libmp/libmpi.py',
  old="    re = mpi_sub(r1,r2,prec)\n    i1 = mpi_mul(a,d)", new="    real_part = mpi_sub(r1,r2,prec)\n    re = real_part\n    i1 = mpi_mul(a,d)",
  expect='silent')

# ---------------------------------------------------------------- C01 -------
V(id='c01-equal-exp-normalize1', prop='C01', file='mpmath/libmp/libmpf.py',
  old="        bc = bitcount(man)\n        return normalize(ssign, man, texp, bc, prec or bc, rnd)\n    # Handle zeros",
  new="        bc = bitcount(man)\n        return normalize1(ssign, man, texp, bc, prec or bc, rnd)\n    # Handle zeros",
  expect='fire:E-R2:mpf_add')
V(id='c01-mul-int-normalize1', prop='C01', file='mpmath/libmp/libmpf.py',
  old="    bc += int(man>>bc)\n    return normalize(sign, man, exp, bc, prec, rnd)",
  new="    bc += int(man>>bc)\n    return normalize1(sign, man, exp, bc, prec, rnd)",
  expect='fire:E-R2:python_mpf_mul_int')
V(id='c01-div-no-sticky-normalize1', prop='C01', file='mpmath/libmp/libmpf.py',
  old="    return normalize(sign, quot, sexp-texp-extra, bitcount(quot), prec, rnd)\n\ndef mpf_rdiv_int",
  new="    return normalize1(sign, quot, sexp-texp-extra, bitcount(quot), prec, rnd)\n\ndef mpf_rdiv_int",
  expect='fire:E-R2:mpf_div')
V(id='c01-mul-bc-estimate-off', prop='C01', file='mpmath/libmp/libmpf.py',
  old="        bc = sbc + tbc - 1\n        bc += int(man>>bc)\n        if prec:\n            return normalize1(sign, man, sexp+texp, bc, prec, rnd)",
  new="        bc = sbc + tbc - 1\n        if prec:\n            return normalize1(sign, man, sexp+texp, bc, prec, rnd)",
  expect='fire:E-R3:python_mpf_mul')
V(id='c01-add-stale-bitcount', prop='C01', file='mpmath/libmp/libmpf.py',
  old="                        if tsign == ssign: sman += 1\n                        else:              sman -= 1\n                        return normalize1(ssign, sman, sexp-offset,\n                            bitcount(sman), prec, rnd)",
  new="                        bcs = bitcount(sman)\n                        if tsign == ssign: sman += 1\n                        else:              sman -= 1\n                        return normalize1(ssign, sman, sexp-offset,\n                            bcs, prec, rnd)",
  expect='fire:E-R3:mpf_add')
V(id='c01-normalize-no-fixup', prop='C01', file='mpmath/libmp/libmpf.py',
  old="    if man == 1:\n        bc = 1\n    return sign, man, exp, bc\n\ndef _normalize1",
  new="    return sign, man, exp, bc\n\ndef _normalize1",
  expect='fire:E-R4:_normalize')
V(id='c01-normalize1-strip-no-exp', prop='C01', file='mpmath/libmp/libmpf.py',
  old="        man >>= t\n        exp += t\n        bc -= t\n    # Bit count can be wrong if the input mantissa was 1 less than\n    # a power of 2 and got rounded up, thereby adding an extra bit.\n    # With trailing bits removed, all powers of two have mantissa 1,\n    # so this is easy to check for.\n    if man == 1:\n        bc = 1\n    return sign, man, exp, bc\n\ntry:",
  new="        man >>= t\n        bc -= t\n    if man == 1:\n        bc = 1\n    return sign, man, exp, bc\n\ntry:",
  expect='fire:E-R4:_normalize1')
V(id='c01-neg-unguarded', prop='C01', file='mpmath/libmp/libmpf.py',
  old="    sign, man, exp, bc = s\n    if not man:\n        if exp:\n            if s == finf: return fninf\n            if s == fninf: return finf\n        return s\n    if not prec:\n        return (1-sign, man, exp, bc)",
  new="    sign, man, exp, bc = s\n    if not prec:\n        return (1-sign, man, exp, bc)\n    if not man:\n        if exp:\n            if s == finf: return fninf\n            if s == fninf: return finf\n        return s",
  expect='fire:E-R1:mpf_neg')
V(id='c01-shift-unguarded', prop='C01', file='mpmath/libmp/libmpf.py',
  old="    sign, man, exp, bc = s\n    if not man:\n        return s\n    return sign, man, exp+n, bc",
  new="    sign, man, exp, bc = s\n    return sign, man, exp+n, bc",
  expect='fire:E-R1:mpf_shift')
V(id='c01-special-collision', prop='C01', file='mpmath/libmp/libmpf.py',
  old="fninf = (1, MPZ_ZERO, -789, -3)", new="fninf = (0, MPZ_ZERO, -456, -2)",
  expect='fire:E-R5:fnan/finf/fninf')
V(id='c01-ften-bc', prop='C01', file='mpmath/libmp/libmpf.py',
  old="ften = (0, MPZ_FIVE, 1, 3)", new="ften = (0, MPZ_FIVE, 1, 4)",
  expect='fire:E-R5:ften')
V(id='c01-negative-zero-used', prop='C01', file='mpmath/libmp/libmpf.py',
  old="            if sign: return fzero\n            else:    return fone", new="            if sign: return fnzero\n            else:    return fone",
  expect='fire:E-R5:fnzero')
V(id='c01-new-tuple-via-mpf-pos', prop='C01', file='mpmath/ctx_mp_python.py',
  old="                v._mpf_ = normalize(sign, MPZ(man), exp, bc, prec, rounding)",
  new="                v._mpf_ = mpf_pos((sign, MPZ(man), exp, bc), prec, rounding)",
  expect='fire:E-R6:__new__')
V(id='c01-unpickle-recount', prop='C01', file='mpmath/libmp/libmpf.py',
  old="    return (sign, MPZ(man, 16), exp, bc)", new="    man = MPZ(man, 16)\n    return (sign, man, exp, bitcount(man))",
  expect='fire:E-R6:from_pickable')
V(id='c01-benign-bitcount-instead-of-idiom', prop='C01', file='mpmath/libmp/libmpf.py',
  old="        bc = sbc + tbc - 1\n        bc += int(man>>bc)\n        if prec:\n            return normalize1(sign, man, sexp+texp, bc, prec, rnd)",
  new="        bc = bitcount(man)\n        if prec:\n            return normalize1(sign, man, sexp+texp, bc, prec, rnd)",
  expect='silent')
V(id='c01-benign-normalize-instead-of-normalize1', prop='C01', file='mpmath/libmp/libmpf.py',
  old="    return normalize1(sign, man, exp, bc, prec, rnd)\n    return s\n",
  new="    return normalize(sign, man, exp, bc, prec, rnd)\n    return s\n",
  expect='silent')

# ---------------------------------------------------------------- C17 -------
V(id='c17-bump-only-ceiling', prop='C17', file='mpmath/libmp/libelefun.py',
  old="        if rnd in (round_up, round_ceiling):\n            v += 1",
  new="        if rnd == round_ceiling:\n            v += 1",
  expect='fire:K-R1:def_mpf_constant.f')
V(id='c17-bump-includes-nearest', prop='C17', file='mpmath/libmp/libelefun.py',
  old="        if rnd in (round_up, round_ceiling):\n            v += 1",
  new="        if rnd in (round_up, round_ceiling, round_nearest):\n            v += 1",
  expect='fire:K-R1:def_mpf_constant.f')
V(id='c17-bump-after-rounding', prop='C17', file='mpmath/libmp/libelefun.py',
  old="        if rnd in (round_up, round_ceiling):\n            v += 1\n        return normalize(0, v, -wp, bitcount(v), prec, rnd)",
  new="        r = normalize(0, v, -wp, bitcount(v), prec, rnd)\n        if rnd in (round_up, round_ceiling):\n            v += 1\n        return r",
  expect='fire:K-R1:def_mpf_constant.f')
V(id='c17-no-guard-bits', prop='C17', file='mpmath/libmp/libelefun.py',
  old="        wp = prec + 20\n        while 1:", new="        wp = prec + 1\n        while 1:",
  expect='fire:K-R1:def_mpf_constant.f')
V(id='c17-round-twice', prop='C17', file='mpmath/libmp/libelefun.py',
  old="        return normalize(0, v, -wp, bitcount(v), prec, rnd)\n    f.__doc__",
  new="        return mpf_pos(normalize(0, v, -wp, bitcount(v), prec+5, rnd), prec, rnd)\n    f.__doc__",
  expect='fire:K-R1:def_mpf_constant.f')
V(id='c17-double-fast-path', prop='C17', file='mpmath/libmp/libelefun.py',
  old="    def f(prec, rnd=round_fast):\n        wp = prec + 20\n        while 1:",
  new="    def f(prec, rnd=round_fast):\n        if prec == 53 and rnd == round_nearest and fixed is pi_fixed:\n            return from_float(math.pi)\n        wp = prec + 20\n        while 1:",
  expect='fire:K-R1:def_mpf_constant.f')
V(id='c17-memo-tag-first', prop='C17', file='mpmath/libmp/libelefun.py',
  old="        val = f(newprec, **kwargs)\n        # invalidate, store, validate: an interrupt between the stores\n        # must not leave a value under the wrong precision\n        f.memo_prec = -1\n        f.memo_val = val\n        f.memo_prec = newprec\n        return val >> (newprec-prec)\n",
  new="        f.memo_prec = newprec\n        f.memo_val = f(newprec, **kwargs)\n        return f.memo_val >> (newprec-prec)\n",
  expect='fire:D-R2:constant_memo')
V(id='c17-memo-gate-lt-flipped', prop='C17', file='mpmath/libmp/libelefun.py',
  old="        if prec <= memo_prec:\n            return f.memo_val >> (memo_prec-prec)",
  new="        if prec <= memo_prec + 8:\n            return f.memo_val >> (memo_prec-prec)",
  expect='fire:D-R2:constant_memo')
V(id='c17-ln10-from-ln2', prop='C17', file='mpmath/libmp/libelefun.py',
  old="mpf_ln10   = def_mpf_constant(ln10_fixed)", new="mpf_ln10   = def_mpf_constant(ln2_fixed)",
  expect='fire:K-R2:mpf_ln10')
V(id='c17-degree-unmemoised', prop='C17', file='mpmath/libmp/gammazeta.py',
  old="@constant_memo\ndef catalan_fixed(prec):", new="def catalan_fixed(prec):",
  expect='fire:K-R2:catalan_fixed')
V(id='c17-iv-both-floor', prop='C17', file='mpmath/ctx_iv.py',
  old="        b = self._f(prec, round_ceiling)\n        return a, b",
  new="        b = self._f(prec, round_floor)\n        return a, b",
  expect='fire:K-R3:_get_mpi_')
V(id='c17-mp-wiring-swapped', prop='C17', file='mpmath/ctx_mp.py',
  old="ctx.constant(mpf_ln2,", new="ctx.constant(mpf_ln10,",
  expect='fire:K-R3:init_builtins')
V(id='c17-constant-ignores-rounding', prop='C17', file='mpmath/ctx_mp_python.py',
  old="        prec, rounding = self.context._prec_rounding\n        return self.func(prec, rounding)",
  new="        prec, rounding = self.context._prec_rounding\n        return self.func(prec)",
  expect='fire:K-R3:_constant._mpf_')
V(id='c17-shifts-down-table', prop='C17', file='mpmath/libmp/libmpf.py',
  old="round_ceiling:(0,1)", new="round_ceiling:(1,1)", expect='fire:B-R3:shifts_down')
V(id='c17-benign-rename', prop='C17', file='mpmath/libmp/libelefun.py',
  old="        if rnd in (round_up, round_ceiling):\n            v += 1\n        return normalize(0, v, -wp, bitcount(v), prec, rnd)",
  new="        if rnd == round_up or rnd == round_ceiling:\n            v += 1\n        return normalize(0, v, -wp, bitcount(v), prec, rnd)",
  expect='silent')
V(id='c17-benign-iv-inline', prop='C17', file='mpmath/ctx_iv.py',
  old="        a = self._f(prec, round_floor)\n        b = self._f(prec, round_ceiling)\n        return a, b",
  new="        return self._f(prec, round_floor), self._f(prec, round_ceiling)",
  expect='silent')

# ---------------------------------------------------------------- C24 -------
V(id='c24-psi0-no-divergence-exit', prop='C24', file='mpmath/libmp/gammazeta.py',
  old="        if k > 2 and (mpf_le(szterm, eps) or mpf_le(prev, szterm)):",
  new="        if k > 2 and mpf_le(szterm, eps):",
  expect='fire:T-R7:mpc_psi0')
V(id='c24-real-psi0-no-divergence-exit', prop='C24', file='mpmath/libmp/gammazeta.py',
  old="        if k > 2 and term >= prev:\n            break", new="        if k > 2 and not term:\n            break",
  expect='fire:T-R7:mpf_psi0')
V(id='c24-psi-start-lowered', prop='C24', file='mpmath/libmp/gammazeta.py',
  old="    n = int(0.4*wp + 4*m)", new="    n = int(0.1*wp + 4*m)",
  expect='fire:T-R7:mpc_psi')
V(id='c24-ei-cap-outside-loop', prop='C24', file='mpmath/libmp/libhyper.py',
  old="        k += 1\n        if k > prec:\n            raise NoConvergence\n    return sre, sim",
  new="        k += 1\n    if k > prec:\n        raise NoConvergence\n    return sre, sim",
  expect='fire:T-R5:complex_ei_asymptotic')
V(id='c24-hypsum-fp-cap-removed', prop='C24', file='mpmath/ctx_fp.py',
  old="            if k > maxterms:\n                raise ctx.NoConvergence", new="            pass",
  expect='fire:T-R5:FPContext.hypsum')
V(id='c24-hurwitz-clamped-cap', prop='C24', file='mpmath/functions/zeta.py',
  old="                extraprec = max(2*extraprec, min(cancellation + 5, 100*prec))\n                if extraprec > kwargs.get('maxprec', 100*prec):",
  new="                maxprec = kwargs.get('maxprec', 100*prec)\n                extraprec = min(max(2*extraprec, cancellation + 5), maxprec)\n                if extraprec > maxprec:",
  expect='fire:T-R6:_hurwitz')
V(id='c24-hypercomb-no-escalation', prop='C24', file='mpmath/functions/hypergeometric.py',
  old="            if ctx.prec > maxprec:\n                raise ValueError(_hypercomb_msg % (orig, ctx.prec))\n",
  new="", expect='fire:T-R4:hypercomb')
V(id='c24-loop-exit-on-constant', prop='C24', file='mpmath/libmp/libelefun.py',
  old="    while 1:\n        anew = (a+b)>>1\n        if i > 4 and abs(a-anew) < 8:\n            return a",
  new="    tol = 0\n    while 1:\n        anew = (a+b)>>1\n        if tol:\n            return a",
  expect='fire:T-R2')
V(id='c24-benign-cap-in-condition', prop='C24', file='mpmath/libmp/libhyper.py',
  old="    while _abs(tre) + _abs(tim) > 1000:\n        #print tre, tim\n        tre, tim = ((tre*xre-tim*xim)*k)>>prec, ((tre*xim+tim*xre)*k)>>prec\n        sre += tre\n        sim += tim\n        k += 1\n        if k > prec:\n            raise NoConvergence\n    return sre, sim",
  new="    while _abs(tre) + _abs(tim) > 1000 and k <= prec:\n        tre, tim = ((tre*xre-tim*xim)*k)>>prec, ((tre*xim+tim*xre)*k)>>prec\n        sre += tre\n        sim += tim\n        k += 1\n    if k > prec:\n        raise NoConvergence\n    return sre, sim",
  expect='silent')

# ---------------------------------------------------------------- C34 -------
V(id='c34-workprec-from-caller', prop='C34', file='mpmath/calculus/odes.py',
  old="            ctx.prec = workprec\n            ser, xa, xb = get_series(x)",
  new="            ctx.prec = orig + 40\n            ser, xa, xb = get_series(x)",
  expect='fire:O-R1:interpolant')
V(id='c34-eval-outside-region', prop='C34', file='mpmath/calculus/odes.py',
  old="            ser, xa, xb = get_series(x)\n            y = mpolyval(ser, x-xa)\n        finally:\n            ctx.prec = orig\n",
  new="            ser, xa, xb = get_series(x)\n        finally:\n            ctx.prec = orig\n        y = mpolyval(ser, x-xa)\n",
  expect='fire:O-R1:interpolant')
V(id='c34-workprec-reassigned', prop='C34', file='mpmath/calculus/odes.py',
  old="    def interpolant(x):\n        x = ctx.convert(x)\n        orig = ctx.prec",
  new="    def interpolant(x):\n        nonlocal workprec\n        x = ctx.convert(x)\n        orig = ctx.prec\n        workprec = max(workprec, orig + 40)",
  expect='fire:O-R1')
V(id='c34-extension-tolerance-live', prop='C34', file='mpmath/calculus/odes.py',
  old="            ser, xb = ode_taylor(ctx, F, xb, y, tol_prec, degree)\n",
  new="            ser, xb = ode_taylor(ctx, F, xb, y, ctx.prec+10, degree)\n",
  expect='fire:O-R1:get_series')
V(id='c34-cache-trimmed', prop='C34', file='mpmath/calculus/odes.py',
  old="            series_data.append((ser, xa, xb))\n",
  new="            series_data.append((ser, xa, xb))\n            if len(series_data) > 64:\n                series_data.pop(0)\n                series_boundaries.pop(0)\n",
  expect='fire:O-R2:get_series')
V(id='c34-boundary-not-recorded', prop='C34', file='mpmath/calculus/odes.py',
  old="            series_data.append((ser, xa, xb))\n            series_boundaries.append(xb)",
  new="            series_data.append((ser, xa, xb))\n            if x > xb:\n                series_boundaries.append(xb)",
  expect='fire:O-R2:get_series')
V(id='c34-bisect-left', prop='C34', file='mpmath/calculus/odes.py',
  old="from bisect import bisect\n", new="from bisect import bisect_left as bisect\n",
  expect='fire:O-R3:get_series')
V(id='c34-no-left-guard', prop='C34', file='mpmath/calculus/odes.py',
  old="        if x < x0:\n            raise ValueError\n", new="",
  expect='fire:O-R3:get_series')
V(id='c34-index-off-by-one', prop='C34', file='mpmath/calculus/odes.py',
  old="            return series_data[n-1]", new="            return series_data[n]",
  expect='fire:O-R3:get_series')
V(id='c34-extension-exit-wrong-side', prop='C34', file='mpmath/calculus/odes.py',
  old="            if x <= xb:\n                return series_data[-1]", new="            if x >= xb:\n                return series_data[-1]",
  expect='fire:O-R4:get_series')
V(id='c34-radius-last-component', prop='C34', file='mpmath/calculus/odes.py',
  old="                radius = min(radius, ctx.nthroot(tol/abs(ts[k]), k))\n    radius /= 2  # XXX",
  new="                radius = ctx.nthroot(tol/abs(ts[k]), k)\n    radius = min(radius, ctx.one) / 2  # XXX",
  expect='fire:O-R5:ode_taylor')
V(id='c34-radius-enlarged', prop='C34', file='mpmath/calculus/odes.py',
  old="    radius /= 2  # XXX", new="    radius *= 2  # XXX", expect='fire:O-R5:ode_taylor')
V(id='c34-result-not-rerounded', prop='C34', file='mpmath/calculus/odes.py',
  old="            return +y[0]\n    return interpolant", new="            return y[0]\n    return interpolant",
  expect='fire:O-R6:interpolant')
V(id='c34-benign-bisect-right', prop='C34', file='mpmath/calculus/odes.py',
  old="from bisect import bisect\n", new="from bisect import bisect_right as bisect\n", expect='silent')
V(id='c34-benign-rename-and-temp', prop='C34', file='mpmath/calculus/odes.py',
  edits=[("    workprec = max(ctx.prec, tol_prec) + 40\n", "    wp_frozen = max(ctx.prec, tol_prec) + 45\n"),
         ("        ctx.prec = workprec\n        ser, xb = ode_taylor", "        ctx.prec = wp_frozen\n        ser, xb = ode_taylor"),
         ("            ctx.prec = workprec\n", "            ctx.prec = wp_frozen\n"),
         ("        if return_vector:\n            return [+yk for yk in y]\n        else:\n            return +y[0]",
          "        if return_vector:\n            out = [+yk for yk in y]\n            return out\n        else:\n            return +y[0]")],
  expect='silent')

# ---------------------------------------------------------------- C40 -------
V(id='c40-reader-base-10', prop='C40', file='mpmath/libmp/libmpf.py',
  old="    return (sign, MPZ(man, 16), exp, bc)", new="    return (sign, MPZ(man, 10), exp, bc)",
  expect='fire:P-R1:from_pickable')
V(id='c40-reader-recounts', prop='C40', file='mpmath/libmp/libmpf.py',
  old="    return (sign, MPZ(man, 16), exp, bc)",
  new="    man = MPZ(man, 16)\n    return (sign, man, exp, bitcount(man))",
  expect='fire:P-R1:from_pickable')
V(id='c40-writer-swaps-fields', prop='C40', file='mpmath/libmp/libmpf.py',
  old="        return sign, hex(man)[2:], exp, bc", new="        return sign, hex(man)[2:], bc, exp",
  expect='fire:P-R1:to_pickable')
V(id='c40-writer-decimal', prop='C40', file='mpmath/libmp/libmpf.py',
  old="        return sign, hex(man)[2:], exp, bc", new="        return sign, str(man), exp, bc",
  expect='fire:P-R1:to_pickable')
V(id='c40-mpc-setstate-swapped', prop='C40', file='mpmath/ctx_mp_python.py',
  old="        self._mpc_ = from_pickable(val[0]), from_pickable(val[1])",
  new="        self._mpc_ = from_pickable(val[1]), from_pickable(val[0])",
  expect='fire:P-R2:_mpc.__setstate__')
V(id='c40-mpf-setstate-rounds', prop='C40', file='mpmath/ctx_mp_python.py',
  old="    def __setstate__(self, val): self._mpf_ = from_pickable(val)",
  new="    def __setstate__(self, val): self._mpf_ = mpf_pos(from_pickable(val), *self.context._prec_rounding)",
  expect='fire:P-R2:_mpf.__setstate__')
V(id='c40-mpf-getstate-only', prop='C40', file='mpmath/ctx_mp_python.py',
  old="    def __setstate__(self, val): self._mpf_ = from_pickable(val)\n", new="",
  expect='fire:P-R2:_mpf')
V(id='c40-mpc-reduce-constructor', prop='C40', file='mpmath/ctx_mp_python.py',
  old="    def __getstate__(self):\n        return to_pickable(self._mpc_[0]), to_pickable(self._mpc_[1])\n",
  new="    def __reduce__(self):\n        return self.__class__, (self.real, self.imag)\n\n    def __getstate__(self):\n        return to_pickable(self._mpc_[0]), to_pickable(self._mpc_[1])\n",
  expect='fire:P-R3:_mpc.__reduce__')
V(id='c40-matrix-not-registered', prop='C40', file='mpmath/__init__.py',
  old="_matrices_module.matrix = mp.matrix\n", new="", expect='fire:P-R4:MatrixMethods.__init__')
V(id='c40-mpc-registered-as-mpf', prop='C40', file='mpmath/__init__.py',
  old="_ctx_mp._mpf_module.mpc = mp.mpc", new="_ctx_mp._mpf_module.mpc = mp.mpf",
  expect='fire:P-R4')
V(id='c40-matrix-class-renamed', prop='C40', file='mpmath/matrices/matrices.py',
  old="        ctx.matrix = type('matrix', (_matrix,), {})", new="        ctx.matrix = type('Matrix', (_matrix,), {})",
  expect='fire:P-R4:MatrixMethods.__init__')
V(id='c40-copy-aliases-storage', prop='C40', file='mpmath/matrices/matrices.py',
  old="        new.__data = self.__data.copy()", new="        new.__data = self.__data",
  expect='fire:P-R5')
V(id='c40-copy-hook-removed', prop='C40', file='mpmath/matrices/matrices.py',
  old="    __copy__ = copy\n", new="", expect='fire:P-R5:_matrix')
V(id='c40-copy-wrong-shape', prop='C40', file='mpmath/matrices/matrices.py',
  old="        new = self.ctx.matrix(self.__rows, self.__cols)\n        new.__data = self.__data.copy()",
  new="        new = self.ctx.matrix(self.__cols, self.__rows)\n        new.__data = self.__data.copy()",
  expect='fire:P-R5:_matrix.copy')
V(id='c40-benign-temp-and-dict', prop='C40', file='mpmath/matrices/matrices.py',
  old="        new.__data = self.__data.copy()", new="        new.__data = dict(self.__data)",
  expect='silent')
V(id='c40-benign-reader-temp', prop='C40', file='mpmath/libmp/libmpf.py',
  old="    return (sign, MPZ(man, 16), exp, bc)", new="    m = MPZ(man, 16)\n    return (sign, m, exp, bc)",
  expect='silent')
V(id='c40-benign-copy-returns-self', prop='C40', file='mpmath/ctx_mp_python.py',
  old="    def __getstate__(self): return to_pickable(self._mpf_)",
  new="    def __copy__(self): return self\n    def __getstate__(self): return to_pickable(self._mpf_)",
  expect='silent')

# ---------------------------------------------------------------- C43 -------
V(id='c43-tanh-complex-tan', prop='C43', file='mpmath/math2.py',
  old="tanh = _mathfun_real(math.tanh, cmath.tanh)", new="tanh = _mathfun_real(math.tanh, cmath.tan)",
  expect='fire:F-R2:tanh')
V(id='c43-sqrt-on-fast-path', prop='C43', file='mpmath/math2.py',
  old="sqrt = _mathfun(math_sqrt, lambda z:", new="sqrt = _mathfun_real(math_sqrt, lambda z:",
  expect='fire:F-R3:sqrt')
V(id='c43-acos-on-fast-path', prop='C43', file='mpmath/math2.py',
  old="acos = _mathfun(math.acos,", new="acos = _mathfun_real(math.acos,",
  expect='fire:F-R3:acos')
V(id='c43-cbrt-math-cbrt', prop='C43', file='mpmath/math2.py',
  old="cbrt = _mathfun(_cbrt, lambda z:",
  new="cbrt = _mathfun(math.cbrt, lambda z:",
  expect='fire:F-R3:cbrt')
V(id='c43-wrapper-valueerror-only', prop='C43', file='mpmath/math2.py',
  old="""        try:
            return f_real(float(x))
        except (TypeError, ValueError):
            return f_complex(complex(x))""",
  new="""        try:
            return f_real(float(x))
        except TypeError:
            return f_complex(complex(x))""",
  expect='fire:F-R1:_mathfun.f')
V(id='c43-wrapper-real-outside-try', prop='C43', file='mpmath/math2.py',
  old="""        if type(x) is complex:
            return f_complex(x)
        try:
            return f_real(float(x))
        except (TypeError, ValueError):
            return f_complex(complex(x))""",
  new="""        if type(x) is complex:
            return f_complex(x)
        if type(x) is float:
            return f_real(x)
        try:
            return f_real(float(x))
        except (TypeError, ValueError):
            return f_complex(complex(x))""",
  expect='fire:F-R1:_mathfun.f')
V(id='c43-slot-swapped', prop='C43', file='mpmath/ctx_fp.py',
  old="    sinh = staticmethod(math2.sinh)", new="    sinh = staticmethod(math2.cosh)",
  expect='fire:F-R4:FPContext')
V(id='c43-mpc-is-float', prop='C43', file='mpmath/ctx_fp.py',
  old="    mpc = complex", new="    mpc = float", expect='fire:F-R4:FPContext')
V(id='c43-bare-cmath-acos', prop='C43', file='mpmath/math2.py',
  old="acos = _mathfun(math.acos, lambda z: cmath.acos(_real_axis_cut(z)))",
  new="acos = _mathfun(math.acos, cmath.acos)", expect='fire:F-R6:acos')
V(id='c43-cospi-complex-quadrant-sign', prop='C43', file='mpmath/math2.py',
  old="    if n == 1: return -cmath.sin(z)\n    if n == 2: return -cmath.cos(z)",
  new="    if n == 1: return cmath.sin(z)\n    if n == 2: return -cmath.cos(z)",
  expect='fire:F-R2:cospi')
V(id='c43-sinpi-both-wrong-quadrant', prop='C43', file='mpmath/math2.py',
  edits=[("    if n == 2: return -math.sin(r)\n    return -math.cos(r)",
          "    if n == 2: return -math.sin(r)\n    return math.cos(r)"),
         ("    if n == 2: return -cmath.sin(z)\n    return -cmath.cos(z)",
          "    if n == 2: return -cmath.sin(z)\n    return cmath.cos(z)")],
  expect='fire:F-R2:sinpi')
V(id='c43-bernoulli-raw-tuple', prop='C43', file='mpmath/ctx_fp.py',
  old="        cache[n] = to_float(mpf_bernoulli(n, 53, 'n'), strict=True)",
  new="        cache[n] = mpf_bernoulli(n, 53, 'n')", expect='fire:F-R5:bernoulli')
V(id='c43-cut-helper-changes-value', prop='C43', file='mpmath/math2.py',
  old="            return complex(z.real, -0.0)", new="            return complex(-z.real, -0.0)",
  expect='fire:F-R2')
V(id='c43-benign-rename-lambda-params', prop='C43', file='mpmath/math2.py',
  edits=[("cos_sin = _mathfun_real(lambda x: (math.cos(x), math.sin(x)),\n                        lambda z: (cmath.cos(z), cmath.sin(z)))",
          "cos_sin = _mathfun_real(lambda a: (math.cos(a), math.sin(a)),\n                        lambda b: (cmath.cos(b), cmath.sin(b)))")],
  expect='silent')
V(id='c43-benign-cut-helper-renamed', prop='C43', file='mpmath/math2.py',
  old="_real_axis_cut", new="_below_the_cut", all=True, expect='silent')
V(id='c43-benign-wrapper-catches-more', prop='C43', file='mpmath/math2.py',
  old="""        try:
            return f_real(float(x))
        except (TypeError, ValueError):
            return f_complex(complex(x))""",
  new="""        try:
            return f_real(float(x))
        except (TypeError, ValueError, AttributeError):
            return f_complex(complex(x))""",
  expect='silent')
V(id='c43-benign-new-total-binding', prop='C43', file='mpmath/math2.py',
  old="tanh = _mathfun_real(math.tanh, cmath.tanh)",
  new="tanh = _mathfun_real(math.tanh, cmath.tanh)\nhypcos = _mathfun_real(math.cosh, cmath.cosh)",
  expect='silent')

# ---------------------------------------------------------------- C38 -------
V(id='c38-shared-number-class', prop='C38', file='mpmath/ctx_mp_python.py',
  old="        ctx.mpf = type('mpf', (_mpf,), {})", new="        ctx.mpf = _mpf",
  expect='fire:X-R1:PythonMPContext.__init__')
V(id='c38-ctxdata-own-cell', prop='C38', file='mpmath/ctx_mp_python.py',
  old="        ctx.mpc._ctxdata = [ctx.mpc, new, ctx._prec_rounding]",
  new="        ctx.mpc._ctxdata = [ctx.mpc, new, [53, round_nearest]]",
  expect='fire:X-R1:PythonMPContext.__init__')
V(id='c38-iv-cell-borrowed', prop='C38', file='mpmath/ctx_iv.py',
  old="        ctx._prec = [53]", new="        ctx._prec = _SHARED_PREC",
  expect='fire:X-R1:MPIntervalContext.__init__')
V(id='c38-class-level-cache', prop='C38', file='mpmath/functions/functions.py',
  edits=[("        self._misc_const_cache = {}\n", ""),
         ("class SpecialFunctions(object):", "class SpecialFunctions(object):\n    _misc_const_cache = {}")],
  expect='fire:X-R2')
V(id='c38-rs-cache-from-mp', prop='C38', file='mpmath/functions/rszeta.py',
  old="        ctx._rs_cache = [0, 10, {}, {}]", new="        ctx._rs_cache = _GLOBAL_RS_CACHE",
  expect='fire:X-R2')
V(id='c38-clone-shares-summators', prop='C38', file='mpmath/ctx_mp.py',
  old="        a.prec = ctx.prec\n", new="        a.prec = ctx.prec\n        a.hyp_summators = ctx.hyp_summators\n",
  expect='fire:X-R3:MPContext.clone')
V(id='c38-clone-shallow-copy', prop='C38', file='mpmath/ctx_mp.py',
  old="        a = ctx.__class__()\n        a.prec = ctx.prec\n",
  new="        import copy\n        a = copy.copy(ctx)\n",
  expect='fire:X-R3:MPContext.clone')
V(id='c38-mpc-abs-global-mpf', prop='C38', file='mpmath/ctx_mp_python.py',
  old="        prec, rounding = s.context._prec_rounding\n        v = new(s.context.mpf)\n        v._mpf_ = mpc_abs(",
  new="        prec, rounding = s.context._prec_rounding\n        v = new(mpf)\n        v._mpf_ = mpc_abs(",
  expect='fire:X-R4:_mpc.__abs__')
V(id='c38-library-imports-mp', prop='C38', file='mpmath/functions/zeta.py',
  old="def stieltjes(ctx, n, a=1):", new="def stieltjes(ctx, n, a=1):\n    from mpmath import mp\n    ctx = mp",
  expect='fire:X-R5')
V(id='c38-coef-no-restore', prop='C38', file='mpmath/functions/rszeta.py',
  old="""    orig = ctx._mp.prec
    trap = ctx._mp.trap_complex
    try:
        ctx._mp.trap_complex = False
        data = _coef(ctx._mp, J, eps)
    finally:
        ctx._mp.prec = orig
        ctx._mp.trap_complex = trap""",
  new="""    data = _coef(ctx._mp, J, eps)""",
  expect='fire:X-R6:coef')
V(id='c38-coef-restores-own-ctx', prop='C38', file='mpmath/functions/rszeta.py',
  old="""    orig = ctx._mp.prec
    trap = ctx._mp.trap_complex
    try:
        ctx._mp.trap_complex = False
        data = _coef(ctx._mp, J, eps)
    finally:
        ctx._mp.prec = orig
        ctx._mp.trap_complex = trap""",
  new="""    orig = ctx.prec
    trap = ctx._mp.trap_complex
    try:
        ctx._mp.trap_complex = False
        data = _coef(ctx._mp, J, eps)
    finally:
        ctx.prec = orig
        ctx._mp.trap_complex = trap""",
  expect='fire:X-R6:coef')
V(id='c38-fp-setter-writes-mp', prop='C38', file='mpmath/ctx_fp.py',
  old="    def _set_prec(ctx, p): return", new="    def _set_prec(ctx, p): ctx._mp.prec = p",
  expect='fire:X-R7:FPContext._set_prec')
V(id='c38-benign-clone-copies-pretty', prop='C38', file='mpmath/ctx_mp.py',
  old="        a.prec = ctx.prec\n", new="        a.prec = ctx.prec\n        a.pretty = ctx.pretty\n",
  expect='silent')
V(id='c38-benign-coef-rename-snapshot', prop='C38', file='mpmath/functions/rszeta.py',
  old="""    orig = ctx._mp.prec
    trap = ctx._mp.trap_complex
    try:
        ctx._mp.trap_complex = False
        data = _coef(ctx._mp, J, eps)
    finally:
        ctx._mp.prec = orig
        ctx._mp.trap_complex = trap""",
  new="""    saved_prec = ctx._mp.prec
    saved_trap = ctx._mp.trap_complex
    try:
        ctx._mp.trap_complex = False
        data = _coef(ctx._mp, J, eps)
    finally:
        ctx._mp.prec = saved_prec
        ctx._mp.trap_complex = saved_trap""",
  expect='silent')
V(id='c38-benign-new-instance-cache', prop='C38', file='mpmath/functions/functions.py',
  old="        self._misc_const_cache = {}\n", new="        self._misc_const_cache = {}\n        self._extra_cache = dict()\n",
  expect='silent')

# ---------------------------------------------------------------- C29 -------
V(id='c29-verify-scaled-tol', prop='C29', file='mpmath/calculus/optimization.py',
  old="        if verify and not norm(f(*xl))**2 <= tol: # TODO: better condition?",
  new="        if verify and not norm(f(*xl))**2 <= tol * max(1, norm(x)):",
  expect='fire:R-R1:findroot')
V(id='c29-verify-unsquared', prop='C29', file='mpmath/calculus/optimization.py',
  old="        if verify and not norm(f(*xl))**2 <= tol: # TODO: better condition?",
  new="        if verify and not norm(f(*xl)) <= tol:",
  expect='fire:R-R1:findroot')
V(id='c29-verify-extra-condition', prop='C29', file='mpmath/calculus/optimization.py',
  old="        if verify and not norm(f(*xl))**2 <= tol: # TODO: better condition?",
  new="        if verify and i < maxsteps and not norm(f(*xl))**2 <= tol:",
  expect='fire:R-R1:findroot')
V(id='c29-verify-wrong-point', prop='C29', file='mpmath/calculus/optimization.py',
  old="        if verify and not norm(f(*xl))**2 <= tol: # TODO: better condition?",
  new="        if verify and not norm(f(*x0))**2 <= tol:",
  expect='fire:R-R1:findroot')
V(id='c29-verify-default-off', prop='C29', file='mpmath/calculus/optimization.py',
  old="def findroot(ctx, f, x0, solver='secant', tol=None, verbose=False, verify=True, **kwargs):",
  new="def findroot(ctx, f, x0, solver='secant', tol=None, verbose=False, verify=False, **kwargs):",
  expect='fire:R-R1:findroot')
V(id='c29-tol-loosened-before-gate', prop='C29', file='mpmath/calculus/optimization.py',
  old="        if not isinstance(x, (list, tuple, ctx.matrix)):\n            xl = [x]",
  new="        tol = tol * 4\n        if not isinstance(x, (list, tuple, ctx.matrix)):\n            xl = [x]",
  expect='fire:R-R1:findroot')
V(id='c29-bisection-arms-swapped', prop='C29', file='mpmath/calculus/optimization.py',
  old="            if sign < 0:\n                a = m\n            elif sign > 0:\n                b = m\n                fb = fm",
  new="            if sign > 0:\n                a = m\n            elif sign < 0:\n                b = m\n                fb = fm",
  expect='fire:R-R2:Bisection')
V(id='c29-bisection-stale-fb', prop='C29', file='mpmath/calculus/optimization.py',
  old="            elif sign > 0:\n                b = m\n                fb = fm", new="            elif sign > 0:\n                b = m",
  expect='silent')   # fb keeps the sign of f(b) (fm and fb have the same sign here): behaviour-preserving
V(id='c29-illinois-stale-fa', prop='C29', file='mpmath/calculus/optimization.py',
  old="                a = b\n                fa = fb\n                b = z\n                fb = fz",
  new="                a = b\n                b = z\n                fb = fz",
  expect='fire:R-R2:Illinois')
V(id='c29-anderson-negative-m', prop='C29', file='mpmath/calculus/optimization.py',
  old="            m = 1 - fz/fb\n            if m > 0:\n                return m\n            else:\n                return 0.5",
  new="            return (1 - fz/fb) or 0.5",
  expect='fire:R-R2:Illinois')
V(id='c29-pegasus-minus', prop='C29', file='mpmath/calculus/optimization.py',
  old="            return fb/(fb + fz)", new="            return fb/(fb - fz)",
  expect='fire:R-R2:Illinois')
V(id='c29-ridder-wrong-endpoint', prop='C29', file='mpmath/calculus/optimization.py',
  old="            if fx4 * fx2 < 0: # root in [x4, x2]", new="            if fx4 * fx1 < 0:",
  expect='fire:R-R2:Ridder')
V(id='c29-illinois-test-nonstrict-other-side', prop='C29', file='mpmath/calculus/optimization.py',
  old="            if fz * fb < 0: # root in [z, b]", new="            if fz * fa < 0:",
  expect='fire:R-R2:Illinois')
V(id='c29-polyroots-filtered', prop='C29', file='mpmath/calculus/polynomials.py',
  old="        return [+r for r in roots]", new="        return [+r for r in roots if r]",
  expect='fire:R-P1:polyroots')
V(id='c29-polyroots-no-gate', prop='C29', file='mpmath/calculus/polynomials.py',
  old="        if abs(max(err)) >= tol:\n            raise ctx.NoConvergence(", new="        if 0:\n            raise ctx.NoConvergence(",
  expect='fire:R-P2:polyroots')
V(id='c29-benign-sign-test-form', prop='C29', file='mpmath/calculus/optimization.py',
  old="            if fz * fb < 0: # root in [z, b]", new="            if (fz < 0) != (fb < 0):",
  expect='silent')
V(id='c29-benign-anderson-ifexp', prop='C29', file='mpmath/calculus/optimization.py',
  old="            m = 1 - fz/fb\n            if m > 0:\n                return m\n            else:\n                return 0.5",
  new="            m = 1 - fz/fb\n            return m if m > 0 else 0.5",
  expect='silent')
V(id='c29-benign-residual-temp', prop='C29', file='mpmath/calculus/optimization.py',
  old="        if verify and not norm(f(*xl))**2 <= tol: # TODO: better condition?",
  new="        residual = norm(f(*xl))**2\n        if verify and not residual <= tol:",
  expect='silent')
V(id='c29-benign-gate-reversed-compare', prop='C29', file='mpmath/calculus/optimization.py',
  old="        if verify and not norm(f(*xl))**2 <= tol: # TODO: better condition?",
  new="        if verify and not (tol >= norm(f(*xl))**2):",
  expect='silent')
V(id='c29-benign-bisection-sign-call', prop='C29', file='mpmath/calculus/optimization.py',
  old="            sign = fm * fb", new="            sign = self.ctx.sign(fm) * self.ctx.sign(fb)",
  expect='silent')

# ---------------------------------------------------------------- C37 -------
V(id='c37-gmpy-mul-signature', prop='C37', file='mpmath/libmp/libmpf.py',
  old="def gmpy_mpf_mul(s, t, prec=0, rnd=round_fast):", new="def gmpy_mpf_mul(s, t, prec, rnd=round_fast):",
  expect='fire:Y-R1:gmpy_mpf_mul')
V(id='c37-gmpy-mul-int-ignores-mode', prop='C37', file='mpmath/libmp/libmpf.py',
  old="    man *= n\n    return normalize(sign, man, exp, bitcount(man), prec, rnd)",
  new="    man *= n\n    return normalize(sign, man, exp, bitcount(man), prec, round_fast)",
  expect='fire:Y-R2:gmpy_mpf_mul_int')
V(id='c37-gmpy-mul-guard-bits', prop='C37', file='mpmath/libmp/libmpf.py',
  old="        bc = bitcount(man)\n        if prec:\n            return normalize1(sign, man, sexp+texp, bc, prec, rnd)",
  new="        bc = bitcount(man)\n        if prec:\n            return normalize1(sign, man, sexp+texp, bc, prec+2, rnd)",
  expect='fire:Y-R2:gmpy_mpf_mul')
V(id='c37-gmpy-mul-special-differs', prop='C37', file='mpmath/libmp/libmpf.py',
  old="    if t == fzero: return fnan\n    return {1:finf, -1:fninf}[mpf_sign(s) * mpf_sign(t)]\n\ndef gmpy_mpf_mul_int",
  new="    if t == fzero: return fzero\n    return {1:finf, -1:fninf}[mpf_sign(s) * mpf_sign(t)]\n\ndef gmpy_mpf_mul_int",
  expect='silent')   # same SET of special constants: value-level difference, not decided (documented)
V(id='c37-gmpy-mul-no-nan', prop='C37', file='mpmath/libmp/libmpf.py',
  old="    if fnan in (s, t): return fnan\n    if (not tman) and texp: s, t = t, s\n    if t == fzero: return fnan\n    return {1:finf, -1:fninf}[mpf_sign(s) * mpf_sign(t)]\n\ndef gmpy_mpf_mul_int",
  new="    if (not tman) and texp: s, t = t, s\n    return {1:finf, -1:fninf}[mpf_sign(s) * mpf_sign(t)]\n\ndef gmpy_mpf_mul_int",
  expect='fire:Y-R2:gmpy_mpf_mul')
V(id='c37-gmpy-mul-int-unguarded', prop='C37', file='mpmath/libmp/libmpf.py',
  old="def gmpy_mpf_mul_int(s, n, prec, rnd=round_fast):\n    \"\"\"Multiply by a Python integer.\"\"\"\n    sign, man, exp, bc = s\n    if not man:\n        return mpf_mul(s, from_int(n), prec, rnd)\n",
  new="def gmpy_mpf_mul_int(s, n, prec, rnd=round_fast):\n    \"\"\"Multiply by a Python integer.\"\"\"\n    sign, man, exp, bc = s\n",
  expect='fire:Y-R2:gmpy_mpf_mul_int')
V(id='c37-dispatch-crossed', prop='C37', file='mpmath/libmp/libintmath.py',
  old="if BACKEND == 'gmpy':\n    bitcount = gmpy_bitcount\n    trailing = gmpy_trailing",
  new="if BACKEND == 'gmpy':\n    bitcount = python_bitcount\n    trailing = gmpy_trailing",
  expect='fire:Y-R3')
V(id='c37-table-from-python-primitive', prop='C37', file='mpmath/libmp/libintmath.py',
  old="bctable = [bitcount(n) for n in range(1024)]", new="bctable = [python_bitcount(n) for n in range(1024)]",
  expect='fire:Y-R4')
V(id='c37-mask-table-short', prop='C37', file='mpmath/libmp/libmpf.py',
  old="h_mask_small = [0]+[((MPZ_ONE<<(_-1))-1) for _ in range(1, 300)]",
  new="h_mask_small = [0]+[((MPZ_ONE<<(_-1))-1) for _ in range(1, 256)]",
  expect='fire:Y-R4:_normalize')
V(id='c37-mask-big-off-by-one', prop='C37', file='mpmath/libmp/libmpf.py',
  old="        return (MPZ_ONE<<(n-1))-1", new="        return (MPZ_ONE<<n)-1",
  expect='fire:Y-R4:h_mask_big')
V(id='c37-powers-sentinel', prop='C37', file='mpmath/libmp/libintmath.py',
  old="powers = [1<<_ for _ in range(300)]", new="powers = [1<<_ for _ in range(256)]",
  expect='fire:Y-R4:python_bitcount')
V(id='c37-new-fork-untriaged', prop='C37', file='mpmath/libmp/libmpf.py',
  old="if BACKEND == 'gmpy':\n    mpf_mul = gmpy_mpf_mul",
  new="if BACKEND == 'gmpy':\n    mpf_shift_fast = None\n    mpf_mul = gmpy_mpf_mul",
  expect='analysis-error:untriaged backend fork')
V(id='c37-benign-rename-both', prop='C37', file='mpmath/libmp/libintmath.py',
  edits=[("def gmpy_bitcount(n):\n    \"\"\"Calculate bit size of the nonnegative integer n.\"\"\"\n    if n: return MPZ(n).numdigits(2)\n    else: return 0",
          "def gmpy_bitcount(n):\n    \"\"\"Calculate bit size of the nonnegative integer n.\"\"\"\n    if not n:\n        return 0\n    return MPZ(n).numdigits(2)")],
  expect='silent')

# ------------------------------------------------ C13 (B-R7, B-R8), C15/C14 (C-R9) -------
V(id='c13-nth-no-guard-bits', prop='C13', file='mpmath/libmp/libelefun.py',
  old="        nth = mpf_rdiv_int(1, fn, prec2)", new="        nth = mpf_rdiv_int(1, fn, prec)",
  expect='fire:B-R9:mpf_nthroot')
V(id='c13-cospi-arg-no-guard-bits', prop='C13', file='mpmath/libmp/libmpc.py',
  old="    b = mpf_mul(b, mpf_pi(prec+5), prec+5)\n    if a == fzero:\n        return mpf_cosh(b, prec, rnd), fzero",
  new="    b = mpf_mul(b, mpf_pi(prec+5), prec)\n    if a == fzero:\n        return mpf_cosh(b, prec, rnd), fzero",
  expect='fire:B-R9:mpc_cos_pi')
V(id='c13-benign-unguarded-consumer', prop='C13', file='mpmath/libmp/libelefun.py',
  old="    c = mpf_log(s, wp, rnd)\n    return mpf_exp(mpf_mul(t, c), prec, rnd)",
  new="    c = mpf_log(s, wp + 2, rnd)\n    return mpf_exp(mpf_mul(t, c), prec, rnd)",
  expect='silent')
V(id='c13-benign-more-guard-bits', prop='C13', file='mpmath/libmp/libelefun.py',
  old="        nth = mpf_rdiv_int(1, fn, prec2)", new="        nth = mpf_rdiv_int(1, fn, prec2 + 2)",
  expect='silent')
V(id='c13-tan-no-real-axis', prop='C13', file='mpmath/libmp/libmpc.py',
  old="    if b == fzero: return mpf_tan(a, prec, rnd), fzero\n", new="",
  expect='fire:B-R8:mpc_tan')
V(id='c13-cos-real-axis-wrong-prec', prop='C13', file='mpmath/libmp/libmpc.py',
  old="    if b == fzero:\n        return mpf_cos(a, prec, rnd), fzero", new="    if b == fzero:\n        return mpf_cos(a, prec), fzero",
  expect='fire:B-R8:mpc_cos')
V(id='c13-benign-axis-order', prop='C13', file='mpmath/libmp/libmpc.py',
  old="    if b == fzero: return mpf_tan(a, prec, rnd), fzero\n    if a == fzero: return fzero, mpf_tanh(b, prec, rnd)",
  new="    if a == fzero: return fzero, mpf_tanh(b, prec, rnd)\n    if b == fzero:\n        t = mpf_tan(a, prec, rnd)\n        return t, fzero",
  expect='silent')
V(id='c15-stale-rectangle', prop='C15', file='mpmath/libmp/libmpi.py',
  old="        (a1,a2) = mpi_add((a1,a2), mpi_one, wp); z = (a1,a2), (b1,b2)",
  new="        (a1,a2) = mpi_add((a1,a2), mpi_one, wp)",
  expect='fire:C-R9:mpci_gamma')
V(id='c15-benign-rebuild-next-line', prop='C15', file='mpmath/libmp/libmpi.py',
  old="        (a1,a2) = mpi_add((a1,a2), mpi_one, wp); z = (a1,a2), (b1,b2)",
  new="        (a1,a2) = mpi_add((a1,a2), mpi_one, wp)\n        z = ((a1,a2), (b1,b2))",
  expect='silent')

# ------------------------------------------------ round-2 rules: A-R4r, D-R1f, D-ODE, Y-R2 order -------
V(id='c11-decorator-with-self', prop='C11', file='mpmath/ctx_mp.py',
  old="""            orig = self.ctx.prec
            try:
                if self.precfun:
                    self.ctx.prec = self.precfun(self.ctx.prec)
                else:
                    self.ctx.dps = self.dpsfun(self.ctx.dps)
                if self.normalize_output:
                    v = f(*args, **kwargs)
                    if type(v) is tuple:
                        return tuple([+a for a in v])
                    return +v
                else:
                    return f(*args, **kwargs)
            finally:
                self.ctx.prec = orig""",
  new="""            with self:
                v = f(*args, **kwargs)
                if self.normalize_output:
                    if type(v) is tuple:
                        return tuple([+a for a in v])
                    return +v
                return v""",
  expect='silent')  # benign since d9813d0: the saved precisions are a per-object stack
V(id='c11-benign-local-manager', prop='C11', file='mpmath/calculus/polynomials.py',
  old="    with ctx.extraprec(extraprec):", new="    mgr = ctx.extraprec(extraprec)\n    with mgr:",
  expect='silent')
V(id='c33-bernoulli-huge-cached-at-prec', prop='C33', file='mpmath/libmp/gammazeta.py',
  old="        if n - m > 10:\n            return mpf_bernoulli_huge(n, prec, rnd)",
  new="        if n - m > 10:\n            numbers[n] = v = mpf_bernoulli_huge(n, prec, rnd)\n            return v",
  expect='fire:D-R1f:mpf_bernoulli')
V(id='c33-benign-bernoulli-huge-cached-at-wp', prop='C33', file='mpmath/libmp/gammazeta.py',
  old="        if n - m > 10:\n            return mpf_bernoulli_huge(n, prec, rnd)",
  new="        if n - m > 10:\n            numbers[n] = v = mpf_bernoulli_huge(n, wp)\n            return mpf_pos(v, prec, rnd or round_floor)",
  expect='silent')
V(id='c33-odefun-bisect-left', prop='C33', file='mpmath/calculus/odes.py',
  edits=[("from bisect import bisect\n", "from bisect import bisect_left\n"),
         ("        n = bisect(series_boundaries, x)", "        n = bisect_left(series_boundaries, x)")],
  expect='fire:D-ODE:get_series')
V(id='c37-gmpy-mul-int-guard-order', prop='C37', file='mpmath/libmp/libmpf.py',
  old="def gmpy_mpf_mul_int(s, n, prec, rnd=round_fast):\n    \"\"\"Multiply by a Python integer.\"\"\"\n    sign, man, exp, bc = s\n    if not man:\n        return mpf_mul(s, from_int(n), prec, rnd)\n    if not n:\n        return fzero\n",
  new="def gmpy_mpf_mul_int(s, n, prec, rnd=round_fast):\n    \"\"\"Multiply by a Python integer.\"\"\"\n    if not n:\n        return fzero\n    sign, man, exp, bc = s\n    if not man:\n        return mpf_mul(s, from_int(n), prec, rnd)\n",
  expect='fire:Y-R2:gmpy_mpf_mul_int')
V(id='c37-benign-both-reordered', prop='C37', file='mpmath/libmp/libmpf.py',
  edits=[("def gmpy_mpf_mul_int(s, n, prec, rnd=round_fast):\n    \"\"\"Multiply by a Python integer.\"\"\"\n    sign, man, exp, bc = s\n",
          "def gmpy_mpf_mul_int(s, n, prec, rnd=round_fast):\n    \"\"\"Multiply by a Python integer.\"\"\"\n    sign, man, exp, bc = s\n    assert prec >= 0\n"),
         ("def python_mpf_mul_int(s, n, prec, rnd=round_fast):\n    \"\"\"Multiply by a Python integer.\"\"\"\n    sign, man, exp, bc = s\n",
          "def python_mpf_mul_int(s, n, prec, rnd=round_fast):\n    \"\"\"Multiply by a Python integer.\"\"\"\n    sign, man, exp, bc = s\n    assert prec >= 0\n")],
  expect='silent')

# ---------------------------------------------------------------- C35 -------
V(id='c35-maxcoeff-nonstrict', prop='C35', file='mpmath/identification.py',
  old="                if max(abs(v) for v in vec) < maxcoeff and", new="                if max(abs(v) for v in vec) <= maxcoeff and",
  expect='fire:Q-R1:pslq')
V(id='c35-row-instead-of-column', prop='C35', file='mpmath/identification.py',
  old="                vec = [int(round_fixed(B[j,i], prec) >> prec) for j in \\\n                range(1,n+1)]",
  new="                vec = [int(round_fixed(B[i,j], prec) >> prec) for j in \\\n                range(1,n+1)]",
  expect='fire:Q-R1:pslq')
V(id='c35-residual-gate-loosened', prop='C35', file='mpmath/identification.py',
  old="            if err < tol:\n                # We are done if the coefficients are acceptable",
  new="            if err < 16*tol:\n                # We are done if the coefficients are acceptable",
  expect='fire:Q-R1:pslq')
V(id='c35-best-column-returned', prop='C35', file='mpmath/identification.py',
  old="            err = abs(y[i])\n            # Maybe we are done?", new="            err = abs(y[1])\n            # Maybe we are done?",
  expect='fire:Q-R1:pslq')
V(id='c35-tol-scaled-before-extra', prop='C35', file='mpmath/identification.py',
  edits=[("    extra = 60\n    prec += extra\n", "    tol = ctx.to_fixed(ctx.convert(tol) if tol is not None else ctx.mpf(2)**(-target), prec)\n    extra = 60\n    prec += extra\n"),
         ("    tol = ctx.to_fixed(tol, prec)\n    assert tol\n", "    assert tol\n")],
  expect='fire:Q-R2:pslq')
V(id='c35-findpoly-degree-plus-one', prop='C35', file='mpmath/identification.py',
  old="    for i in range(1,n+1):\n        # (with the guard bits", new="    for i in range(1,n+2):\n        # (with the guard bits",
  expect='fire:Q-R3:findpoly')
V(id='c35-findpoly-own-maxcoeff', prop='C35', file='mpmath/identification.py',
  old="        a = ctx.pslq(xs, **kwargs)", new="        a = ctx.pslq(xs, kwargs.get('tol'), 10**6)",
  expect='fire:Q-R3:findpoly')
V(id='c35-identify-leading-zero-allowed', prop='C35', file='mpmath/identification.py',
  old="            if r is not None and max(abs(uw) for uw in r) <= M and r[0] \\\n                and any(r[1:]):",
  new="            if r is not None and max(abs(uw) for uw in r) <= M \\\n                and any(r[1:]):",
  expect='fire:Q-R4:identify')
V(id='c35-identify-product-ungated', prop='C35', file='mpmath/identification.py',
  old="        if r is not None and max(abs(uw) for uw in r) <= M and r[0]:\n            if addsolution(prodstring(r, logs))",
  new="        if r is not None and r[0]:\n            if addsolution(prodstring(r, logs))",
  expect='fire:Q-R4:identify')
V(id='c35-benign-rename-vec', prop='C35', file='mpmath/identification.py',
  edits=[("                vec = [int(round_fixed(B[j,i], prec) >> prec) for j in \\\n                range(1,n+1)]",
          "                rel = [int(round_fixed(B[j,i], prec) >> prec) for j in \\\n                range(1,n+1)]"),
         ("                if max(abs(v) for v in vec) < maxcoeff and", "                if max(abs(v) for v in rel) < maxcoeff and"),
         ("zip(vec, x[1:])", "zip(rel, x[1:])"),
         ("                    return vec", "                    return rel")],
  expect='silent')

# ---------------------------------------------------------------- C09 -------
V(id='c09-from-float-52', prop='C09', file='mpmath/libmp/libmpf.py',
  old="    return from_man_exp(int(m*(1<<53)), e-53, prec, rnd)", new="    return from_man_exp(int(m*(1<<52)), e-52, prec, rnd)",
  expect='fire:V-R1:from_float')
V(id='c09-from-float-offset-mismatch', prop='C09', file='mpmath/libmp/libmpf.py',
  old="    return from_man_exp(int(m*(1<<53)), e-53, prec, rnd)", new="    return from_man_exp(int(m*(1<<64)), e-63, prec, rnd)",
  expect='fire:V-R1:from_float')
V(id='c09-from-float-default-prec', prop='C09', file='mpmath/libmp/libmpf.py',
  old="def from_float(x, prec=53, rnd=round_fast):", new="def from_float(x, prec=52, rnd=round_fast):",
  expect='fire:V-R1:from_float')
V(id='c09-from-float-inf-sign', prop='C09', file='mpmath/libmp/libmpf.py',
  old="    if x == math_float_inf: return finf\n    if x == -math_float_inf: return fninf\n    return from_man_exp(",
  new="    if x == math_float_inf: return fninf\n    if x == -math_float_inf: return finf\n    return from_man_exp(",
  expect='fire:V-R1:from_float')
V(id='c09-convert-rounds-float', prop='C09', file='mpmath/ctx_mp_python.py',
  old="        if isinstance(x, float): return ctx.make_mpf(from_float(x))",
  new="        if isinstance(x, float): return ctx.make_mpf(from_float(x, *ctx._prec_rounding))",
  expect='fire:V-R2:convert')
V(id='c09-to-float-54', prop='C09', file='mpmath/libmp/libmpf.py',
  old="    if bc > 53:\n        sign, man, exp, bc = normalize1(sign, man, exp, bc, 53, rnd)",
  new="    if bc > 54:\n        sign, man, exp, bc = normalize1(sign, man, exp, bc, 54, rnd)",
  expect='fire:V-R3:to_float')
V(id='c09-to-float-mode-dropped', prop='C09', file='mpmath/libmp/libmpf.py',
  old="    if bc > 53:\n        sign, man, exp, bc = normalize1(sign, man, exp, bc, 53, rnd)",
  new="    if bc > 53:\n        sign, man, exp, bc = normalize1(sign, man, exp, bc, 53, round_down)",
  expect='fire:V-R3:to_float')
V(id='c09-to-float-overflow-sign', prop='C09', file='mpmath/libmp/libmpf.py',
  old="            if sign:\n                return -math_float_inf\n            else:\n                return math_float_inf",
  new="            return math_float_inf",
  expect='fire:V-R3:to_float')
V(id='c09-float-ignores-context-mode', prop='C09', file='mpmath/ctx_mp_python.py',
  old="    def __float__(s): return to_float(s._mpf_, rnd=s.context._prec_rounding[1])",
  new="    def __float__(s): return to_float(s._mpf_)",
  expect='fire:V-R4:_mpf.__float__')
V(id='c09-complex-parts-swapped', prop='C09', file='mpmath/libmp/libmpc.py',
  old="    return complex(to_float(re, strict, rnd), to_float(im, strict, rnd))",
  new="    return complex(to_float(im, strict, rnd), to_float(re, strict, rnd))",
  expect='fire:V-R4:mpc_to_complex')
V(id='c09-benign-constructor-single-rounding', prop='C09', file='mpmath/ctx_mp_python.py',
  old="        if isinstance(x, float): return from_float(x)\n        if isinstance(x, basestring): return from_str(x, prec, rounding)",
  new="        if isinstance(x, float): return from_float(x, prec, rounding)\n        if isinstance(x, basestring): return from_str(x, prec, rounding)",
  expect='silent')
V(id='c09-benign-from-float-64', prop='C09', file='mpmath/libmp/libmpf.py',
  old="    return from_man_exp(int(m*(1<<53)), e-53, prec, rnd)", new="    return from_man_exp(int(m*(1<<64)), e-64, prec, rnd)",
  expect='silent')

# ------------------------------------------------ C-R10, B-R4i no-overlap, mpc eq operand, keyword independence ----
V(id='c14-log-perturb-sign-of-t', prop='C14', file='mpmath/libmp/libelefun.py',
  old="            return mpf_perturb(t, 1, prec, rnd)", new="            return mpf_perturb(t, tsign, prec, rnd)",
  expect='fire:C-R10:mpf_log')
V(id='c14-atan-perturb-same', prop='C14', file='mpmath/libmp/libelefun.py',
  old="    if -mag > prec+20:\n        return mpf_perturb(x, 1-sign, prec, rnd)", new="    if -mag > prec+20:\n        return mpf_perturb(x, sign, prec, rnd)",
  expect='fire:C-R10:mpf_atan')
V(id='c14-cos-perturb-up', prop='C14', file='mpmath/libmp/libelefun.py',
  old="            c = mpf_perturb(fone, 1, prec, rnd)", new="            c = mpf_perturb(fone, 0, prec, rnd)",
  expect='fire:C-R10:mpf_cos_sin')
V(id='c14-benign-perturb-xor-form', prop='C14', file='mpmath/libmp/libelefun.py',
  old="    if -mag > prec+20:\n        return mpf_perturb(x, 1-sign, prec, rnd)", new="    if -mag > prec+20:\n        return mpf_perturb(x, sign ^ 1, prec, rnd)",
  expect='silent')
V(id='c02-add-shortcut-overlap', prop='C02', file='mpmath/libmp/libmpf.py',
  old="                    if delta > prec + 4 and offset >= tbc:", new="                    if delta > prec + 4:",
  expect='fire:B-R4i:mpf_add')
V(id='c02-add-shortcut-overlap-other-arm', prop='C02', file='mpmath/libmp/libmpf.py',
  old="                    if delta > prec + 4 and -offset >= sbc:", new="                    if delta > prec + 4 and -offset >= tbc:",
  expect='fire:B-R4i:mpf_add')
V(id='c02-mpf-new-rounding-under-dps', prop='C02', file='mpmath/ctx_mp_python.py',
  old="            prec = kwargs.get('prec', prec)\n            if 'dps' in kwargs:\n                prec = dps_to_prec(kwargs['dps'])\n            rounding = kwargs.get('rounding', rounding)\n        if type(val) is cls:",
  new="            if 'dps' in kwargs:\n                prec = dps_to_prec(kwargs['dps'])\n            else:\n                prec = kwargs.get('prec', prec)\n                rounding = kwargs.get('rounding', rounding)\n        if type(val) is cls:",
  expect='fire:B-R3t:_mpf.__new__')
V(id='c02-sqrt-approx-root', prop='C02', file='mpmath/libmp/libmpf.py',
  old="    if rnd in 'fd':\n        man = isqrt(man<<shift)", new="    if rnd in 'fd':\n        man = isqrt_fast(man<<shift)",
  expect='fire:B-R4i:mpf_sqrt')
V(id='c03-pow-int-exponent-rounded', prop='C03', file='mpmath/ctx_mp_python.py',
  old="    'val = mpf_pow_int(sval, other, prec, rounding)' + return_mpf,",
  new="    'tval = from_int(other, prec, rounding)' + mpf_pow_same,",
  expect='fire:B-R3x:_mpf.__pow__')
V(id='c04-mpc-eq-constructor', prop='C04', file='mpmath/ctx_mp_python.py',
  old="            if t is NotImplemented:\n                return t\n        return s.real == t.real and s.imag == t.imag",
  new="            if t is NotImplemented:\n                return t\n            t = s.context.mpc(t)\n        return s.real == t.real and s.imag == t.imag",
  expect='fire:H-C04:_mpc.__eq__')
V(id='c07-power-as-divisor', prop='C07', file='mpmath/libmp/libmpf.py',
  old="        s = mpf_mul(s, mpf_pow_int(ften, exp, prec+10, prnd), prec, rnd)",
  new="        t = mpf_pow_int(ften, abs(exp), prec+10, prnd)\n        if exp < 0:\n            s = mpf_div(s, t, prec, rnd)\n        else:\n            s = mpf_mul(s, t, prec, rnd)",
  expect='fire:B-R5:from_str')

# ---------------------------------------------------------------- C08 -------
V(id='c08-repr-17-digits-at-54-bits', prop='C08', file='mpmath/libmp/libmpf.py',
  old="    if dps == 15 and n <= 53:\n        return 17", new="    if dps == 15:\n        return 17",
  expect='fire:W-R1:repr_dps')
V(id='c08-repr-two-extra-digits', prop='C08', file='mpmath/libmp/libmpf.py',
  old="        return 17\n    return dps + 3", new="        return 17\n    return dps + 1",
  expect='fire:W-R1:repr_dps')
V(id='c08-benign-repr-more-digits', prop='C08', file='mpmath/libmp/libmpf.py',
  old="        return 17\n    return dps + 3", new="        return 17\n    return dps + 4",
  expect='silent')
V(id='c08-repr-digits-cached', prop='C08', file='mpmath/ctx_mp.py',
  old="    @property\n    def _repr_digits(ctx):\n        return repr_dps(ctx._prec)",
  new="    def _init_repr_digits(ctx):\n        ctx._repr_digits = repr_dps(ctx._prec)",
  expect='analysis-error:_repr_digits vanished')
V(id='c08-str-uses-repr-digits', prop='C08', file='mpmath/ctx_mp_python.py',
  old="        return \"mpf('%s')\" % to_str(s._mpf_, s.context._repr_digits)",
  new="        return \"mpf('%s')\" % to_str(s._mpf_, s.context._str_digits)",
  expect='fire:W-R2:_mpf.__repr__')
V(id='c08-minus-inf-read-as-inf', prop='C08', file='mpmath/libmp/libmpf.py',
  old="special_str = {'inf':finf, '+inf':finf, '-inf':fninf, 'nan':fnan}",
  new="special_str = {'inf':finf, '+inf':finf, '-inf':finf, 'nan':fnan}",
  expect='fire:W-R3')
V(id='c08-inf-printed-without-sign', prop='C08', file='mpmath/libmp/libmpf.py',
  old="        if s == finf: return '+inf'\n        if s == fninf: return '-inf'\n        if s == fnan: return 'nan'\n        raise ValueError",
  new="        if s == finf: return 'inf'\n        if s == fninf: return '-inf'\n        if s == fnan: return 'nan'\n        raise ValueError",
  expect='fire:W-R3:to_str')
V(id='c08-round-up-from-6', prop='C08', file='mpmath/libmp/libmpf.py',
  old="        if len(digits) > dps and digits[dps] in '56789':", new="        if len(digits) > dps and digits[dps] in '6789':",
  expect='fire:W-R4:to_str')
V(id='c08-all-nines-exponent', prop='C08', file='mpmath/libmp/libmpf.py',
  old="                digits = '1' + '0' * (dps - 1)\n                exponent += 1", new="                digits = '1' + '0' * (dps - 1)",
  expect='fire:W-R4:to_str')
V(id='c08-no-guard-digits', prop='C08', file='mpmath/libmp/libmpf.py',
  old="    sign, digits, exponent = to_digits_exp(s, dps+3)", new="    sign, digits, exponent = to_digits_exp(s, dps)",
  expect='fire:W-R4:to_str')
V(id='c08-mpc-repr-parts-swapped', prop='C08', file='mpmath/ctx_mp_python.py',
  old="        r = repr(s.real)[4:-1]\n        i = repr(s.imag)[4:-1]", new="        r = repr(s.imag)[4:-1]\n        i = repr(s.real)[4:-1]",
  expect='fire:W-R2:_mpc.__repr__')

# ------------------------------------------------ C-R5g -------
V(id='c14-benign-atan2-four-guard-bits', prop='C14', file='mpmath/libmp/libelefun.py',
  old="""    tquo = mpf_atan(mpf_div(y, x, wp, irnd), wp, irnd)
    if xsign:
        return mpf_add(mpf_pi(wp, irnd), tquo, prec, rnd)""",
  new="""    tquo = mpf_atan(mpf_div(y, x, prec+4), prec+4)
    if xsign:
        return mpf_add(mpf_pi(prec+4), tquo, prec, rnd)""",
  expect='silent')   # benign for C14 since 5948c3d: the interval layer evaluates the kernel at prec+20 and widens by 2**10 units

# ------------------------------------------------ C-R12, C-R13, V-R5, Q-R4 pairing, F-R1 subscripts ----
V(id='c15-overlap-misses-containment', prop='C15', file='mpmath/libmp/libmpi.py',
  old="    if mpf_lt(d, a): return False\n    if mpf_gt(c, b): return False\n    return True",
  new="    return (mpf_le(c, a) and mpf_le(a, d)) or (mpf_le(c, b) and mpf_le(b, d))",
  expect='fire:C-R12:mpi_overlap')
V(id='c15-benign-overlap-rewritten', prop='C15', file='mpmath/libmp/libmpi.py',
  old="    if mpf_lt(d, a): return False\n    if mpf_gt(c, b): return False\n    return True",
  new="    return not (mpf_lt(d, a) or mpf_gt(c, b))",
  expect='silent')
V(id='c15-cosh-endpoint-pairing', prop='C15', file='mpmath/libmp/libmpi.py',
  old="    c = mpi_add(e1, e2, prec)\n    s = mpi_sub(e1, e2, prec)",
  new="    c = mpi_add(e1, (e2[1], e2[0]), prec)\n    if mpf_gt(c[0], c[1]):\n        c = mpi_add((e1[1], e1[0]), e2, prec)\n    s = mpi_sub(e1, e2, prec)",
  expect='fire:C-R13:mpi_cosh_sinh')
V(id='c15-benign-cosh-temporaries', prop='C15', file='mpmath/libmp/libmpi.py',
  old="    c = mpi_add(e1, e2, prec)\n    s = mpi_sub(e1, e2, prec)",
  new="    total = mpi_add(e1, e2, prec)\n    c = total\n    s = mpi_sub(e1, e2, prec)",
  expect='silent')
V(id='c09-from-float-cache', prop='C09', file='mpmath/libmp/libmpf.py',
  edits=[("def from_float(x, prec=53, rnd=round_fast):", "float_cache = {}\n\ndef from_float(x, prec=53, rnd=round_fast):"),
         ("    return from_man_exp(int(m*(1<<53)), e-53, prec, rnd)\n\ndef from_npfloat",
          "    if prec >= 53 and x in float_cache:\n        return float_cache[x]\n    v = from_man_exp(int(m*(1<<53)), e-53, prec, rnd)\n    if len(float_cache) < 1000:\n        float_cache[x] = v\n    return v\n\ndef from_npfloat")],
  expect='fire:V-R5:from_float')
V(id='c35-identify-zip-keys-values', prop='C35', file='mpmath/identification.py',
  old="            constants = [(ctx.mpf(v), _operand(name)) for (name, v) in sorted(constants.items())]",
  new="            names = sorted(constants)\n            constants = [(ctx.mpf(v), _operand(name)) for (name, v) in zip(names, constants.values())]",
  expect='fire:Q-R4:identify')
V(id='c16-le-touching-then-lt', prop='C16', file='mpmath/libmp/libmpi.py',
  old="def mpi_le(s, t):\n    sa, sb = s\n    ta, tb = t\n    if mpf_le(sb, ta): return True\n    if mpf_gt(sa, tb): return False\n    return None",
  new="def mpi_le(s, t):\n    if s[1] == t[0]: return True\n    return mpi_lt(s, t)",
  expect='fire:F-R1:mpi_le')
V(id='c16-identity-shortcut', prop='C16', file='mpmath/ctx_iv.py',
  old="    def __le__(s, t): return s._compare(t, libmp.mpi_le)", new="    def __le__(s, t): return s is t or s._compare(t, libmp.mpi_le)",
  expect='fire:F-R3:ivmpf.__le__')

# ------------------------------------------------ B-R10, literal sign, C-R14 -------
V(id='c13-pow-constant-guard-bits', prop='C13', file='mpmath/libmp/libelefun.py',
  old="    wp = prec + 10 + max(0, texp + tbc + bitcount(abs(sexp + sbc)))\n    c = mpf_log(s, wp, rnd)",
  new="    c = mpf_log(s, prec+10, rnd)",
  expect='fire:B-R10:mpf_pow')
V(id='c04-mpc-pow-int-constant-guard-bits', prop='C04', file='mpmath/libmp/libmpc.py',
  old="    return mpc_exp(mpc_mul_int(mpc_log(z, wp), n, wp), prec, rnd)",
  new="    return mpc_exp(mpc_mul_int(mpc_log(z, prec+10), n, prec+10), prec, rnd)",
  expect='fire:B-R10:mpc_pow_int')
V(id='c13-half-integer-sqrt-constant-guard', prop='C13', file='mpmath/libmp/libelefun.py',
  old="            wp = prec + 10 + tbc\n", new="            wp = prec + 10\n",
  expect='fire:B-R10:mpf_pow')
V(id='c13-benign-more-guard-bits-in-pow', prop='C13', file='mpmath/libmp/libelefun.py',
  old="    wp = prec + 10 + max(0, texp + tbc + bitcount(abs(sexp + sbc)))",
  new="    wp = prec + 20 + max(0, texp + tbc + bitcount(abs(sexp + sbc)))",
  expect='silent')
V(id='c07-shared-prefix-order-ignored', prop='C07', file='mpmath/libmp/libmpi.py',
  old="            a2 = from_str(upper, prec, round_floor)\n            b2 = from_str(lower, prec, round_ceiling)\n            if mpf_lt(a2, a): a = a2\n            if mpf_gt(b2, b): b = b2\n", new="",
  expect='fire:C-R7:mpi_from_str')
V(id='c14-shared-prefix-order-ignored', prop='C14', file='mpmath/libmp/libmpi.py',
  old="            a2 = from_str(upper, prec, round_floor)\n            b2 = from_str(lower, prec, round_ceiling)\n            if mpf_lt(a2, a): a = a2\n            if mpf_gt(b2, b): b = b2\n", new="",
  expect='fire:C-R6:mpi_from_str')
V(id='c07-shared-prefix-by-sign-only', prop='C07', file='mpmath/libmp/libmpi.py',
  old="            a = from_str(lower, prec, round_floor)\n            b = from_str(upper, prec, round_ceiling)\n            a2 = from_str(upper, prec, round_floor)\n            b2 = from_str(lower, prec, round_ceiling)\n            if mpf_lt(a2, a): a = a2\n            if mpf_gt(b2, b): b = b2\n", new="            if x.startswith('-'):\n                lower, upper = upper, lower\n            a = from_str(lower, prec, round_floor)\n            b = from_str(upper, prec, round_ceiling)\n",
  expect='fire:C-R7:mpi_from_str')
V(id='c07-shared-prefix-ordered-by-rounded-comparison', prop='C07', file='mpmath/libmp/libmpi.py',
  old="            a = from_str(lower, prec, round_floor)\n            b = from_str(upper, prec, round_ceiling)\n            a2 = from_str(upper, prec, round_floor)\n            b2 = from_str(lower, prec, round_ceiling)\n            if mpf_lt(a2, a): a = a2\n            if mpf_gt(b2, b): b = b2\n", new="            if mpf_gt(from_str(lower, wp, round_floor),\n                      from_str(upper, wp, round_floor)):\n                lower, upper = upper, lower\n            a = from_str(lower, prec, round_floor)\n            b = from_str(upper, prec, round_ceiling)\n",
  expect='fire:C-R7:mpi_from_str')
V(id='c07-shared-prefix-swap-wrong-way', prop='C07', file='mpmath/libmp/libmpi.py',
  old="            if mpf_lt(a2, a): a = a2\n            if mpf_gt(b2, b): b = b2\n", new="            if mpf_gt(a2, a): a = a2\n            if mpf_lt(b2, b): b = b2\n",
  expect='fire:C-R7:mpi_from_str')
V(id='c07-benign-shared-prefix-lt-reversed', prop='C07', file='mpmath/libmp/libmpi.py',
  old="            if mpf_lt(a2, a): a = a2\n            if mpf_gt(b2, b): b = b2\n", new="            if mpf_gt(a, a2): a = a2\n            if mpf_lt(b, b2): b = b2\n",
  expect='silent')
V(id='c07-empty-prefix-exponent-as-plain', prop='C07', file='mpmath/libmp/libmpi.py',
  old="        if s[0] == '[' and s[-1] == ']':", new="        if s[0] == '[':", expect='fire:C-R7:mpi_from_str')
V(id='c14-empty-prefix-exponent-as-plain', prop='C14', file='mpmath/libmp/libmpi.py',
  old="        if s[0] == '[' and s[-1] == ']':", new="        if s[0] == '[':", expect='fire:C-R6:mpi_from_str')
V(id='c07-plus-minus-percent-rejected', prop='C07', file='mpmath/libmp/libmpi.py',
  old="        percent = y.endswith(\"%\")\n        if percent:\n            y = y[:-1]\n        return mpi_from_str_a_b(x, y, percent, prec)", new="        return mpi_from_str_a_b(x, y, False, prec)",
  expect='fire:C-R7:mpi_from_str')
V(id='c07-upper-case-exponent-rejected', prop='C07', file='mpmath/libmp/libmpi.py',
  old='    s = s.replace(" ", "").lower()', new='    s = s.replace(" ", "")', expect='fire:C-R7:mpi_from_str')
V(id='c14-new-transcendental-endpoint', prop='C14', file='mpmath/libmp/libmpi.py',
  old="def mpi_atan2(y, x, prec):", new="def mpi_expm1_like(x, prec):\n    a, b = x\n    return mpf_exp(a, prec, round_floor), mpf_exp(b, prec, round_ceiling)\n\ndef mpi_atan2(y, x, prec):",
  expect='fire:C-R14:mpi_expm1_like')

# ------------------------------------------------ C10 B-R7 -------
V(id='c10-hyperu-return-in-raised-region', prop='C10', file='mpmath/functions/bessel.py',
  old="            v = v / z**a\n        finally:\n            ctx.prec = orig\n        return +v\n    except ctx.NoConvergence:",
  new="            return v / z**a\n        finally:\n            ctx.prec = orig\n    except ctx.NoConvergence:",
  expect='fire:B-R7:hyperu')
V(id='c10-jtheta-unrounded', prop='C10', file='mpmath/functions/theta.py',
  old="    finally:\n        ctx.prec = prec0\n    return +res\n\n@defun\ndef _djtheta(", new="    finally:\n        ctx.prec = prec0\n    return res\n\n@defun\ndef _djtheta(",
  expect='fire:B-R7:jtheta')
V(id='c10-sum-accurately-returns-in-region', prop='C10', file='mpmath/ctx_base.py',
  old="                extraprec += min(ctx.prec, cancellation)\n        finally:\n            ctx.prec = prec\n        return +s\n\n    def mul_accurately",
  new="                extraprec += min(ctx.prec, cancellation)\n            return s\n        finally:\n            ctx.prec = prec\n\n    def mul_accurately",
  expect='fire:B-R7:sum_accurately')
V(id='c10-besseljn-rounds-to-enlarged-prec', prop='C10', file='mpmath/libmp/libhyper.py',
  old="def mpf_besseljn(n, x, prec, rounding=round_fast):\n    negate = n < 0 and n & 1",
  new="def mpf_besseljn(n, x, prec, rounding=round_fast):\n    prec += 50\n    negate = n < 0 and n & 1",
  expect='fire:B-R7:besselj')
V(id='c10-benign-round-then-return', prop='C10', file='mpmath/functions/theta.py',
  old="    finally:\n        ctx.prec = prec0\n    return +res\n\n@defun\ndef _djtheta(", new="    finally:\n        ctx.prec = prec0\n    res = +res\n    return res\n\n@defun\ndef _djtheta(",
  expect='silent')

# ------------------------------------------------ C24 T-R8 -------
V(id='c24-ei-threshold-from-prec', prop='C24', file='mpmath/libmp/libhyper.py',
  old="            can_use_asymp = xabsint > int(wp*0.693) + 10", new="            can_use_asymp = xabsint > int(prec*0.693) + 10",
  expect='fire:T-R8:mpf_ei')
V(id='c24-stirling-threshold-before-bump', prop='C24', file='mpmath/libmp/gammazeta.py',
  old="    wp += balance_prec\n    n_for_stirling = int(GAMMA_STIRLING_BETA*wp)\n    need_reduction = absn < n_for_stirling\n",
  new="    n_for_stirling = int(GAMMA_STIRLING_BETA*wp)\n    need_reduction = absn < n_for_stirling\n    wp += balance_prec\n",
  expect='fire:T-R8:mpc_gamma')
V(id='c24-benign-threshold-more-conservative', prop='C24', file='mpmath/libmp/libhyper.py',
  old="            can_use_asymp = xabsint > int(wp*0.693) + 10", new="            can_use_asymp = xabsint > int(wp*0.693) + 12",
  expect='silent')

# ------------------------------------------------ C17 K-R4 -------
V(id='c17-e-terms-stirling-slip', prop='C17', file='mpmath/libmp/libelefun.py',
  old="    N = int(1.1*prec/math.log(prec) + 20)", new="    N = int(prec/math.log(prec/math.e, 2) + 20)",
  expect='fire:K-R4:e_fixed')
V(id='c17-pi-digits-per-term-15', prop='C17', file='mpmath/libmp/libelefun.py',
  old="    N = int(prec/3.3219280948/14.181647462 + 2)", new="    N = int(prec/3.3219280948/15.181647462 + 2)",
  expect='fire:K-R4:pi_fixed')
V(id='c17-acot-terms-short', prop='C17', file='mpmath/libmp/libelefun.py',
  old="    N = int(0.35 * prec/math.log(a) + 20)", new="    N = int(0.3 * prec/math.log(a) + 20)",
  expect='fire:K-R4:acot_fixed')
V(id='c17-benign-more-terms', prop='C17', file='mpmath/libmp/libelefun.py',
  old="    N = int(1.1*prec/math.log(prec) + 20)", new="    N = int(1.2*prec/math.log(prec) + 25)",
  expect='silent')

# ------------------------------------------------ C34 O-R7 -------
V(id='c34-tol-bits-natural-log', prop='C34', file='mpmath/calculus/odes.py',
  old="        tol_prec = int(-ctx.log(tol, 2))+10", new="        tol_prec = int(-ctx.log(tol))+10",
  expect='fire:O-R7:odefun')
V(id='c34-benign-tol-bits-ln-over-ln2', prop='C34', file='mpmath/calculus/odes.py',
  old="        tol_prec = int(-ctx.log(tol, 2))+10", new="        tol_prec = int(-ctx.log(tol)/ctx.log(2))+10",
  expect='silent')

# ---- rules derived from the C16 / C02 hunts (fixes 6618628, 3276b00, c2ba1f7) ----
V(id='c16-contains-complex-unexamined', prop='C16', file='mpmath/ctx_iv.py',
  old="            if im != mpi_zero:\n                return False\n", new="",
  expect='fire:F-R5:__contains__')
V(id='c16-contains-complex-inverted', prop='C16', file='mpmath/ctx_iv.py',
  old="            if im != mpi_zero:\n                return False\n",
  new="            if im == mpi_zero:\n                return False\n",
  expect='fire:F-R5:__contains__')
V(id='c16-contains-complex-benign', prop='C16', file='mpmath/ctx_iv.py',
  old="            if im != mpi_zero:\n                return False\n",
  new="            if not (im == mpi_zero):\n                return False\n",
  expect='silent')
V(id='c16-fallback-exception-class', prop='C16', file='mpmath/rational.py',
  old="            return op(a*d, b*c)\n        return NotImplemented", new="            return op(a*d, b*c)\n        return NotImplementedError",
  expect='fire:F-R6:_cmp')
V(id='c16-fallback-exception-class-iv', prop='C16', file='mpmath/ctx_iv.py',
  old="            return NotImplemented\n        return cmpfun(s._mpi_, t._mpi_)",
  new="            return TypeError\n        return cmpfun(s._mpi_, t._mpi_)",
  expect='fire:F-R6:_compare')
V(id='c02-rational-rhs-truncated', prop='C02', file='mpmath/ctx_mp_python.py',
  old="            return from_rational(p, q, *cls.context._prec_rounding)",
  new="            return from_rational(p, q, cls.context.prec)",
  expect='fire:B-R3c:mpf_convert_rhs')
V(id='c02-rational-convert-truncated', prop='C02', file='mpmath/ctx_mp_python.py',
  old="            return ctx.make_mpf(from_rational(p, q, prec, rounding))",
  new="            return ctx.make_mpf(from_rational(p, q, prec))",
  expect='fire:B-R3c:convert')
V(id='c02-str-convert-truncated', prop='C02', file='mpmath/ctx_mp_python.py',
  old="                _mpf_ = from_str(x, prec, rounding)", new="                _mpf_ = from_str(x, prec)",
  expect='fire:B-R3c:convert')
V(id='c02-mpf-no-rational-branch', prop='C02', file='mpmath/ctx_mp_python.py',
  old="        if isinstance(x, numbers.Rational): # e.g. Fraction\n            return from_rational(int(x.numerator), int(x.denominator), prec, rounding)\n",
  new="", expect='fire:B-R3c:mpf_convert_arg')
V(id='c02-rational-rounding-keyword-benign', prop='C02', file='mpmath/ctx_mp_python.py',
  old="            return ctx.make_mpf(from_rational(p, q, prec, rounding))",
  new="            return ctx.make_mpf(from_rational(p, q, prec, rnd=rounding))",
  expect='silent')

# ---- C08 W-R5 / mpc_to_str (fixes 613bddc, b76c53d) ----
V(id='c08-enclosure-both-floor', prop='C08', file='mpmath/libmp/libmpf.py',
  old="            p2 = mpf_pow_int(ften, b, wp, round_ceiling)", new="            p2 = mpf_pow_int(ften, b, wp, round_floor)",
  expect='fire:W-R5:to_digits_exp')
V(id='c08-enclosure-mispaired', prop='C08', file='mpmath/libmp/libmpf.py',
  old="_floor_digits(mpf_div(s, p2, wp, round_floor), dps, bitprec)", new="_floor_digits(mpf_div(s, p1, wp, round_floor), dps, bitprec)",
  expect='fire:W-R5:to_digits_exp')
V(id='c08-enclosure-unconditional-exit', prop='C08', file='mpmath/libmp/libmpf.py',
  old="            if exponent2 == exponent and digits2[:dps] == digits[:dps]:\n                break",
  new="            if exponent2 == exponent:\n                break",
  expect='fire:W-R5:to_digits_exp')
V(id='c08-probe-dropped', prop='C08', file='mpmath/libmp/libmpf.py',
  old="        if len(digits2) == len(digits) and digits2[:dps] == digits[:dps]:\n            return digits, exponent",
  new="        if len(digits2) == len(digits):\n            return digits, exponent",
  expect='fire:W-R5:_floor_digits')
V(id='c08-exactness-guard-loosened', prop='C08', file='mpmath/libmp/libmpf.py',
  old="        if exp + fixprec >= 0 or not fixprec:", new="        if exp + fixprec >= -8 or not fixprec:",
  expect='fire:W-R5:_floor_digits')
V(id='c08-exactness-guard-benign', prop='C08', file='mpmath/libmp/libmpf.py',
  old="        if exp + fixprec >= 0 or not fixprec:", new="        if fixprec == 0 or exp >= -fixprec:",
  expect='silent')
V(id='c08-nearest-scaling', prop='C08', file='mpmath/libmp/libmpf.py',
  old="            digits2, exponent2 = _floor_digits(mpf_div(s, p1, wp, round_ceiling), dps, bitprec)",
  new="            digits2, exponent2 = _floor_digits(mpf_div(s, p1, wp, round_nearest), dps, bitprec)",
  expect='fire:W-R5:to_digits_exp')
V(id='c08-mpc-real-part-options-dropped', prop='C08', file='mpmath/libmp/libmpc.py',
  old="    rs = to_str(re, dps, **kwargs)", new="    rs = to_str(re, dps)",
  expect='fire:W-R2:mpc_to_str')

# ---- C11 A-R7 / stack form of A-R4 (fixes baa6984, d9813d0) ----
V(id='c11-diffs-stale-restore', prop='C11', file='mpmath/calculus/differentiation.py',
  old="            # the consumer may have changed the precision since the\n            # previous derivative was handed out\n            callprec = ctx.prec\n",
  new="", expect='fire:A-R7:diffs')
V(id='c11-diffs-save-after-raise', prop='C11', file='mpmath/calculus/differentiation.py',
  old="            yield +d\n            if k >= n:\n                return",
  new="            yield +d\n            ctx.prec = callprec\n            if k >= n:\n                return",
  expect='fire:A-R7:diffs')
V(id='c11-manager-single-slot', prop='C11', file='mpmath/ctx_mp.py',
  old="        self.origp.append(self.ctx.prec)", new="        self.origp = self.ctx.prec",
  expect='fire:A-R4:PrecisionManager')
V(id='c11-manager-stack-shared', prop='C11', file='mpmath/ctx_mp.py',
  old="        self.origp = []\n", new="", expect='fire:A-R4:PrecisionManager')
V(id='c11-manager-exit-peeks', prop='C11', file='mpmath/ctx_mp.py',
  old="        self.ctx.prec = self.origp.pop()\n        return False", new="        self.ctx.prec = self.origp[-1]\n        return False",
  expect='fire:A-R4:PrecisionManager')

# ---- C17 K-R5 / K-R6 (fixes 38bfe48, c311ac5) ----
V(id='c17-apery-constant-guard', prop='C17', file='mpmath/libmp/gammazeta.py',
  old="    extra = 20 + 3*bitcount(prec)\n", new="    extra = 20\n",
  expect='fire:K-R5:apery_fixed')
V(id='c17-catalan-growing-coefficient', prop='C17', file='mpmath/libmp/gammazeta.py',
  old="        t = a * (-1)**(n-1) * (40*n**2-24*n+3) // (n**3 * (2*n-1))",
  new="        t = a * (-1)**(n-1) * (40*n**2-24*n+3) * n**3",
  expect='fire:K-R5:catalan_fixed')
V(id='c17-apery-benign-guard-form', prop='C17', file='mpmath/libmp/gammazeta.py',
  old="    extra = 20 + 3*bitcount(prec)\n", new="    extra = 24 + 3*bitcount(prec + 1)\n",
  expect='silent')
V(id='c17-constant-no-retry', prop='C17', file='mpmath/libmp/libelefun.py',
  old="                if r > 16:\n                    break\n            wp += 32",
  new="                break\n            wp += 32",
  expect='fire:K-R6:def_mpf_constant.f')
V(id='c17-constant-retry-same-precision', prop='C17', file='mpmath/libmp/libelefun.py',
  old="            wp += 32\n        if rnd in (round_up, round_ceiling):", new="            pass\n        if rnd in (round_up, round_ceiling):",
  expect='fire:K-R6:def_mpf_constant.f')
V(id='c17-constant-margin-benign', prop='C17', file='mpmath/libmp/libelefun.py',
  old="                if r > 16:", new="                if r >= 32:",
  expect='silent')

# ---- C15 C-R15 shape discipline (fixes f6a02a3, 1197675) ----
V(id='c15-gamma-real-case-rectangle', prop='C15', file='mpmath/libmp/libmpi.py',
  old="        return mpi_gamma((a1,a2), prec, type), mpi_zero", new="        return mpi_gamma(z, prec, type), mpi_zero",
  expect='fire:C-R15:mpci_gamma')
V(id='c15-conjugate-mpf-neg', prop='C15', file='mpmath/ctx_iv.py',
  old="        return s.ctx.make_mpc((a, mpi_neg(b)))", new="        return s.ctx.make_mpc((a, mpf_neg(b)))",
  expect='fire:C-R15:conjugate')
V(id='c15-arg-of-rectangle-parts-swapped-shape', prop='C15', file='mpmath/libmp/libmpi.py',
  old="def mpci_arg(z, prec):\n    x, y = z\n    return mpi_atan2(y, x, prec)", new="def mpci_arg(z, prec):\n    x, y = z\n    return mpi_atan2(z, x, prec)",
  expect='fire:C-R15:mpci_arg')
V(id='c15-shape-benign-inline-pair', prop='C15', file='mpmath/libmp/libmpi.py',
  old="        return mpi_gamma((a1,a2), prec, type), mpi_zero", new="        re = (a1, a2)\n        return mpi_gamma(re, prec, type), mpi_zero",
  expect='silent')

# ---- C04 H-R15 shape discipline ----
V(id='c04-shape-mpf-kernel-gets-pair', prop='C04', file='mpmath/libmp/libmpc.py',
  old="def mpc_add_mpf(z, x, prec, rnd=round_fast):\n    a, b = z\n    return mpf_add(a, x, prec, rnd), b",
  new="def mpc_add_mpf(z, x, prec, rnd=round_fast):\n    a, b = z\n    return mpf_add(z, x, prec, rnd), b",
  expect='fire:H-R15:mpc_add_mpf')
V(id='c04-shape-mpc-kernel-gets-mpf', prop='C04', file='mpmath/ctx_mp_python.py',
  old="            v._mpc_ = mpc_add_mpf(s._mpc_, t._mpf_, prec, rounding)", new="            v._mpc_ = mpc_add(s._mpc_, t._mpf_, prec, rounding)",
  expect='fire:H-R15:__add__')

# ---- C01 E-R6 special-value guard (fix 688f6d5) ----
V(id='c01-ctor-tuple-specials-normalized', prop='C01', file='mpmath/ctx_mp_python.py',
  old="                if (not man) and exp:\n                    # inf or nan\n                    v._mpf_ = val\n                else:\n                    v._mpf_ = normalize(sign, MPZ(man), exp, bc, prec, rounding)",
  new="                v._mpf_ = normalize(sign, MPZ(man), exp, bc, prec, rounding)",
  expect='fire:E-R6:__new__')
V(id='c01-ctor-same-type-specials-normalized', prop='C01', file='mpmath/ctx_mp_python.py',
  old="            if (not man) and exp:\n                return val\n            v = new(cls)", new="            v = new(cls)",
  expect='fire:E-R6:__new__')
V(id='c01-ctor-tuple-raw-stored-unguarded', prop='C01', file='mpmath/ctx_mp_python.py',
  old="                if (not man) and exp:\n                    # inf or nan\n                    v._mpf_ = val\n                else:",
  new="                if not man:\n                    v._mpf_ = val\n                else:",
  expect='fire:E-R6:__new__')

# ---------------------------------------------------------------- C39 -------
V(id='c39-isint-exp-strict', prop='C39', file='mpmath/ctx_mp_python.py',
  old="            return bool((man and exp >= 0) or xval == fzero)", new="            return bool((man and exp > 0) or xval == fzero)",
  expect='fire:N-R1:isint')
V(id='c39-isnpint-sign-dropped', prop='C39', file='mpmath/ctx_mp.py',
  old="            return sign and exp >= 0", new="            return exp >= 0",
  expect='fire:N-R1:isnpint')
V(id='c39-isnormal-complex-zero-real', prop='C39', file='mpmath/ctx_mp_python.py',
  old="            if re == fzero: return im_normal\n", new="",
  expect='fire:N-R1:isnormal')
V(id='c39-isinf-only-positive', prop='C39', file='mpmath/ctx_mp_python.py',
  old="            return x._mpf_ in (finf, fninf)", new="            return x._mpf_ == finf",
  expect='fire:N-R1:isinf')
V(id='c39-isnan-complex-real-part-only', prop='C39', file='mpmath/ctx_mp.py',
  old="            return fnan in x._mpc_", new="            return x._mpc_[0] == fnan",
  expect='fire:N-R1:isnan')
V(id='c39-isint-no-int-branch', prop='C39', file='mpmath/ctx_mp_python.py',
  old="        if isinstance(x, rational.mpq):\n            p, q = x._mpq_\n            return p % q == 0\n", new="",
  expect='fire:N-R1:isint')
V(id='c39-isint-mpq-benign', prop='C39', file='mpmath/ctx_mp_python.py',
  old="            return p % q == 0", new="            return q == 1 or not p",
  expect='silent')
V(id='c39-isint-gaussian-ignores-imag', prop='C39', file='mpmath/ctx_mp_python.py',
  old="                return re_isint and im_isint", new="                return re_isint",
  expect='fire:N-R1:isint')
V(id='c39-mag-complex-no-plus-one', prop='C39', file='mpmath/ctx_mp_python.py',
  old="            return 1+max(ctx._mpf_mag(r), ctx._mpf_mag(i))", new="            return max(ctx._mpf_mag(r), ctx._mpf_mag(i))",
  expect='fire:N-R2:mag')
V(id='c39-mag-real-one-low', prop='C39', file='mpmath/ctx_mp_python.py',
  old="        if man:\n            return exp+bc\n        if x == fzero:\n            return ctx.ninf",
  new="        if man:\n            return exp+bc-1\n        if x == fzero:\n            return ctx.ninf",
  expect='fire:N-R2:mag')
V(id='c39-mag-zero-finite', prop='C39', file='mpmath/ctx_mp_python.py',
  old="        if x == fzero:\n            return ctx.ninf\n        if x == finf or x == fninf:",
  new="        if x == fzero:\n            return 0\n        if x == finf or x == fninf:",
  expect='fire:N-R2:mag')
V(id='c39-mag-real-one-high-breaks-complex', prop='C39', file='mpmath/ctx_mp_python.py',
  old="        if man:\n            return exp+bc\n        if x == fzero:\n            return ctx.ninf",
  new="        if man:\n            return 1+exp+bc\n        if x == fzero:\n            return ctx.ninf",
  expect='fire:N-R2:mag')   # fine for reals (still within 2 of optimal) but 1+max(...) is then 3 above
V(id='c39-mag-real-benign-reordered', prop='C39', file='mpmath/ctx_mp_python.py',
  old="        if man:\n            return exp+bc\n        if x == fzero:\n            return ctx.ninf",
  new="        if man:\n            return bc+exp\n        if x == fzero:\n            return ctx.ninf",
  expect='silent')
V(id='c39-isnormal-benign-rewrite', prop='C39', file='mpmath/ctx_mp_python.py',
  old="            return bool(x._mpf_[1])\n        if hasattr(x, \"_mpc_\"):\n            re, im = x._mpc_\n            re_normal",
  new="            sign, man, exp, bc = x._mpf_\n            return man != 0\n        if hasattr(x, \"_mpc_\"):\n            re, im = x._mpc_\n            re_normal",
  expect='silent')
V(id='c39-frexp-off-by-one', prop='C39', file='mpmath/libmp/libmpf.py',
  old="    return mpf_shift(x, -bc-exp), bc+exp", new="    return mpf_shift(x, -bc-exp+1), bc+exp-1",
  expect='fire:N-R3:frexp')
V(id='c39-ldexp-shift-sign', prop='C39', file='mpmath/libmp/libmpf.py',
  old="    if not man:\n        return s\n    return sign, man, exp+n, bc", new="    if not man:\n        return s\n    return sign, man, exp-n, bc",
  expect='fire:N-R3:ldexp')
V(id='c39-mag-int-off', prop='C39', file='mpmath/ctx_mp_python.py',
  old="            if x:\n                return bitcount(abs(x))", new="            if x:\n                return bitcount(abs(x))-1",
  expect='fire:N-R5:mag')
V(id='c39-mag-mpq-off', prop='C39', file='mpmath/ctx_mp_python.py',
  old="                return 1 + bitcount(abs(p)) - bitcount(q)", new="                return bitcount(abs(p)) - bitcount(q)",
  expect='fire:N-R5:mag')
V(id='c39-mpf-bool-inverted', prop='C39', file='mpmath/ctx_mp_python.py',
  old="    def __nonzero__(s): return s._mpf_ != fzero", new="    def __nonzero__(s): return s._mpf_ == fzero",
  expect='fire:N-R4:__nonzero__')

# ---- C43 F-R6 (imaginary-axis cuts), F-R7, F-R8, required slots (fixes 493258d, 9e55673, d640c82, ab2cc10) ----
V(id='c43-atan-bare-cmath', prop='C43', file='mpmath/math2.py',
  old="atan = _mathfun_real(math.atan, lambda z: cmath.atan(_imag_axis_cut(z)))", new="atan = _mathfun_real(math.atan, cmath.atan)",
  expect='fire:F-R6:atan')
V(id='c43-asinh-wrong-axis-helper', prop='C43', file='mpmath/math2.py',
  old="asinh = _mathfun_real(math.asinh, lambda z: cmath.asinh(_imag_axis_cut(z)))",
  new="asinh = _mathfun_real(math.asinh, lambda z: cmath.asinh(_real_axis_cut(z)))",
  expect='fire:F-R6:asinh')
V(id='c43-imag-cut-wrong-side', prop='C43', file='mpmath/math2.py',
  old="        if z.imag < 0:\n            return complex(-0.0, z.imag)\n        return complex(0.0, z.imag)",
  new="        if z.imag > 0:\n            return complex(-0.0, z.imag)\n        return complex(0.0, z.imag)",
  expect='fire:F-R6:atan')
V(id='c43-atanh-bare-cmath', prop='C43', file='mpmath/math2.py',
  old="atanh = _mathfun(math.atanh, lambda z: cmath.atanh(_real_axis_cut(z)))", new="atanh = _mathfun(math.atanh, cmath.atanh)",
  expect='fire:F-R6:atanh')
V(id='c43-sinpi-falls-through', prop='C43', file='mpmath/math2.py',
  old="    if n == 2: return -math.sin(r)\n    return -math.cos(r)", new="    if n == 2: return -math.sin(r)\n    if n == 3: return -math.cos(r)",
  expect='fire:F-R7:_sinpi_real')
V(id='c43-cbrt-uncorrected', prop='C43', file='mpmath/math2.py',
  old="    if y and not cmath.isinf(y):\n        # the exponent 1/3 is rounded: one Newton step removes the error\n        y -= (y*y*y - x)/(3*y*y)\n",
  new="", expect='fire:F-R8:_cbrt')
V(id='c43-slot-removed', prop='C43', file='mpmath/ctx_fp.py',
  old="    acosh = staticmethod(math2.acosh)\n", new="", expect='fire:F-R4:FPContext')
V(id='c43-new-reciprocal-composition', prop='C43', file='mpmath/functions/functions.py',
  old="def acsch(ctx, z): return ctx.asinh(ctx.one / z)", new="def acsch(ctx, z): return ctx.asin(ctx.one / (ctx.j*z)) * ctx.j",
  expect='fire:F-R8:acsch')

# ---- C35 Q-R5 / Q-R6 (fix 1733d24) ----
V(id='c35-template-power-unparenthesised', prop='C35', file='mpmath/identification.py',
  old="                    s = ftn.replace('$y', s).replace('$c**',\n                        _operand(cn, True) + '**').replace('$c', cn)",
  new="                    s = ftn.replace('$y', s).replace('$c', cn)",
  expect='fire:Q-R5:identify')
V(id='c35-null-relation-printed', prop='C35', file='mpmath/identification.py',
  old="and r[0] \\\n                and any(r[1:]):", new="and r[0]:",
  expect='fire:Q-R6:identify')
V(id='c35-linear-formula-unparenthesised', prop='C35', file='mpmath/identification.py',
  old="    if '+' in s or '*' in s:\n        s = '(' + s + ')'\n    return s or '0'", new="    return s or '0'",
  expect='fire:Q-R5:pslqstring')

# ---- C29 R-R4, R-R5, R-P3, R-M1, nan-safe R-R1 (fixes 47628a8 .. e44e6cd) ----
V(id='c29-d2f-reads-df', prop='C29', file='mpmath/calculus/optimization.py',
  old="            d2f = kwargs['d2f']\n        self.d2f = d2f\n\n    def __iter__(self):\n        x = self.x0\n        f = self.f\n        df = self.df\n        d2f = self.d2f\n        while True:\n            prevx = x\n            fx = f(x)\n            if fx == 0:",
  new="            d2f = kwargs['df']\n        self.d2f = d2f\n\n    def __iter__(self):\n        x = self.x0\n        f = self.f\n        df = self.df\n        d2f = self.d2f\n        while True:\n            prevx = x\n            fx = f(x)\n            if fx == 0:",
  expect='fire:R-R4:MNewton.__init__')
V(id='c29-verify-nan-passes', prop='C29', file='mpmath/calculus/optimization.py',
  old="        if verify and not norm(f(*xl))**2 <= tol:", new="        if verify and norm(f(*xl))**2 > tol:",
  expect='fire:R-R1:findroot')
V(id='c29-mnewton-unguarded-division', prop='C29', file='mpmath/calculus/optimization.py',
  old="            if dfx == 0:\n                # stationary point: near a multiple root, f is down to\n                # rounding noise and x cannot be improved\n                yield x, self.ctx.zero\n                break\n",
  new="", expect='fire:R-R5:MNewton.__iter__')
V(id='c29-multiplicity-last-index', prop='C29', file='mpmath/calculus/optimization.py',
  old="    else:\n        # all maxsteps derivatives vanish\n        i = maxsteps\n    return i", new="    return i",
  expect='fire:R-M1:multiplicity')
V(id='c29-polyroots-exact-sort', prop='C29', file='mpmath/calculus/polynomials.py',
  old="        order = sorted(range(deg), key=lambda i: (ctx._im(roots[i]) != 0,\n            imrank[i], rerank[i],\n            abs(ctx._im(roots[i])), ctx._re(roots[i])))",
  new="        order = sorted(range(deg), key=lambda i: (ctx._im(roots[i]) != 0, abs(ctx._im(roots[i])), ctx._re(roots[i])))",
  expect='fire:R-P3:polyroots')
V(id='c29-polyroots-ranks-swapped', prop='C29', file='mpmath/calculus/polynomials.py',
  old="            imrank[i], rerank[i],\n", new="            rerank[i], imrank[i],\n",
  expect='fire:R-P3:polyroots')
V(id='c29-polyroots-order-filters', prop='C29', file='mpmath/calculus/polynomials.py',
  old="        roots = [roots[i] for i in order]", new="        roots = [roots[i] for i in order if roots[i] is not None]",
  expect='fire:R-P1:polyroots')
V(id='c29-verify-benign-swapped-operands', prop='C29', file='mpmath/calculus/optimization.py',
  old="        if verify and not norm(f(*xl))**2 <= tol:", new="        if verify and not tol >= norm(f(*xl))**2:",
  expect='silent')

# ---- C37 Y-R5 (fix 1bb1bf8) ----
V(id='c37-numeral-guard-one-backend-only', prop='C37', file='mpmath/libmp/libintmath.py',
  old="    A, B = divmod(n, MPZ(base)**half)\n    if not A:\n        # n has fewer digits than announced\n        return numeral(B, base, half, digits)\n",
  new="    A, B = divmod(n, MPZ(base)**half)\n", expect='fire:Y-R5:numeral_gmpy')
V(id='c37-numeral-split-point-differs', prop='C37', file='mpmath/libmp/libintmath.py',
  old="    half = (size // 2) + (size & 1)\n    A, B = divmod(n, MPZ(base)**half)", new="    half = size // 2\n    A, B = divmod(n, MPZ(base)**half)",
  expect='fire:Y-R5:numeral_gmpy')

# ---- C38 X-R8 / X-R3 links (fix 8aa8da4) ----
V(id='c38-clone-without-links', prop='C38', file='mpmath/ctx_mp.py',
  old="        a._mp = a\n        for name in ('_fp', '_iv'):\n            if hasattr(ctx, name):\n                setattr(a, name, getattr(ctx, name))\n",
  new="", expect='fire:X-R8:clone')
V(id='c38-clone-links-fp-only', prop='C38', file='mpmath/ctx_mp.py',
  old="        for name in ('_fp', '_iv'):", new="        for name in ('_fp',):",
  expect='fire:X-R8:clone')
V(id='c38-clone-mp-link-to-original', prop='C38', file='mpmath/ctx_mp.py',
  old="        a._mp = a\n", new="        a._mp = ctx\n",
  expect='fire:X-R3:clone')
V(id='c38-fp-link-missing-in-init', prop='C38', file='mpmath/__init__.py',
  old="mp._fp = fp\n", new="", expect='fire:X-R8:<module>')

# ---- C33/C17/C34 torn updates (fixes 0c5e39e, e19962f, 3a23740, 0c44217, cb5ff84) ----
V(id='c33-memo-value-then-tag', prop='C33', file='mpmath/libmp/libelefun.py',
  old="        f.memo_prec = -1\n        f.memo_val = val\n        f.memo_prec = newprec", new="        f.memo_val = val\n        f.memo_prec = newprec",
  expect='fire:D-R2:constant_memo.g')
V(id='c17-memo-value-then-tag', prop='C17', file='mpmath/libmp/libelefun.py',
  old="        f.memo_prec = -1\n        f.memo_val = val\n        f.memo_prec = newprec", new="        f.memo_val = val\n        f.memo_prec = newprec",
  expect='fire:D-R2:constant_memo.g')
V(id='c33-memo-tag-then-value', prop='C33', file='mpmath/libmp/libelefun.py',
  old="        f.memo_prec = -1\n        f.memo_val = val\n        f.memo_prec = newprec", new="        f.memo_prec = newprec\n        f.memo_val = val",
  expect='fire:D-R2:constant_memo.g')
V(id='c33-lu-value-then-tag', prop='C33', file='mpmath/matrices/linalg.py',
  old="            orig._LU_prec = 0\n            orig._LU = (A.copy(), p[:])", new="            orig._LU = (A.copy(), p[:])",
  expect='fire:D-LU:LU_decomp')
V(id='c33-eulernum-partial-store', prop='C33', file='mpmath/libmp/libintmath.py',
  old="            suma += a[k+1]\n        if n <= MAX:\n            _cache[n] = ((-1)**(n//2))*(suma // 2**n)",
  new="            suma += a[k+1]\n            if n <= MAX:\n                _cache[n] = ((-1)**(n//2))*(suma // 2**n)",
  expect='fire:D-R7:eulernum')
V(id='c33-primesieve-gate-first', prop='C33', file='mpmath/libmp/gammazeta.py',
  old="    primes_cache = primes\n    mult_cache = mult\n    sieve_cache = sieve", new="    sieve_cache = sieve\n    primes_cache = primes\n    mult_cache = mult",
  expect='fire:D-R8:primesieve')
V(id='c34-boundary-before-segment', prop='C34', file='mpmath/calculus/odes.py',
  old="            series_data.append((ser, xa, xb))\n            series_boundaries.append(xb)", new="            series_boundaries.append(xb)\n            series_data.append((ser, xa, xb))",
  expect='fire:O-R2:get_series')
V(id='c34-no-repair', prop='C34', file='mpmath/calculus/odes.py',
  old="        if len(series_boundaries) <= len(series_data):\n            # an interrupted extension stored a segment without its boundary\n            series_boundaries.append(series_data[len(series_boundaries)-1][2])\n",
  new="", expect='fire:O-R2:get_series')

# ---- C24 T-R9 / T-R10 (fixes 7fb91fb, eaa1a74) ----
V(id='c24-expint-no-divergence-exit', prop='C24', file='mpmath/libmp/libhyper.py',
  old="                u = (m*r*t) >> wp\n                if m > 0 and abs(u) >= abs(t):\n                    # the terms of the divergent series grow again before\n                    # having reached the tolerance (the size estimate\n                    # above was too optimistic)\n                    raise NotImplementedError\n                t = u",
  new="                t = (m*r*t) >> wp", expect='fire:T-R9:mpf_expint')
V(id='c24-erfc-no-divergence-exit', prop='C24', file='mpmath/libmp/libhyper.py',
  old="        if k > 4 and term > term_prev or not term:", new="        if not term:",
  expect='fire:T-R9:mpf_erfc')
V(id='c24-gamma3-two-limit-reentry', prop='C24', file='mpmath/functions/expintegrals.py',
  old="            T1 = b and ctx._lower_gamma(z, b, regularized)\n            T2 = a and ctx._lower_gamma(z, a, regularized)",
  new="            T1 = ctx.gammainc(z, 0, b, regularized=regularized)\n            T2 = ctx.gammainc(z, 0, a, regularized=regularized)",
  expect='fire:T-R10:_gamma3')
V(id='c24-expint-exit-benign-form', prop='C24', file='mpmath/libmp/libhyper.py',
  old="                if m > 0 and abs(u) >= abs(t):", new="                if m > 0 and not abs(t) > abs(u):",
  expect='silent')

# ---- C34 O-R8 / O-R9 ----
V(id='c34-radius-last-coefficient-only', prop='C34', file='mpmath/calculus/odes.py',
  old="        for k in (n, n-1):", new="        for k in (n,):", expect='fire:O-R8:ode_taylor')
V(id='c34-difference-scheme-too-few-bits', prop='C34', file='mpmath/calculus/odes.py',
  old="        ctx.prec = max(orig, tol_prec)*(1+n)", new="        ctx.prec = orig*(1+n)", expect='fire:O-R9:ode_taylor')
V(id='c34-difference-scheme-benign-more-bits', prop='C34', file='mpmath/calculus/odes.py',
  old="        ctx.prec = max(orig, tol_prec)*(1+n)", new="        ctx.prec = (orig + tol_prec)*(2+n)", expect='silent')

# ---- C43 F-R9 ----
V(id='c43-even-integer-threshold-too-low', prop='C43', file='mpmath/math2.py',
  old="    if x >= 9007199254740992.0:", new="    if x >= 4503599627370496.0:", expect='fire:F-R9:_reduce_half')
V(id='c43-even-integer-threshold-benign', prop='C43', file='mpmath/math2.py',
  old="    if x >= 9007199254740992.0:", new="    if x >= 2.0**60:", expect='silent')

# ---- S-R1 special-value tables (C02, C06) ----
V(id='c06-mod-zero-divisor-shortcut', prop='C06', file='mpmath/libmp/libmpf.py',
  old="    if not tman:\n        raise ZeroDivisionError\n    # Important special case: t is larger.", new="    # Important special case: t is larger.",
  expect='fire:S-R1:mpf_mod')
V(id='c06-frac-of-inf', prop='C06', file='mpmath/libmp/libmpf.py',
  old="def mpf_frac(s, prec=0, rnd=round_fast):\n    return mpf_sub(s, mpf_floor(s), prec, rnd)",
  new="def mpf_frac(s, prec=0, rnd=round_fast):\n    if not s[1]:\n        return fzero\n    return mpf_sub(s, mpf_floor(s), prec, rnd)",
  expect='fire:S-R1:mpf_frac')
V(id='c02-add-inf-minus-inf', prop='C02', file='mpmath/libmp/libmpf.py',
  old="            if s == t or tman or not texp:\n                return s\n            return fnan", new="            return s",
  expect='fire:S-R1:mpf_add')
V(id='c02-mul-zero-times-inf', prop='C02', file='mpmath/libmp/libmpf.py',
  old="    if t == fzero: return fnan\n    return {1:finf, -1:fninf}[mpf_sign(s) * mpf_sign(t)]",
  new="    if t == fzero: return fzero\n    return {1:finf, -1:fninf}[mpf_sign(s) * mpf_sign(t)]",
  all=True, expect='fire:S-R1:mpf_mul')
V(id='c02-div-by-zero-returns-inf', prop='C02', file='mpmath/libmp/libmpf.py',
  old="        if t == fzero:\n            raise ZeroDivisionError\n        s_special", new="        if t == fzero:\n            return finf\n        s_special",
  expect='fire:S-R1:mpf_div')
V(id='c02-neg-keeps-inf-sign', prop='C02', file='mpmath/libmp/libmpf.py',
  old="            if s == finf: return fninf\n            if s == fninf: return finf\n        return s", new="            pass\n        return s",
  expect='fire:S-R1:mpf_neg')
V(id='c02-div-special-benign-reorder', prop='C02', file='mpmath/libmp/libmpf.py',
  old="        if s_special and t_special:\n            return fnan\n        if s == fnan or t == fnan:\n            return fnan",
  new="        if s == fnan or t == fnan:\n            return fnan\n        if s_special and t_special:\n            return fnan",
  expect='silent')

# ---- C13 S-R2 documented limits ----
V(id='c13-exp-minus-inf-not-zero', prop='C13', file='mpmath/libmp/libelefun.py',
  old="    if x == fninf:\n        return fzero", new="    if x == fninf:\n        return fnan", expect='fire:S-R2:mpf_exp')
V(id='c13-log-zero-plus-inf', prop='C13', file='mpmath/libmp/libelefun.py',
  old="        if x == fzero: return fninf\n        if x == finf: return finf", new="        if x == fzero: return finf\n        if x == finf: return finf",
  expect='fire:S-R2:mpf_log')
V(id='c13-atan-inf-signs-swapped', prop='C13', file='mpmath/libmp/libelefun.py',
  old="def atan_inf(sign, prec, rnd):\n    if not sign:", new="def atan_inf(sign, prec, rnd):\n    if sign:",
  expect='fire:S-R2:mpf_atan')
V(id='c13-tanh-minus-inf', prop='C13', file='mpmath/libmp/libelefun.py',
  old="            if x == fninf: return fnone", new="            if x == fninf: return fone", expect='fire:S-R2:mpf_tanh')
V(id='c13-cosh-sinh-minus-inf', prop='C13', file='mpmath/libmp/libelefun.py',
  old="        if x == fninf: return (finf, fninf)", new="        if x == fninf: return (finf, finf)", expect='fire:S-R2:mpf_sinh')
V(id='c13-log-special-benign-order', prop='C13', file='mpmath/libmp/libelefun.py',
  old="        if x == fzero: return fninf\n        if x == finf: return finf\n        if x == fnan: return fnan",
  new="        if x == fnan: return fnan\n        if x == finf: return finf\n        if x == fzero: return fninf", expect='silent')

# ---- C03 S-R3 ----
V(id='c03-neg-inf-even-power', prop='C03', file='mpmath/libmp/libmpf.py',
  old="            if n > 0: return [finf, fninf][n & 1]", new="            if n > 0: return fninf", expect='fire:S-R3:mpf_pow_int')
V(id='c03-zero-to-zero', prop='C03', file='mpmath/libmp/libmpf.py',
  old="    n = int(n)\n    if n == 0: return fone", new="    n = int(n)\n    if n == 0: return mpf_pos(s, prec, rnd) if not s[1] else fone", expect='fire:S-R3:mpf_pow_int')

# ---- C05 G-R5 ----
V(id='c05-nan-equal-to-itself', prop='C05', file='mpmath/libmp/libmpf.py',
  old="def mpf_eq(s, t):\n    \"\"\"Test equality of two raw mpfs. This is simply tuple comparison\n    unless either number is nan, in which case the result is False.\"\"\"\n    if not s[1] or not t[1]:\n        if s == fnan or t == fnan:\n            return False",
  new="def mpf_eq(s, t):\n    \"\"\"Test equality of two raw mpfs. This is simply tuple comparison\n    unless either number is nan, in which case the result is False.\"\"\"\n    if not s[1] or not t[1]:\n        if s == fnan and t != fnan:\n            return False",
  expect='fire:G-R5:mpf_eq')
V(id='c05-le-nan-guard-dropped', prop='C05', file='mpmath/libmp/libmpf.py',
  old="def mpf_le(s, t):\n    if s == fnan or t == fnan:\n        return False\n", new="def mpf_le(s, t):\n", expect='fire:G-R5:mpf_le')
V(id='c05-cmp-inf-vs-inf', prop='C05', file='mpmath/libmp/libmpf.py',
  old="def mpf_ge(s, t):\n    if s == fnan or t == fnan:\n        return False\n    return mpf_cmp(s, t) >= 0", new="def mpf_ge(s, t):\n    if s == fnan or t == fnan:\n        return False\n    return mpf_cmp(s, t) > 0",
  expect='fire:G-R5:mpf_ge')

# ---- C14 C-R16 endpoint classes ----
V(id='c14-mul-nan-upper-not-fixed', prop='C14', file='mpmath/libmp/libmpi.py',
  old="            a = mpf_mul(sa, ta, prec, round_floor)\n            b = mpf_mul(sb, tb, prec, round_ceiling)\n            if a == fnan: a = fzero\n            if b == fnan: b = finf",
  new="            a = mpf_mul(sa, ta, prec, round_floor)\n            b = mpf_mul(sb, tb, prec, round_ceiling)\n            if a == fnan: a = fzero",
  expect='silent')   # this fix-up is dead for valid intervals: 0 * inf cannot pair up in the positive * positive case
V(id='c14-mul-general-case-nan', prop='C14', file='mpmath/libmp/libmpi.py',
  old="        if fnan in cases:\n            a, b = (fninf, finf)\n        else:\n            a, b = mpf_min_max(cases)\n            a = mpf_pos(a, prec, round_floor)\n            b = mpf_pos(b, prec, round_ceiling)",
  new="        a, b = mpf_min_max(cases)\n        a = mpf_pos(a, prec, round_floor)\n        b = mpf_pos(b, prec, round_ceiling)",
  expect='fire:C-R16:mpi_mul')
V(id='c14-mul-zero-times-unbounded', prop='C14', file='mpmath/libmp/libmpi.py',
  old="        if ta == fninf or tb == finf:\n            return fninf, finf\n        return fzero, fzero\n    if tas == tbs == 0:",
  new="        return fzero, fzero\n    if tas == tbs == 0:", expect='silent')
V(id='c14-div-positive-by-zero-touching', prop='C14', file='mpmath/libmp/libmpi.py',
  old="        if sas >= 0:\n            a = mpf_div(sa, tb, prec, round_floor)\n            b = finf", new="        if sas >= 0:\n            a = mpf_div(sa, tb, prec, round_floor)\n            b = mpf_div(sb, tb, prec, round_ceiling)",
  expect='fire:C-R16:mpi_div')
V(id='c14-div-straddling-zero', prop='C14', file='mpmath/libmp/libmpi.py',
  old="    if tas < 0 and tbs > 0:\n        return fninf, finf\n    # Assume denominator to be nonnegative", new="    # Assume denominator to be nonnegative",
  expect='fire:C-R16:mpi_div')

# ---- C39 N-R6 ----
V(id='c39-nint-half-integer-rounds-down', prop='C39', file='mpmath/ctx_mp.py',
  old="                n = (man>>1)+1\n                re_dist = 0", new="                n = (man>>1)+2\n                re_dist = 0", expect='fire:N-R6:nint_distance')
V(id='c39-nint-rational-distance-from-floor', prop='C39', file='mpmath/ctx_mp.py',
  old="            d = bitcount(abs(p-n*q)) - bitcount(q)", new="            d = bitcount(r) - bitcount(q)", expect='fire:N-R6:nint_distance')
V(id='c39-nint-small-magnitude-threshold', prop='C39', file='mpmath/ctx_mp.py',
  old="        if man and mag < 0:\n            n = 0\n            re_dist = mag", new="        if man and mag < 1:\n            n = 0\n            re_dist = mag", expect='fire:N-R6:nint_distance')

# ---- C08 W-R5: probe on the decimal side is no probe ----
V(id='c08-probe-on-decimal-number', prop='C08', file='mpmath/libmp/libmpf.py',
  old="        sd2 = bin_to_radix(sf+1, fixprec, 10, fixdps)", new="        sd2 = sd + 1", expect='fire:W-R5:_floor_digits')

# ---- C35 Q-R7 / Q-R8 ----
V(id='c35-norm-margin-removed', prop='C35', file='mpmath/identification.py',
  old="            norm //= 100\n", new="", expect='fire:Q-R7:pslq')
V(id='c35-norm-margin-benign', prop='C35', file='mpmath/identification.py',
  old="            norm //= 100\n", new="            norm //= 128\n", expect='silent')
V(id='c35-identify-negative-drops-tol', prop='C35', file='mpmath/identification.py',
  old="        sol = ctx.identify(-x, constants, tol, maxcoeff, full, verbose)", new="        sol = ctx.identify(-x, constants, maxcoeff=maxcoeff, full=full, verbose=verbose)",
  expect='fire:Q-R8:identify')

# ---- C14 C-R17 ----
V(id='c14-gamma-increasing-lower-bracket', prop='C14', file='mpmath/libmp/libmpi.py',
  old="    if mpf_gt(a, gamma_min_b):", new="    if mpf_gt(a, gamma_min_a):", expect='fire:C-R17:mpi_gamma')
V(id='c14-gamma-decreasing-upper-bracket', prop='C14', file='mpmath/libmp/libmpi.py',
  old="    elif mpf_gt(a, fzero) and mpf_lt(b, gamma_min_a):", new="    elif mpf_gt(a, fzero) and mpf_lt(b, gamma_min_b):", expect='fire:C-R17:mpi_gamma')
V(id='c14-gamma-decreasing-tests-lower-endpoint', prop='C14', file='mpmath/libmp/libmpi.py',
  old="    elif mpf_gt(a, fzero) and mpf_lt(b, gamma_min_a):", new="    elif mpf_gt(a, fzero) and mpf_lt(a, gamma_min_a):", expect='fire:C-R17:mpi_gamma')
V(id='c14-gamma-bracket-benign-ge', prop='C14', file='mpmath/libmp/libmpi.py',
  old="    if mpf_gt(a, gamma_min_b):", new="    if mpf_ge(a, gamma_min_b):", expect='silent')

# ---- C14 C-R18 ----
V(id='c14-log-near-one-guard-abs', prop='C14', file='mpmath/libmp/libelefun.py',
  old="    if 0 <= mag <= 1:", new="    if abs_mag <= 1:", expect='fire:C-R18:mpf_log')
V(id='c14-log-near-one-guard-benign', prop='C14', file='mpmath/libmp/libelefun.py',
  old="    if 0 <= mag <= 1:", new="    if mag == 0 or mag == 1:", expect='silent')

# ---- rules added after seeding round 4 ----
V(id='c14-gamma-bracket-misses-minimum', prop='C14', file='mpmath/libmp/libmpi.py',
  old="gamma_min_a = from_float(1.46163214496)", new="gamma_min_a = from_float(1.4616321449684)", expect='fire:C-R17:<module>')
V(id='c17-degree-by-rounded-division', prop='C17', file='mpmath/libmp/libelefun.py',
  old="mpf_degree = def_mpf_constant(degree_fixed)", new="def mpf_degree(prec, rnd=round_fast):\n    return mpf_div(mpf_pi(prec+10), from_int(180), prec, rnd)",
  expect='fire:K-R2:mpf_degree')
V(id='c24-ci-si-threshold-half', prop='C24', file='mpmath/libmp/libhyper.py',
  old="    asymptotic = mag-1 > math.log(wp, 2)", new="    asymptotic = mag >= bitcount(wp)", expect='fire:T-R9:mpf_ci_si')
V(id='c24-ci-si-threshold-benign', prop='C24', file='mpmath/libmp/libhyper.py',
  old="    asymptotic = mag-1 > math.log(wp, 2)", new="    asymptotic = mag > bitcount(wp)", expect='silent')
V(id='c29-error-floor-from-list-ends', prop='C29', file='mpmath/calculus/polynomials.py',
  old="        size = max([1] + [abs(r) for r in roots])", new="        size = max(1, abs(roots[0]), abs(roots[-1]))", expect='fire:R-P4:polyroots')
V(id='c33-lu-check-after-store', prop='C33', file='mpmath/matrices/linalg.py',
  old="        if ctx.absmin(A[n - 1,n - 1]) <= tol:\n            raise ZeroDivisionError('matrix is numerically singular')\n        # cache decomposition\n        if not overwrite and isinstance(orig, ctx.matrix):\n            # invalidate, store, validate: an interrupt between the stores\n            # must not leave factors under the wrong precision\n            orig._LU_prec = 0\n            orig._LU = (A.copy(), p[:])\n            orig._LU_prec = ctx.prec\n",
  new="        # cache decomposition\n        if not overwrite and isinstance(orig, ctx.matrix):\n            # invalidate, store, validate: an interrupt between the stores\n            # must not leave factors under the wrong precision\n            orig._LU_prec = 0\n            orig._LU = (A.copy(), p[:])\n            orig._LU_prec = ctx.prec\n        if ctx.absmin(A[n - 1,n - 1]) <= tol:\n            raise ZeroDivisionError('matrix is numerically singular')\n",
  expect='fire:D-LU:LU_decomp')
V(id='c38-cmemo-closure-cache', prop='C38', file='mpmath/functions/bessel.py',
  old="    name = f.__name__\n    def f_wrapped(ctx):\n        cache = ctx._misc_const_cache\n", new="    name = f.__name__\n    cache = {}\n    def f_wrapped(ctx):\n",
  expect='fire:X-R9:c_memo.f_wrapped')
V(id='c33-cmemo-closure-cache', prop='C33', file='mpmath/functions/bessel.py',
  old="    name = f.__name__\n    def f_wrapped(ctx):\n        cache = ctx._misc_const_cache\n", new="    name = f.__name__\n    cache = {}\n    def f_wrapped(ctx):\n",
  expect='fire:D-R3:c_memo.f_wrapped')
V(id='c43-reduction-without-quarter-fold', prop='C43', file='mpmath/math2.py',
  old="    if r > 0.25:\n        r -= 0.5\n        n += 1\n", new="", expect='fire:F-R10:_reduce_half')
V(id='c13-nthroot-nudge-on-root', prop='C13', file='mpmath/libmp/libelefun.py',
  old="    man = nthroot_fixed(man+rnd_shift, n, prec2, exp1)", new="    man = nthroot_fixed(man, n, prec2, exp1) + rnd_shift", expect='fire:B-R4i:mpf_nthroot')
V(id='c34-series-lookup-outside-precision-region', prop='C33', file='mpmath/calculus/odes.py',
  old="        orig = ctx.prec\n        try:\n            ctx.prec = workprec\n            ser, xa, xb = get_series(x)\n", new="        orig = ctx.prec\n        ser, xa, xb = get_series(x)\n        try:\n            ctx.prec = workprec\n",
  expect='fire:D-ODE:interpolant')

# ---- C37 Y-R6 / Y-R7 (root-offset interpreter) ----
V(id='c37-sqrtrem-simultaneous-update', prop='C37', file='mpmath/libmp/libintmath.py',
  old="        y -= 1\n        rem += (1+2*y)\n", new="        y, rem = y-1, rem + (1+2*y)\n",
  expect='fire:Y-R6:sqrtrem_python')
V(id='c37-sqrtrem-rem-before-step', prop='C37', file='mpmath/libmp/libintmath.py',
  old="        y -= 1\n        rem += (1+2*y)\n", new="        rem += (1+2*y)\n        y -= 1\n",
  expect='fire:Y-R6:sqrtrem_python')
V(id='c37-sqrtrem-loop-stops-early', prop='C37', file='mpmath/libmp/libintmath.py',
  old="    while rem < 0:\n        y -= 1", new="    while rem < -1:\n        y -= 1",
  expect='fire:Y-R7:sqrtrem_python')
V(id='c37-sqrtrem-no-plus-one', prop='C37', file='mpmath/libmp/libintmath.py',
  old="    y = isqrt_fast_python(x) + 1\n    rem = x - y*y", new="    y = isqrt_fast_python(x)\n    rem = x - y*y",
  expect='fire:Y-R7:sqrtrem_python')
V(id='c37-sqrtrem-small-rem-wrong', prop='C37', file='mpmath/libmp/libintmath.py',
  old="        y = isqrt_small_python(x)\n        return y, x - y*y", new="        y = isqrt_small_python(x)\n        return y, x - y*y + 1",
  expect='fire:Y-R6:sqrtrem_python')
V(id='c37-isqrt-neighbour-test-strict', prop='C37', file='mpmath/libmp/libintmath.py',
  old="    return sqrtrem_python(x)[0]\n",
  new="    if x < _1_600:\n        return isqrt_small_python(x)\n    y = isqrt_fast_python(x)\n    if y*y > x:\n        return y - 1\n"
      "    if (y+1)*(y+1) < x:\n        return y + 1\n    return y\n",
  expect='fire:Y-R7:isqrt_python')
V(id='c37-isqrt-takes-remainder', prop='C37', file='mpmath/libmp/libintmath.py',
  old="    return sqrtrem_python(x)[0]\n", new="    return sqrtrem_python(x)[1]\n",
  expect='fire:Y-R7:isqrt_python')
V(id='c37-isqrt-fast-unverified', prop='C37', file='mpmath/libmp/libintmath.py',
  old="    return sqrtrem_python(x)[0]\n", new="    return isqrt_fast_python(x)\n",
  expect='fire:Y-R7:isqrt_python')
V(id='c37-benign-isqrt-neighbour-test', prop='C37', file='mpmath/libmp/libintmath.py',
  old="    return sqrtrem_python(x)[0]\n",
  new="    if x < _1_600:\n        return isqrt_small_python(x)\n    y = isqrt_fast_python(x)\n    if y*y > x:\n        return y - 1\n"
      "    if (y+1)*(y+1) <= x:\n        return y + 1\n    return y\n",
  expect='silent')
V(id='c37-benign-sqrtrem-upward-fixed', prop='C37', file='mpmath/libmp/libintmath.py',
  old="            while rem > 2*(1+y):\n                y += 1\n                rem -= (1+2*y)",
  new="            while rem > 2*y:\n                rem -= (1+2*y)\n                y += 1",
  expect='silent')
V(id='c37-benign-sqrtrem-unpack', prop='C37', file='mpmath/libmp/libintmath.py',
  old="        y -= 1\n        rem += (1+2*y)\n", new="        y, rem = y-1, rem + (2*y-1)\n",
  expect='silent')

# ---- C06 M-R1 (fix 246e57d): nothing as large as the exponent gap is written out ----
V(id='c06-mod-gap-guard-same-sign-only', prop='C06', file='mpmath/libmp/libmpf.py',
  old="    if texp > sexp+sbc:\n        if ssign == tsign or not sman:\n            return mpf_pos(s, prec, rnd)\n        return mpf_add(s, t, prec, rnd)\n",
  new="    if ssign == tsign and texp > sexp+sbc:\n        return mpf_pos(s, prec, rnd)\n",
  expect='fire:M-R1:mpf_mod')
V(id='c06-mod-dividend-shifted', prop='C06', file='mpmath/libmp/libmpf.py',
  old="        man = (sman * pow(2, sexp-texp, abs(tman))) % tman\n", new="        man = (sman << (sexp-texp)) % tman\n",
  expect='fire:M-R1:mpf_mod')
V(id='c06-mod-opposite-sign-forgets-zero', prop='C06', file='mpmath/libmp/libmpf.py',
  old="        if ssign == tsign or not sman:\n            return mpf_pos(s, prec, rnd)", new="        if ssign == tsign:\n            return mpf_pos(s, prec, rnd)",
  expect='fire:S-R1:mpf_mod')
V(id='c06-benign-mod-guard-reordered', prop='C06', file='mpmath/libmp/libmpf.py',
  old="    if texp > sexp+sbc:\n        if ssign == tsign or not sman:", new="    if sexp + sbc < texp:\n        if not sman or ssign == tsign:",
  expect='silent')

# ---- C07 / C08 L-R1 (fix 22a0c75): digit strings reach int() only in bounded pieces ----
V(id='c07-mantissa-direct-int', prop='C07', file='mpmath/libmp/libmpf.py',
  old="    x = MPZ(str_to_int(x, base))\n", new="    x = MPZ(int(x, base))\n", expect='fire:L-R1:str_to_man_exp')
V(id='c08-mantissa-direct-int', prop='C08', file='mpmath/libmp/libmpf.py',
  old="    x = MPZ(str_to_int(x, base))\n", new="    x = MPZ(int(x, base))\n", expect='fire:L-R1:str_to_man_exp')
V(id='c07-fraction-direct-int', prop='C07', file='mpmath/libmp/libmpf.py',
  old="from_rational(str_to_int(p), str_to_int(q), prec, rnd)", new="from_rational(int(p), str_to_int(q), prec, rnd)",
  expect='fire:L-R1:from_str')
V(id='c07-chunk-larger-than-limit', prop='C07', file='mpmath/libmp/libmpf.py',
  old="    if len(x) <= 600:\n        return int(x, base)", new="    if len(x) <= 6000:\n        return int(x, base)",
  expect='fire:L-R1:str_to_int')
V(id='c07-chunk-helper-not-splitting', prop='C07', file='mpmath/libmp/libmpf.py',
  old="    return _digits_to_int(x[:-half], base) * base**half + \\\n        _digits_to_int(x[-half:], base)\n", new="    return int(x, base)\n",
  expect='fire:L-R1:str_to_int')
V(id='c07-benign-smaller-chunks', prop='C07', file='mpmath/libmp/libmpf.py',
  old="    if len(x) <= 600:\n        return int(x, base)", new="    if len(x) <= 400:\n        return int(x, base)",
  expect='silent')

# ---- C14 C-R16 extended to points at infinity / undefined ranges (fix c90ef2f): no nan endpoint ----
V(id='c14-div-zero-lower-nan-unmapped', prop='C14', file='mpmath/libmp/libmpi.py',
  old="            b = finf\n            if a == fnan: a = fzero\n", new="            b = finf\n", expect='fire:C-R16:mpi_div')
V(id='c14-add-nan-unmapped', prop='C14', file='mpmath/libmp/libmpi.py',
  old="    a = mpf_add(sa, ta, prec, round_floor)\n    b = mpf_add(sb, tb, prec, round_ceiling)\n    if a == fnan: a = fninf\n",
  new="    a = mpf_add(sa, ta, prec, round_floor)\n    b = mpf_add(sb, tb, prec, round_ceiling)\n", expect='fire:C-R16:mpi_add')

# ---- C04 P-R1 (fixes f859abe, b211f9a): z**n takes the exact integer path up to 10^4 bits ----
V(id='c04-pow-axis-to-mpf-pow-int', prop='C04', file='mpmath/libmp/libmpc.py',
  old="        return mpf_pow_int_exact(a, n, prec, rnd), fzero", new="        return mpf_pow_int(a, n, prec, rnd), fzero",
  expect='fire:P-R1:mpc_pow_int')
V(id='c04-pow-axis-negated-same-direction', prop='C04', file='mpmath/libmp/libmpc.py',
  old="            v = mpf_neg(mpf_pow_int_exact(b, n, prec, negative_rnd[rnd]))", new="            v = mpf_neg(mpf_pow_int_exact(b, n, prec, rnd))",
  expect='fire:P-R1:mpc_pow_int')
V(id='c04-pow-gate-at-twice-the-bits', prop='C04', file='mpmath/libmp/libmpc.py',
  old="    if exact_size < 24000:", new="    if exact_size < 20000:", expect='fire:P-R1:mpc_pow_int')
V(id='c04-pow-axis-helper-small-gate', prop='C04', file='mpmath/libmp/libmpc.py',
  old="    if man and n > 0 and bc*n < 20000:", new="    if man and n > 0 and bc*n < 1000:", expect='fire:P-R1:mpf_pow_int_exact')
V(id='c04-pow-exact-component-extra-rounding', prop='C04', file='mpmath/libmp/libmpc.py',
  old="        re = from_man_exp(re, int(n*aexp), prec, rnd)", new="        re = from_man_exp(re, int(n*aexp), prec+4, rnd)",
  expect='fire:P-R1:mpc_pow_int')
V(id='c04-benign-pow-gate-larger', prop='C04', file='mpmath/libmp/libmpc.py',
  old="    if exact_size < 24000:", new="    if exact_size <= 30000:", expect='silent')

# ---- C10 B-R8 (fixes ea896ed, a3ccac3): public unwrapped functions do not hand their argument back ----
V(id='c10-conjugate-returns-self', prop='C10', file='mpmath/ctx_mp_python.py',
  old="    conjugate = lambda self: +self", new="    conjugate = lambda self: self", expect='fire:B-R8:_mpf')
V(id='c10-sign-returns-argument', prop='C10', file='mpmath/functions/functions.py',
  old="    if not x or ctx.isnan(x):\n        return +x", new="    if not x or ctx.isnan(x):\n        return x", expect='fire:B-R8:sign')
V(id='c10-arg-of-zero-returns-argument', prop='C10', file='mpmath/functions/functions.py',
  old="def conj(ctx, x):\n    x = ctx.convert(x)\n", new="def conj(ctx, x):\n    x = ctx.convert(x)\n    if ctx._is_real_type(x):\n        return x\n",
  expect='fire:B-R8:conj')
V(id='c10-benign-sign-pos-via-name', prop='C10', file='mpmath/functions/functions.py',
  old="    if not x or ctx.isnan(x):\n        return +x", new="    if not x or ctx.isnan(x):\n        y = +x\n        return y", expect='silent')

# ---- C13 R-C1 (fix 4c19272) and E-X1 (fix 81d714c) ----
V(id='c13-tan-double-angle-by-subtraction', prop='C13', file='mpmath/libmp/libmpc.py',
  old="    mag = mpf_add(mpf_mul(c, c, wp), mpf_mul(sh, sh, wp), wp)\n    re = mpf_div(mpf_mul(s, c, wp), mag, prec, rnd)\n    im = mpf_div(mpf_mul(sh, ch, wp), mag, prec, rnd)",
  new="    c2 = mpf_sub(mpf_shift(mpf_mul(c, c, wp), 1), fone, wp)\n    ch2 = mpf_add(mpf_shift(mpf_mul(sh, sh, wp), 1), fone, wp)\n    mag = mpf_shift(mpf_add(c2, ch2, wp), -1)\n    re = mpf_div(mpf_mul(s, c, wp), mag, prec, rnd)\n    im = mpf_div(mpf_mul(sh, ch, wp), mag, prec, rnd)",
  expect='fire:R-C1:mpc_tan')
V(id='c13-tan-cos-plus-cosh', prop='C13', file='mpmath/libmp/libmpc.py',
  old="    mag = mpf_add(mpf_mul(c, c, wp), mpf_mul(sh, sh, wp), wp)\n", new="    mag = mpf_add(c, ch, wp)\n",
  expect='fire:R-C1:mpc_tan')
V(id='c13-tan-cosh-minus-cos', prop='C13', file='mpmath/libmp/libmpc.py',
  old="    mag = mpf_add(mpf_mul(c, c, wp), mpf_mul(sh, sh, wp), wp)\n", new="    mag = mpf_sub(ch, c, wp)\n",
  expect='fire:R-C1:mpc_tan')
V(id='c13-nthroot-newton-no-exact-test', prop='C13', file='mpmath/libmp/libelefun.py',
  old="    s = exact_nthroot(s, n, prec, from_man_exp(man, exp1)) or \\\n        from_man_exp(man, exp1, prec, rnd)",
  new="    s = from_man_exp(man, exp1, prec, rnd)", expect='fire:E-X1:mpf_nthroot')
V(id='c13-nthroot-fallback-no-exact-test', prop='C13', file='mpmath/libmp/libelefun.py',
  old="        s = exact_nthroot(s, n, prec, r) or mpf_pos(r, prec, rnd)", new="        s = mpf_pos(r, prec, rnd)",
  expect='fire:E-X1:mpf_nthroot')
V(id='c13-exact-root-unverified', prop='C13', file='mpmath/libmp/libelefun.py',
  old="        if c > 0 and pow(c, n, mask+1) == low and c**n == man:", new="        if c > 0 and pow(c, n, mask+1) == low:",
  expect='fire:E-X1:exact_nthroot')
V(id='c13-exact-root-one-sided-candidates', prop='C13', file='mpmath/libmp/libelefun.py',
  old="    for c in (t-1, t, t+1, t+2):", new="    for c in (t, t+1):", expect='fire:E-X1:exact_nthroot')
V(id='c13-benign-exact-root-more-candidates', prop='C13', file='mpmath/libmp/libelefun.py',
  old="    for c in (t-1, t, t+1, t+2):", new="    for c in (t-2, t-1, t, t+1, t+2):", expect='silent')

# ---- C13 E-X2: half-integer exponents go through the exact square root ----
V(id='c13-pow-half-integer-only-one-half', prop='C13', file='mpmath/libmp/libelefun.py',
  old="    if texp == -1:\n        if tman == 1:", new="    if texp == -1 and tman < 4:\n        if tman == 1:",
  expect='fire:E-X2:mpf_pow')
V(id='c13-cpow-half-integer-through-log', prop='C13', file='mpmath/libmp/libmpc.py',
  old="    if pexp == -1:\n        # the error of the square root is amplified by the exponent\n        sqrtz = mpc_sqrt(z, prec+10+pbc)\n        return mpc_pow_int(sqrtz, (-1)**psign * pman, prec, rnd)\n",
  new="", expect='fire:E-X2:mpc_pow_mpf')
V(id='c13-benign-pow-half-integer-reordered', prop='C13', file='mpmath/libmp/libelefun.py',
  old="    if texp == -1:\n        if tman == 1:", new="    if -1 == texp:\n        if tman == 1:", expect='silent')

# ---- C13 B-R9 extended to intermediates written as nested arguments (seed C13-9) ----
V(id='c13-csqrt-modulus-without-guard-bits', prop='C13', file='mpmath/libmp/libmpc.py',
  old="        t = mpf_sub(mpc_abs((a, b), wp), a, wp)", new="        t = mpf_sub(mpc_abs((a, b), prec), a, wp)",
  expect='fire:B-R9:mpc_sqrt')
V(id='c13-csqrt-modulus-without-guard-bits-positive-branch', prop='C13', file='mpmath/libmp/libmpc.py',
  old="        t  = mpf_add(mpc_abs((a, b), wp), a, wp)", new="        t  = mpf_add(mpc_abs((a, b), prec), a, wp)",
  expect='fire:B-R9:mpc_sqrt')

# ---- C39 N-R2 nan classes, N-R7, N-R8 (fixes 7e0011d, 54ed16b, ed9414b) ----
V(id='c39-nint-distance-magnitude-before-mantissa', prop='C39', file='mpmath/ctx_mp.py',
  old="        if man and mag < 0:\n            n = 0\n            re_dist = mag", new="        if mag < 0:\n            n = 0\n            re_dist = mag",
  expect='fire:N-R7:nint_distance')
V(id='c39-nint-distance-imag-special-accepted', prop='C39', file='mpmath/ctx_mp.py',
  old="            elif im == fzero:\n                im_dist = ctx.ninf\n            else:\n                raise ValueError(\"requires a finite number\")",
  new="            else:\n                im_dist = ctx.ninf", expect='fire:N-R7:nint_distance')
V(id='c39-mag-complex-nan-order-dependent', prop='C39', file='mpmath/ctx_mp_python.py',
  old="            if r == fnan or i == fnan:\n                return ctx.nan\n", new="", expect='fire:N-R2:mag')
V(id='c39-mag-complex-nan-real-only', prop='C39', file='mpmath/ctx_mp_python.py',
  old="            if r == fnan or i == fnan:\n                return ctx.nan\n", new="            if r == fnan:\n                return ctx.nan\n",
  expect='fire:N-R2:mag')
V(id='c39-mpq-pow-negative-denominator', prop='C39', file='mpmath/rational.py',
  old="                    # keep the denominator positive\n                    if b < 0:\n                        a, b = -a, -b\n", new="",
  expect='fire:N-R8:__pow__')
V(id='c39-mpq-neg-flips-denominator', prop='C39', file='mpmath/rational.py',
  old="    def __neg__(s):\n        a, b = s._mpq_\n        v = new(mpq)\n        v._mpq_ = -a, b", new="    def __neg__(s):\n        a, b = s._mpq_\n        v = new(mpq)\n        v._mpq_ = a, -b",
  expect='fire:N-R8:__neg__')
V(id='c39-benign-mpq-pow-sign-first', prop='C39', file='mpmath/rational.py',
  old="                    a, b, t = b, a, -t\n                    # keep the denominator positive\n                    if b < 0:\n                        a, b = -a, -b\n",
  new="                    t = -t\n                    a, b = b, a\n                    if b < 0:\n                        a, b = -a, -b\n", expect='silent')
V(id='c13-benign-exact-root-if-form', prop='C13', file='mpmath/libmp/libelefun.py',
  old="        s = exact_nthroot(s, n, prec, r) or mpf_pos(r, prec, rnd)",
  new="        root = exact_nthroot(s, n, prec, r)\n        if root is None:\n            s = mpf_pos(r, prec, rnd)\n        else:\n            s = root",
  expect='silent')
V(id='c13-exact-root-if-form-inverted', prop='C13', file='mpmath/libmp/libelefun.py',
  old="        s = exact_nthroot(s, n, prec, r) or mpf_pos(r, prec, rnd)",
  new="        root = exact_nthroot(s, n, prec, r)\n        s = mpf_pos(r, prec, rnd)\n        if root is None:\n            s = root",
  expect='fire:E-X1:mpf_nthroot')

# ---- C16 F-R11 (fix 73d2621): number operands of interval comparisons are exact ----
V(id='c16-compare-number-as-enclosure', prop='C16', file='mpmath/ctx_iv.py',
  old="            try:\n                t = s._operand(t)\n", new="            try:\n                t = s.ctx.convert(t)\n",
  expect='fire:F-R11:_compare')
V(id='c16-contains-number-as-enclosure', prop='C16', file='mpmath/ctx_iv.py',
  old="            return mpf_le(a, p) and mpf_le(p, b)\n        t = self._operand(t)\n", new="            return mpf_le(a, p) and mpf_le(p, b)\n        t = self.ctx.mpf(t)\n",
  expect='fire:F-R11:__contains__')
V(id='c16-operand-rounded-to-prec', prop='C16', file='mpmath/ctx_iv.py',
  old="            v = convert_mpf_(t, 0, round_floor)\n", new="            v = convert_mpf_(t, self.ctx.prec, round_floor)\n",
  expect='fire:F-R11:_operand')
V(id='c16-benign-operand-ceiling', prop='C16', file='mpmath/ctx_iv.py',
  old="            v = convert_mpf_(t, 0, round_floor)\n", new="            v = convert_mpf_(t, 0, round_ceiling)\n",
  expect='silent')

# ---- C02 U-R1 (fix ed5c1c8): exact-accumulation window of mpf_sum ----
V(id='c02-sum-window-two-prec', prop='C02', file='mpmath/libmp/libmpf.py',
  old="    max_extra_prec = prec*4 or 1000000  # XXX", new="    max_extra_prec = prec*2 or 1000000  # XXX", expect='fire:U-R1:mpf_sum')
V(id='c02-benign-sum-window-wider', prop='C02', file='mpmath/libmp/libmpf.py',
  old="    max_extra_prec = prec*4 or 1000000  # XXX", new="    max_extra_prec = 8*prec or 1000000  # XXX", expect='silent')

# ---- C15 C-R14t: rectangle functions inherit the unwidened endpoints of the real interval functions ----
V(id='c15-new-rectangle-function-on-mpi-exp', prop='C15', file='mpmath/libmp/libmpi.py',
  old="def mpci_cos(x, prec):", new="def mpci_expm(z, prec):\n    (a, b), im = z\n    return (mpf_exp(mpf_neg(b), prec, round_floor), mpf_exp(mpf_neg(a), prec, round_ceiling)), mpi_zero\n\ndef mpci_cos(x, prec):",
  expect='fire:C-R14t:mpci_expm')
V(id='c15-abs-through-log', prop='C15', file='mpmath/libmp/libmpi.py',
  old="def mpi_log(s, prec):\n    sa, sb = s\n    # log is monotonic\n    a = mpf_outward(mpf_log, (sa,), prec, round_floor)", new="def mpi_log(s, prec):\n    sa, sb = s\n    # log is monotonic\n    a = mpf_log(sa, prec, round_floor)",
  expect='fire:C-R14t:mpci_log')

# ---- C43 F-R6 negative-axis cuts (fix 95d3eaf) ----
V(id='c43-sqrt-bare-cmath', prop='C43', file='mpmath/math2.py',
  old="sqrt = _mathfun(math_sqrt, lambda z: cmath.sqrt(_neg_axis_cut(z)))", new="sqrt = _mathfun(math_sqrt, cmath.sqrt)",
  expect='fire:F-R6:sqrt')
V(id='c43-acosh-cut-below-zero', prop='C43', file='mpmath/math2.py',
  old="acosh = _mathfun(math.acosh, lambda z: cmath.acosh(_neg_axis_cut(z, 1.0)))", new="acosh = _mathfun(math.acosh, lambda z: cmath.acosh(_neg_axis_cut(z)))",
  expect='fire:F-R6:acosh')
V(id='c43-neg-cut-helper-negative-zero', prop='C43', file='mpmath/math2.py',
  old="    if z.imag == 0 and z.real < below:\n        return complex(z.real, 0.0)", new="    if z.imag == 0 and z.real < below:\n        return complex(z.real, -0.0)",
  expect='fire:F-R6')
V(id='c43-pow-base-not-normalised', prop='C43', file='mpmath/math2.py',
  old="pow = _mathfun_n(operator.pow, lambda x, y: _neg_axis_cut(complex(x))**y)", new="pow = _mathfun_n(operator.pow, lambda x, y: complex(x)**y)",
  expect='fire:F-R6:pow')
V(id='c43-log-wrong-sibling-through-helper', prop='C43', file='mpmath/math2.py',
  old="log = _mathfun_n(math_log, lambda *args: cmath.log(*[_neg_axis_cut(z) for z in args]))", new="log = _mathfun_n(math_log, lambda *args: cmath.log10(*[_neg_axis_cut(z) for z in args]))",
  expect='fire:F-R2:log')

# ---- C43 F-R12 (fixes b302003, 0e35d5b): log(1+t) sums carry magnitude-dependent precision ----
V(id='c43-catan-constant-guard-bits', prop='C43', file='mpmath/libmp/libmpc.py',
  old="            # atan(z) = z - z^3/3 + ...\n            return mpc_pos(z, prec, rnd)\n        wp += -mag\n", new="            # atan(z) = z - z^3/3 + ...\n            return mpc_pos(z, prec, rnd)\n",
  expect='fire:F-R12:mpc_atan')
V(id='c43-acosh-constant-guard-bits', prop='C43', file='mpmath/libmp/libelefun.py',
  old="    if tman and texp+tbc < 0:\n        wp += -(texp+tbc)\n", new="", expect='fire:F-R12:mpf_acosh')
V(id='c43-asin-log1p-fixed-precision', prop='C43', file='mpmath/libmp/libmpc.py',
  old="            wp2 = wp + max(0, -tmag)\n", new="            wp2 = wp + 5\n", expect='fire:F-R12:acos_asin')

# ---- C14 / C15 after repair 5948c3d: transcendental endpoints go through mpf_outward (C-R14, C-R19, C-R14t) ----
V(id='c14-exp-endpoint-straight-from-kernel', prop='C14', file='mpmath/libmp/libmpi.py',
  old="    else: a = mpf_outward(mpf_exp, (sa,), prec, round_floor)", new="    else: a = mpf_exp(sa, prec, round_floor)",
  expect='fire:C-R14:mpi_exp')
V(id='c15-exp-endpoint-straight-from-kernel', prop='C15', file='mpmath/libmp/libmpi.py',
  old="    else: a = mpf_outward(mpf_exp, (sa,), prec, round_floor)", new="    else: a = mpf_exp(sa, prec, round_floor)",
  expect='fire:C-R14t:mpci_exp')
V(id='c14-outward-factor-inward', prop='C14', file='mpmath/libmp/libmpi.py',
  old="    if bool(sign) == (rounding == round_floor):\n        p = from_man_exp((MPZ_ONE<<wp) + (MPZ_ONE<<10), -wp)",
  new="    if bool(sign) != (rounding == round_floor):\n        p = from_man_exp((MPZ_ONE<<wp) + (MPZ_ONE<<10), -wp)",
  expect='fire:C-R19:mpf_outward')
V(id='c14-outward-no-extra-bits', prop='C14', file='mpmath/libmp/libmpi.py',
  old="    wp = prec + 20\n    v = f(*(args + (wp,)))", new="    wp = prec + 4\n    v = f(*(args + (wp,)))",
  expect='fire:C-R19:mpf_outward')
V(id='c14-outward-final-rounding-nearest', prop='C14', file='mpmath/libmp/libmpi.py',
  old="    return mpf_mul(v, p, prec, rounding)\n\ndef mpc_outward", new="    return mpf_mul(v, p, prec, round_nearest)\n\ndef mpc_outward",
  expect='fire:C-R19:mpf_outward')
V(id='c14-outward-exact-shortcut-too-wide', prop='C14', file='mpmath/libmp/libmpi.py',
  old="    if exact_at_integers:\n        sign, man, exp, bc = args[0]\n", new="    if True:\n        sign, man, exp, bc = args[0]\n",
  expect='fire:C-R19:mpf_outward')
V(id='c14-benign-outward-more-allowance', prop='C14', file='mpmath/libmp/libmpi.py',
  old="        p = from_man_exp((MPZ_ONE<<wp) + (MPZ_ONE<<10), -wp)\n    else:\n        p = from_man_exp((MPZ_ONE<<wp) - (MPZ_ONE<<10), -wp)",
  new="        p = from_man_exp((MPZ_ONE<<wp) + (MPZ_ONE<<12), -wp)\n    else:\n        p = from_man_exp((MPZ_ONE<<wp) - (MPZ_ONE<<12), -wp)",
  expect='silent')

# ---- C24 T-R11 / T-R12 (fixes d99b975, b3294dd) ----
V(id='c24-sum-accurately-no-cap', prop='C24', file='mpmath/ctx_base.py',
  old="                if cancellation == ctx.inf and ctx.prec > 100*prec + 1000:\n                    # The sum is still exactly zero at a hundred times the\n                    # precision: take it to be zero instead of raising the\n                    # precision forever\n                    break\n",
  new="", expect='fire:T-R11:sum_accurately')
V(id='c24-mul-accurately-cap-on-recomputed-bound', prop='C24', file='mpmath/ctx_base.py',
  old="                if cancellation == ctx.inf and ctx.prec > 100*prec + 1000:\n                    # The product is still exactly one at a hundred times",
  new="                if cancellation == ctx.inf and ctx.prec > 100*cancellation:\n                    # The product is still exactly one at a hundred times",
  expect='fire:T-R11:mul_accurately')
V(id='c24-sum-accurately-sum-mag-unbound', prop='C24', file='mpmath/ctx_base.py',
  old="                max_mag = ctx.ninf\n                sum_mag = ctx.ninf\n                s = ctx.zero\n", new="                max_mag = ctx.ninf\n                s = ctx.zero\n",
  expect='fire:T-R11:sum_accurately')
V(id='c24-agm-principal-root-only', prop='C24', file='mpmath/libmp/libhyper.py',
  old="        if mpf_gt(mpc_abs(mpc_sub(a1, b1, 10), 10), mpc_abs(mpc_add(a1, b1, 10), 10)):\n            b1 = mpc_neg(b1)\n        a, b = a1, b1\n        if mpc_zero in (a, b):\n            return fzero, fzero\n",
  new="        a, b = a1, b1\n", expect='fire:T-R12:mpc_agm')
V(id='c24-benign-agm-zero-test-only', prop='C24', file='mpmath/libmp/libhyper.py',
  old="        if mpf_gt(mpc_abs(mpc_sub(a1, b1, 10), 10), mpc_abs(mpc_add(a1, b1, 10), 10)):\n            b1 = mpc_neg(b1)\n        a, b = a1, b1\n",
  new="        a, b = a1, b1\n", expect='silent')

# ---- C08 W-R5 exact exit of the enclosure loop (fix a3334c3), W-R6 numeral size hint (fix ceccd07) ----
V(id='c08-enclosure-loop-without-exact-exit', prop='C08', file='mpmath/libmp/libmpf.py',
  old="""            if wp > 4*(bc + 4*abs(b) + bitprec):
                # The two ends keep straddling a dps-digit decimal D: s is
                # D itself or extremely close to it. Compare exactly.
                # D = N * 10^e10 is the decimal that the upper end reached
                N = str_to_int(digits2[:dps].ljust(dps, '0'))
                e10 = exponent2 - (dps-1) + b
                lhs = man << max(exp, 0)
                rhs = N << max(-exp, 0)
                if e10 >= 0:
                    rhs *= 10**e10
                else:
                    lhs *= 10**(-e10)
                if lhs >= rhs:
                    digits, exponent = digits2, exponent2
                break
            wp *= 2""",
  new="            wp *= 2", expect='fire:W-R5:to_digits_exp')
V(id='c08-exact-exit-comparison-reversed', prop='C08', file='mpmath/libmp/libmpf.py',
  old="                if lhs >= rhs:\n                    digits, exponent = digits2, exponent2", new="                if lhs <= rhs:\n                    digits, exponent = digits2, exponent2",
  expect='fire:W-R5:to_digits_exp')
V(id='c08-exact-exit-through-floats', prop='C08', file='mpmath/libmp/libmpf.py',
  old="                if lhs >= rhs:\n                    digits, exponent = digits2, exponent2", new="                if float(lhs) >= float(rhs):\n                    digits, exponent = digits2, exponent2",
  expect='fire:W-R5:to_digits_exp')
V(id='c08-benign-exact-exit-earlier', prop='C08', file='mpmath/libmp/libmpf.py',
  old="            if wp > 4*(bc + 4*abs(b) + bitprec):", new="            if wp > 8*(bc + 4*abs(b) + bitprec):", expect='silent')

V(id='c08-numeral-trusts-size-hint', prop='C08', file='mpmath/libmp/libintmath.py',
  old="    bc = bitcount(n)\n    if bc > 3000:\n        size = max(size, int(bc / math.log(base, 2)) + 1)\n", new="",
  expect='fire:W-R6:numeral_python')
V(id='c08-numeral-size-correction-too-late', prop='C08', file='mpmath/libmp/libintmath.py',
  old="    if bc > 3000:\n        size = max(size, int(bc / math.log(base, 2)) + 1)\n", new="    if bc > 30000:\n        size = max(size, int(bc / math.log(base, 2)) + 1)\n",
  expect='fire:W-R6:numeral_python')

# ---- seeding round 6: C-R2x, C-R17 (rectangles), re-rounded operand of `in` ----
V(id='c14-percent-halfwidth-from-upper-only', prop='C14', file='mpmath/libmp/libmpi.py',
  old="        y = mpf_mul(MAX(mpf_abs(xa), mpf_abs(xb)), y, wp, round_ceiling)", new="        y = mpf_mul(mpf_abs(xb), y, wp, round_ceiling)",
  expect='fire:C-R2x:mpi_from_str_a_b')
V(id='c14-benign-percent-halfwidth-max-swapped', prop='C14', file='mpmath/libmp/libmpi.py',
  old="        y = mpf_mul(MAX(mpf_abs(xa), mpf_abs(xb)), y, wp, round_ceiling)", new="        y = mpf_mul(MAX(mpf_abs(xb), mpf_abs(xa)), y, wp, round_ceiling)",
  expect='silent')
V(id='c15-gamma-strip-one', prop='C15', file='mpmath/libmp/libmpi.py',
  old="gamma_mono_imag_a = from_float(-1.1)\ngamma_mono_imag_b = from_float(1.1)", new="gamma_mono_imag_a = fnone\ngamma_mono_imag_b = fone",
  expect='fire:C-R17')
V(id='c15-benign-gamma-strip-wider', prop='C15', file='mpmath/libmp/libmpi.py',
  old="gamma_mono_imag_a = from_float(-1.1)\ngamma_mono_imag_b = from_float(1.1)", new="gamma_mono_imag_a = from_float(-1.25)\ngamma_mono_imag_b = from_float(1.25)",
  expect='silent')
V(id='c16-contains-rerounded-container', prop='C16', file='mpmath/ctx_iv.py',
  old="        return (self.a <= t.a) and (t.b <= self.b)", new="        s = +self\n        return (s.a <= t.a) and (t.b <= s.b)",
  expect='fire:F-R4:__contains__')

# ---- C29 R-R5 / R-P3 (fixes 107cd1c, fa53b7d) ----
V(id='c29-mnewton-stationary-exit-without-yield', prop='C29', file='mpmath/calculus/optimization.py',
  old="                # rounding noise and x cannot be improved\n                yield x, self.ctx.zero\n                break",
  new="                # rounding noise and x cannot be improved\n                break", expect='fire:R-R5:MNewton')
V(id='c29-mnewton-combined-denominator-unguarded', prop='C29', file='mpmath/calculus/optimization.py',
  old="            d = dfx - fx * d2fx / dfx\n            if d == 0:\n                # likewise: all of f, f', f'' are rounding noise\n                yield x, self.ctx.zero\n                break\n            x -= fx / d",
  new="            x -= fx / (dfx - fx * d2fx / dfx)", expect='fire:R-R5:MNewton')
V(id='c29-polyroots-no-exact-real-key', prop='C29', file='mpmath/calculus/polynomials.py',
  old="        order = sorted(range(deg), key=lambda i: (ctx._im(roots[i]) != 0,\n            imrank[i], rerank[i],", new="        order = sorted(range(deg), key=lambda i: (\n            imrank[i], rerank[i],",
  expect='fire:R-P3:polyroots')
V(id='c29-polyroots-reals-last', prop='C29', file='mpmath/calculus/polynomials.py',
  old="        order = sorted(range(deg), key=lambda i: (ctx._im(roots[i]) != 0,", new="        order = sorted(range(deg), key=lambda i: (ctx._im(roots[i]) == 0,",
  expect='fire:R-P3:polyroots')

# ---- C24 T-R13 (seed C24-9) ----
V(id='c24-theta3a-tolerance-from-vanishing-term', prop='C24', file='mpmath/functions/theta.py',
  old="    s = term = n**nd * a\n    if n != 0:\n        eps1 = ctx.eps*abs(term)\n    else:\n        eps1 = ctx.eps*abs(a)\n",
  new="    s = term = n**nd * a\n    eps1 = ctx.eps*abs(term)\n", expect='fire:T-R13:_djacobi_theta3a')

# ---- C11 (fixes af6cc8e, 8507fea) ----
V(id='c11-set-prec-store-before-conversion', prop='C11', file='mpmath/ctx_mp_python.py',
  old="        prec, dps = max(1, int(n)), prec_to_dps(n)\n        ctx._prec = ctx._prec_rounding[0] = prec\n        ctx._dps = dps\n",
  new="        ctx._prec = ctx._prec_rounding[0] = max(1, int(n))\n        ctx._dps = prec_to_dps(n)\n", expect='fire:A-R6:_set_prec')
V(id='c11-rule-object-step-unprotected', prop='C11', file='mpmath/calculus/inverselaplace.py',
  old="    @_precision_safe\n    def calc_time_domain_solution(self,fp,t,manual_prec=False):\n        r\"\"\"The fixed Talbot",
  new="    def calc_time_domain_solution(self,fp,t,manual_prec=False):\n        r\"\"\"The fixed Talbot", expect='fire:A-R8')
V(id='c11-enter-failure-keeps-stack-entry', prop='C11', file='mpmath/ctx_mp.py',
  old="        except:\n            # __exit__ is not called when __enter__ fails\n            self.ctx.prec = self.origp.pop()\n            raise\n",
  new="        except:\n            raise\n", expect='fire:A-R4')

# ---- C34 O-R10 (fix 2f2fe9f) ----
V(id='c34-no-residual-test', prop='C34', file='mpmath/calculus/odes.py',
  old="        if res*radius <= (n+1)*tol:\n            break\n", new="        break\n",
  expect='fire:O-R10:ode_taylor')

# ---- C34 O-R12 / O-R13 / O-R14, O-R5 snapshots (third hunt; fixes 3084d25, ae0610f, de71400) ----
V(id='c34-first-segment-at-caller-precision', prop='C34', file='mpmath/calculus/odes.py',
  old="    orig = ctx.prec\n    try:\n        ctx.prec = workprec\n        ser, xb = ode_taylor(ctx, F, x0, y0, tol_prec, degree)\n    finally:\n        ctx.prec = orig\n",
  new="    ser, xb = ode_taylor(ctx, F, x0, y0, tol_prec, degree)\n", expect='fire:O-R12:odefun')
V(id='c34-first-segment-before-precision-set', prop='C34', file='mpmath/calculus/odes.py',
  old="        ctx.prec = workprec\n        ser, xb = ode_taylor(ctx, F, x0, y0, tol_prec, degree)\n",
  new="        ser, xb = ode_taylor(ctx, F, x0, y0, tol_prec, degree)\n        ctx.prec = workprec\n", expect='fire:O-R12:odefun')
V(id='c34-first-segment-other-precision', prop='C34', file='mpmath/calculus/odes.py',
  old="        ctx.prec = workprec\n        ser, xb = ode_taylor(ctx, F, x0, y0, tol_prec, degree)\n",
  new="        ctx.prec = tol_prec\n        ser, xb = ode_taylor(ctx, F, x0, y0, tol_prec, degree)\n", expect='fire:O-R12:odefun')
V(id='c34-benign-first-segment-with-temp', prop='C34', file='mpmath/calculus/odes.py',
  old="        ctx.prec = workprec\n        ser, xb = ode_taylor(ctx, F, x0, y0, tol_prec, degree)\n",
  new="        ctx.prec = workprec\n        first = ode_taylor(ctx, F, x0, y0, tol_prec, degree)\n        ser, xb = first\n", expect='silent')
V(id='c34-workprec-ignores-tolerance', prop='C34', file='mpmath/calculus/odes.py',
  old="    workprec = max(ctx.prec, tol_prec) + 40\n", new="    workprec = ctx.prec + 40\n", expect='fire:O-R13:odefun')
V(id='c34-workprec-min', prop='C34', file='mpmath/calculus/odes.py',
  old="    workprec = max(ctx.prec, tol_prec) + 40\n", new="    workprec = min(ctx.prec, tol_prec) + 40\n", expect='fire:O-R13:odefun')
V(id='c34-benign-workprec-sum', prop='C34', file='mpmath/calculus/odes.py',
  old="    workprec = max(ctx.prec, tol_prec) + 40\n", new="    workprec = ctx.prec + tol_prec + 20\n", expect='silent')
V(id='c34-halving-absolute-exit-only', prop='C34', file='mpmath/calculus/odes.py',
  old="        if prev is not None and n > 2 and ctx.ldexp(res, (n+1)//2) > prev:\n            if floor is not None:\n                radius = floor\n                break\n            floor = radius\n        else:\n            floor = None\n",
  new="", expect='fire:O-R14:ode_taylor')
V(id='c34-halving-second-exit-still-absolute', prop='C34', file='mpmath/calculus/odes.py',
  old="        if prev is not None and n > 2 and ctx.ldexp(res, (n+1)//2) > prev:\n            if floor is not None:\n                radius = floor\n                break\n            floor = radius\n        else:\n            floor = None\n",
  new="        if res <= 4*(n+1)*tol:\n            break\n", expect='fire:O-R14:ode_taylor')
V(id='c34-benign-halving-single-verdict', prop='C34', file='mpmath/calculus/odes.py',
  old="            if floor is not None:\n                radius = floor\n                break\n            floor = radius\n        else:\n            floor = None\n",
  new="            break\n", expect='silent')
V(id='c34-snapshot-taken-before-fold', prop='C34', file='mpmath/calculus/odes.py',
  edits=[("    radius = ctx.one\n    for ts in ser:\n", "    radius = ctx.one\n    floor = radius\n    for ts in ser:\n"),
         ("    prev = floor = None\n", "    prev = None\n")],
  expect='fire:O-R5:ode_taylor')
V(id='c34-snapshot-enlarged', prop='C34', file='mpmath/calculus/odes.py',
  old="            floor = radius\n        else:", new="            floor = 2*radius\n        else:", expect='fire:O-R5:ode_taylor')

# ---- C33 second hunt: D-R1g, D-R6h, D-LU2, D-R9 (fixes 07fa107, 1bf5546, b3ffa72, 5c4565b) ----
V(id='c33-gamma-table-terms-of-requested-prec', prop='C33', file='mpmath/libmp/gammazeta.py',
  old="        prec = int(prec * 1.2)\n        N = int(prec**0.787 + 2)\n", new="        prec = int(prec * 1.2)\n",
  expect='fire:D-R1g:gamma_taylor_coefficients')
V(id='c33-gamma-table-terms-recomputed-too-early', prop='C33', file='mpmath/libmp/gammazeta.py',
  old="        prec = int(prec * 1.2)\n        N = int(prec**0.787 + 2)\n", new="        N = int(prec**0.787 + 2)\n        prec = int(prec * 1.2)\n",
  expect='fire:D-R1g:gamma_taylor_coefficients')
V(id='c33-benign-gamma-table-terms-after-block', prop='C33', file='mpmath/libmp/gammazeta.py',
  old="        prec = int(prec * 1.2)\n        N = int(prec**0.787 + 2)\n\n    wp = prec + 20\n",
  new="        prec = int(prec * 1.2)\n    N = int(prec**0.787 + 2) if prec > 1000 else N\n\n    wp = prec + 20\n",
  expect='silent')
V(id='c33-memoize-hit-plus-unguarded', prop='C33', file='mpmath/ctx_base.py',
  old="                    try:\n                        return +cvalue\n                    except TypeError:\n                        # not a number (e.g. a tuple of results)\n                        return cvalue\n",
  new="                    return +cvalue\n",
  expect='fire:D-R6h:f_cached')
V(id='c33-memoize-hit-handler-reraises', prop='C33', file='mpmath/ctx_base.py',
  old="                        # not a number (e.g. a tuple of results)\n                        return cvalue\n",
  new="                        raise\n",
  expect='fire:D-R6h:f_cached')
V(id='c33-benign-memoize-hit-plain', prop='C33', file='mpmath/ctx_base.py',
  old="                    try:\n                        return +cvalue\n                    except TypeError:\n                        # not a number (e.g. a tuple of results)\n                        return cvalue\n",
  new="                    return cvalue\n",
  expect='silent')
V(id='c33-lu-hit-returns-cached-pair', prop='C33', file='mpmath/matrices/linalg.py',
  old="            LU, p = A._LU\n            return LU.copy(), p[:]\n", new="            return A._LU\n",
  expect='fire:D-LU2:LU_decomp')
V(id='c33-lu-hit-returns-cached-matrix', prop='C33', file='mpmath/matrices/linalg.py',
  old="            return LU.copy(), p[:]\n", new="            return LU, p[:]\n",
  expect='fire:D-LU2:LU_decomp')
V(id='c33-lu-store-shares-result', prop='C33', file='mpmath/matrices/linalg.py',
  old="            orig._LU = (A.copy(), p[:])\n", new="            orig._LU = (A, p)\n",
  expect='fire:D-LU2:LU_decomp')
V(id='c33-benign-lu-hit-list-copy', prop='C33', file='mpmath/matrices/linalg.py',
  old="            return LU.copy(), p[:]\n", new="            return LU.copy(), list(p)\n",
  expect='silent')
V(id='c33-invlap-shared-rule-object', prop='C33', file='mpmath/calculus/inverselaplace.py',
  old="                rule = Stehfest(ctx)\n", new="                rule = ctx._stehfest\n",
  expect='fire:D-R9:invertlaplace')
V(id='c33-invlap-shared-default-rule', prop='C33', file='mpmath/calculus/inverselaplace.py',
  old="                rule = deHoog(ctx)\n", new="                rule = ctx._de_hoog\n",
  expect='fire:D-R9:invertlaplace')

# ---- C35 second hunt: Q-R9..Q-R13 (fixes 9b1c656, 171b123, 822a8af, 3affd12, 6fd511d) ----
V(id='c35-pslq-no-recheck', prop='C35', file='mpmath/identification.py',
  old="                if max(abs(v) for v in vec) < maxcoeff and \\\n                    abs(sum(v*xk for (v, xk) in zip(vec, x[1:]))) <= \\\n                        ((tol*xnorm) >> prec):\n",
  new="                if max(abs(v) for v in vec) < maxcoeff:\n",
  expect='fire:Q-R9:pslq')
V(id='c35-pslq-recheck-on-y', prop='C35', file='mpmath/identification.py',
  old="zip(vec, x[1:]))) <= \\\n", new="zip(vec, y[1:]))) <= \\\n",
  expect='fire:Q-R9:pslq')
V(id='c35-pslq-recheck-without-norm', prop='C35', file='mpmath/identification.py',
  old="                        ((tol*xnorm) >> prec):\n", new="                        tol:\n",
  expect='fire:Q-R9:pslq')
V(id='c35-pslq-recheck-norm-after-normalisation', prop='C35', file='mpmath/identification.py',
  old="    t = xnorm = s[1]\n", new="    t = s[1]\n    xnorm = 1 << prec\n",
  expect='fire:Q-R9:pslq')
V(id='c35-pslq-y-aliases-x', prop='C35', file='mpmath/identification.py',
  old="    y = x[:]\n", new="    y = x\n",
  expect='fire:Q-R9:pslq')
V(id='c35-benign-pslq-recheck-strict', prop='C35', file='mpmath/identification.py',
  old="zip(vec, x[1:]))) <= \\\n", new="zip(vec, x[1:]))) < \\\n",
  expect='silent')
V(id='c35-pslq-unscaled-input', prop='C35', file='mpmath/identification.py',
  old="    if scale:\n        x = [ctx.ldexp(xk, -max(scale)) for xk in x]\n", new="",
  expect='fire:Q-R10:pslq')
V(id='c35-pslq-raw-small-entry-guard', prop='C35', file='mpmath/identification.py',
  old="    if (minx << prec) // xnorm < tol//100:\n", new="    if minx < tol//100:\n",
  expect='fire:Q-R10:pslq')
V(id='c35-identify-unverified-formula', prop='C35', file='mpmath/identification.py',
  old="            if not abs(v - x) <= 100*tol*max(1, abs(x)):\n                return False\n", new="            pass\n",
  expect='fire:Q-R11:identify')
V(id='c35-identify-zero-division-accepted', prop='C35', file='mpmath/identification.py',
  old="        except (ArithmeticError, ValueError, NameError, SyntaxError,\n                TypeError):\n            return False\n",
  new="        except (ArithmeticError, ValueError, NameError, SyntaxError,\n                TypeError):\n            pass\n",
  expect='fire:Q-R11:identify')
V(id='c35-identify-return-unconditional', prop='C35', file='mpmath/identification.py',
  old="                if addsolution(s) and not full:\n                    return solutions[0]\n",
  new="                addsolution(s)\n                if not full:\n                    return solutions[0]\n",
  expect='fire:Q-R11:identify')
V(id='c35-identify-python-int-literals', prop='C35', file='mpmath/identification.py',
  old="            v = eval(_int_literals.sub(r'mpf(\\1)', text), names)\n", new="            v = eval(text, names)\n",
  expect='fire:Q-R11:identify')
V(id='c35-findpoly-rounded-powers', prop='C35', file='mpmath/identification.py',
  old="            ctx.prec = orig + 60\n            xs.append(x**i)\n", new="            xs.append(x**i)\n",
  expect='fire:Q-R12:findpoly')
V(id='c35-findpoly-few-guard-bits', prop='C35', file='mpmath/identification.py',
  old="            ctx.prec = orig + 60\n            xs.append(x**i)\n", new="            ctx.prec = orig + 5\n            xs.append(x**i)\n",
  expect='fire:Q-R12:findpoly')
V(id='c35-pslq-rounds-entries', prop='C35', file='mpmath/identification.py',
  old="    x = [ctx.convert(xk) for xk in x]\n", new="    x = [ctx.mpf(xk) for xk in x]\n",
  expect='fire:Q-R12:pslq')
V(id='c35-prodstring-falls-off', prop='C35', file='mpmath/identification.py',
  old="    if den: return \"1/(%s)\" % den\n    return '1'\n", new="    if den: return \"1/(%s)\" % den\n",
  expect='fire:Q-R13:prodstring')

# ---- C14 second hunt pass 2: C-R19 exact-table pass-through, C-R20 atan2 corners (fixes 7d559d3, 474e06b, a0650c6) ----
V(id='c14-outward-short-value-taken-as-exact', prop='C14', file='mpmath/libmp/libmpi.py',
  old="    if not man:\n        return v\n    if bool(sign)",
  new="    if not man:\n        return v\n    if exact_at_integers and args[0][2] >= 0 and bc <= prec:\n        return v\n    if bool(sign)",
  expect='fire:C-R19:mpf_outward')
V(id='c14-outward-exact-bound-beyond-table', prop='C14', file='mpmath/libmp/libmpi.py',
  old="            (man << exp) < SMALL_FACTORIAL_CACHE_SIZE:\n", new="            (man << exp) < 200:\n",
  expect='fire:C-R19:mpf_outward')
V(id='c14-outward-exact-for-negative-integers', prop='C14', file='mpmath/libmp/libmpi.py',
  old="        if man and not sign and exp >= 0 and exp + bc < 9 and \\\n", new="        if man and exp >= 0 and exp + bc < 9 and \\\n",
  expect='fire:C-R19:mpf_outward')
V(id='c14-outward-exact-flag-for-loggamma', prop='C14', file='mpmath/libmp/libmpi.py',
  old="            c = mpf_outward(mpf_loggamma, (a,), prec, round_floor)\n            d = mpf_outward(mpf_loggamma, (b,), prec, round_ceiling)\n    # decreasing",
  new="            c = mpf_outward(mpf_loggamma, (a,), prec, round_floor, True)\n            d = mpf_outward(mpf_loggamma, (b,), prec, round_ceiling)\n    # decreasing",
  expect='fire:C-R19:mpf_outward')
V(id='c14-gamma-table-reciprocal-not-directed', prop='C14', file='mpmath/libmp/gammazeta.py',
  old="                return mpf_div(fone, small_factorial_cache[n-1], prec, rnd)\n",
  new="                return mpf_div(fone, small_factorial_cache[n-1], prec)\n",
  expect='fire:C-R19:mpf_outward')
V(id='c14-benign-outward-no-exact-shortcut', prop='C14', file='mpmath/libmp/libmpi.py',
  old="            (man << exp) < SMALL_FACTORIAL_CACHE_SIZE:\n            return f(*(args + (prec, rounding)))\n",
  new="            (man << exp) < SMALL_FACTORIAL_CACHE_SIZE:\n            pass\n",
  expect='silent')
V(id='c14-atan2-origin-corner-not-handled', prop='C14', file='mpmath/libmp/libmpi.py',
  old="        if ya == fzero and xb == fzero:\n            # the corner is the origin, where atan2 is 0\n            a = fzero\n        elif mpf_le(xb, fzero):\n",
  new="        if mpf_le(xb, fzero):\n",
  expect='fire:C-R20:mpi_atan2')
V(id='c14-atan2-upper-halfplane-upper-corner', prop='C14', file='mpmath/libmp/libmpi.py',
  old="        b = mpf_outward(mpf_atan2, (ya, xa), prec, round_ceiling)\n", new="        b = mpf_outward(mpf_atan2, (yb, xa), prec, round_ceiling)\n",
  expect='fire:C-R20:mpi_atan2')
V(id='c14-atan2-right-halfplane-lower-corner', prop='C14', file='mpmath/libmp/libmpi.py',
  old="            a = mpf_outward(mpf_atan2, (ya, xb), prec, round_floor)\n        else:\n            a = mpf_outward(mpf_atan2, (ya, xa), prec, round_floor)\n",
  new="            a = mpf_outward(mpf_atan2, (ya, xa), prec, round_floor)\n        else:\n            a = mpf_outward(mpf_atan2, (ya, xa), prec, round_floor)\n",
  expect='fire:C-R20:mpi_atan2')
V(id='c14-atan2-lower-halfplane-touching-axis', prop='C14', file='mpmath/libmp/libmpi.py',
  old="    elif mpf_lt(yb, fzero):\n        a = mpf_outward(mpf_atan2, (yb, xa), prec, round_floor)\n",
  new="    elif mpf_le(yb, fzero):\n        a = mpf_outward(mpf_atan2, (yb, xa), prec, round_floor)\n",
  expect='fire:C-R20:mpi_atan2')
V(id='c14-atan2-real-line-mixed-signs-only-pi', prop='C14', file='mpmath/libmp/libmpi.py',
  old="        return fzero, mpf_pi(prec, round_ceiling)\n", new="        return mpi_pi(prec)\n",
  expect='fire:C-R20:mpi_atan2')
V(id='c14-atan2-pi-rounded-down-as-upper', prop='C14', file='mpmath/libmp/libmpi.py',
  old="        b = mpf_pi(prec, round_ceiling)\n        a = mpf_neg(b)\n", new="        b = mpf_pi(prec, round_floor)\n        a = mpf_neg(b)\n",
  expect='fire:C-R20:mpi_atan2')
V(id='c14-benign-atan2-origin-corner-full-circle', prop='C14', file='mpmath/libmp/libmpi.py',
  old="            # the corner is the origin, where atan2 is 0\n            a = fzero\n",
  new="            # the corner is the origin, where atan2 is 0\n            a = mpf_neg(mpf_pi(prec, round_ceiling))\n",
  expect='silent')
V(id='c14-benign-atan2-endpoints-renamed', prop='C14', file='mpmath/libmp/libmpi.py',
  edits=[("    ya, yb = y\n    xa, xb = x\n    # Constrained to the real line\n    if ya == yb == fzero:\n        if mpf_ge(xa, fzero):\n            return mpi_zero\n        if mpf_lt(xb, fzero):\n",
          "    ya, yb = y\n    xlo, xb = x\n    xa = xlo\n    # Constrained to the real line\n    if ya == yb == fzero:\n        if mpf_ge(xa, fzero):\n            return mpi_zero\n        if mpf_lt(xb, fzero):\n")],
  expect='analysis-error')
V(id='c14-convert-no-rationals', prop='C14', file='mpmath/ctx_iv.py',
  old="    if hasattr(x, '_mpq_'):\n        p, q = x._mpq_\n        return from_rational(p, q, prec, rounding)\n    if isinstance(x, numbers.Rational): # e.g. Fraction\n        return from_rational(x.numerator, x.denominator, prec, rounding)\n",
  new="",
  expect='fire:C-R6:convert_mpf_')
V(id='c14-convert-rational-undirected', prop='C14', file='mpmath/ctx_iv.py',
  old="        return from_rational(x.numerator, x.denominator, prec, rounding)\n", new="        return from_rational(x.numerator, x.denominator, prec)\n",
  expect='fire:C-R6:convert_mpf_')

# ---- C38 second hunt: X-R3c, X-R10, X-R11 (fixes 12b81df, 0304f79) ----
V(id='c38-rs-lazy-pi-in-borrowed-data', prop='C38', file='mpmath/functions/rszeta.py',
  old="    pipower[1] = +ctx.pi\n", new="    pipower[1] = ctx.pi\n",
  expect='fire:X-R10:_coef')
V(id='c38-rs-returns-lazy-constant', prop='C38', file='mpmath/functions/rszeta.py',
  old="    return [newJ, neweps6, c, pipower]\n", new="    return [newJ, neweps6, c, pipower, ctx.euler]\n",
  expect='fire:X-R10:_coef')
V(id='c38-rs-borrowed-trap-complex', prop='C38', file='mpmath/functions/rszeta.py',
  old="        ctx._mp.trap_complex = False\n        data = _coef(ctx._mp, J, eps)\n", new="        data = _coef(ctx._mp, J, eps)\n",
  expect='fire:X-R11:coef')
V(id='c38-rs-trap-complex-not-restored', prop='C38', file='mpmath/functions/rszeta.py',
  old="        ctx._mp.prec = orig\n        ctx._mp.trap_complex = trap\n", new="        ctx._mp.prec = orig\n",
  expect='fire:X-R11:coef')
V(id='c38-clone-forgets-trap-complex', prop='C38', file='mpmath/ctx_mp.py',
  old="        a.trap_complex = ctx.trap_complex\n", new="",
  expect='fire:X-R3c:clone')
V(id='c38-clone-forgets-pretty', prop='C38', file='mpmath/ctx_mp.py',
  old="        a.pretty = ctx.pretty\n", new="",
  expect='fire:X-R3c:clone')
V(id='c38-benign-rs-pi-evaluated-by-product', prop='C38', file='mpmath/functions/rszeta.py',
  old="    pipower[1] = +ctx.pi\n", new="    pipower[1] = ctx.pi*ctx.one\n",
  expect='silent')

# ---- C37 second hunt: Y-R8 bitcount arguments, Y-R9 effective parameters (fixes ce0e1c4.., dcf69ae) ----
V(id='c37-cospi-bitcount-of-negative-remainder', prop='C37', file='mpmath/libmp/libelefun.py',
  old="        mag2 = bitcount(abs(man)) + exp\n", new="        mag2 = bitcount(man) + exp\n",
  expect='fire:Y-R8:mpf_cos_sin')
V(id='c37-cospi-bitcount-of-exponent', prop='C37', file='mpmath/libmp/libelefun.py',
  old="        mag2 = bitcount(abs(man)) + exp\n", new="        mag2 = bitcount(abs(man)) + exp + bitcount(exp) - bitcount(exp)\n",
  expect='fire:Y-R8:mpf_cos_sin')
V(id='c37-mpf-add-difference-not-negated', prop='C37', file='mpmath/libmp/libmpf.py',
  old="            if man >= 0:\n                ssign = 0\n            else:\n                man = -man\n                ssign = 1\n        bc = bitcount(man)\n        return normalize(ssign, man, texp, bc, prec or bc, rnd)\n",
  new="            if man >= 0:\n                ssign = 0\n            else:\n                ssign = 1\n        bc = bitcount(man)\n        return normalize(ssign, abs(man), texp, bc, prec or bc, rnd)\n",
  expect='fire:Y-R8:mpf_add')
V(id='c37-benign-cospi-conditional-negation', prop='C37', file='mpmath/libmp/libelefun.py',
  old="        mag2 = bitcount(abs(man)) + exp\n", new="        mag2 = bitcount(-man if man < 0 else man) + exp\n",
  expect='silent')
V(id='c37-benign-cospi-negate-first', prop='C37', file='mpmath/libmp/libelefun.py',
  old="        mag2 = bitcount(abs(man)) + exp\n", new="        aman = man\n        if aman < 0:\n            aman = -aman\n        mag2 = bitcount(aman) + exp\n",
  expect='silent')
V(id='c37-numeral-gmpy-ignores-alphabet', prop='C37', file='mpmath/libmp/libintmath.py',
  old="    if digits != stddigits or base > 36:\n        return numeral_python(n, base, size, digits)\n", new="",
  expect='fire:Y-R9:numeral_gmpy')
V(id='c37-gmpy-mul-int-ignores-rounding', prop='C37', file='mpmath/libmp/libmpf.py',
  edits=[("        return mpf_mul(s, from_int(n), prec, rnd)\n", "        return mpf_mul(s, from_int(n), prec, round_nearest)\n"),
         ("    return normalize(sign, man, exp, bitcount(man), prec, rnd)\n", "    return normalize(sign, man, exp, bitcount(man), prec, round_nearest)\n")],
  expect='fire:Y-R9:gmpy_mpf_mul_int')

# ---- C13 third hunt: E-X4 powm1 re-examines a zero of the summation (fixes a043bdb, 3eacf38) ----
V(id='c13-powm1-returns-summation-directly', prop='C13', file='mpmath/functions/functions.py',
  old="    w = ctx.sum_accurately(lambda: iter([x**y, -1]), 1)\n", new="    return ctx.sum_accurately(lambda: iter([x**y, -1]), 1)\n    w = 0\n",
  expect='fire:E-X4:powm1')
V(id='c13-powm1-zero-not-reexamined', prop='C13', file='mpmath/functions/functions.py',
  old="    if not w and ctx.isint(y):\n        n = abs(int(y))\n", new="    if False and ctx.isint(y):\n        n = abs(int(y))\n",
  expect='fire:E-X4:powm1')
V(id='c13-powm1-exact-path-fixed-precision', prop='C13', file='mpmath/functions/functions.py',
  old="                ctx.prec = max(orig, n*(span+2)) + 10\n", new="                ctx.prec = 2*orig + 10\n",
  expect='fire:E-X4:powm1')
V(id='c13-powm1-exact-path-ignores-exponent', prop='C13', file='mpmath/functions/functions.py',
  old="                ctx.prec = max(orig, n*(span+2)) + 10\n", new="                ctx.prec = max(orig, span+2) + 10\n",
  expect='fire:E-X4:powm1')
V(id='c13-powm1-exact-value-discarded', prop='C13', file='mpmath/functions/functions.py',
  old="                w = p - one\n                if y < 0:\n                    w = -w/p\n", new="                v = p - one\n                if y < 0:\n                    v = -v/p\n",
  expect='fire:E-X4:powm1')
V(id='c13-benign-powm1-exact-path-more-bits', prop='C13', file='mpmath/functions/functions.py',
  old="                ctx.prec = max(orig, n*(span+2)) + 10\n", new="                ctx.prec = max(orig, n*(span+2)) + 30\n",
  expect='silent')

# ---- C40 second hunt: P-R6 / P-R3 constants copy and pickle by name (fix 95ee6d3) ----
V(id='c40-constant-no-copy-hooks', prop='C40', file='mpmath/ctx_mp_python.py',
  old="    def __copy__(self):\n        return self\n\n    def __deepcopy__(self, memo):\n        return self\n\n    def __reduce__(self):", new="    def __reduce__(self):",
  expect='fire:P-R6:_constant')
V(id='c40-constant-reduce-rebuilds-value', prop='C40', file='mpmath/ctx_mp_python.py',
  old="        return (_constant_from_name, (self.name,))\n", new="        return (self.context.mpf, (self._mpf_,))\n",
  expect='fire:P-R3:_constant.__reduce__')
V(id='c40-constant-reduce-unguarded', prop='C40', file='mpmath/ctx_mp_python.py',
  old="        if _named_constants.get(self.name) is not self:\n", new="        if False:\n",
  expect='fire:P-R3:_constant.__reduce__')
V(id='c40-constant-registry-not-filled', prop='C40', file='mpmath/__init__.py',
  old="_ctx_mp_python._named_constants.update((c.name, c) for c in\n    list(mp.__dict__.values()) if isinstance(c, _ctx_mp_python._constant))\n", new="",
  expect='fire:P-R3:_constant.__reduce__')
V(id='c40-constant-deepcopy-new-object', prop='C40', file='mpmath/ctx_mp_python.py',
  old="    def __deepcopy__(self, memo):\n        return self\n", new="    def __deepcopy__(self, memo):\n        return self.context.mpf(self)\n",
  expect='fire:P-R3:_constant.__deepcopy__')

# ---- C01 E-R7: sign / mantissa arguments of the normalisers are non-negative (sa/intsign.py) ----
V(id='c01-from-man-exp-keeps-negative-mantissa', prop='C01', file='mpmath/libmp/libmpf.py',
  old="    if man < 0:\n        sign = 1\n        man = -man\n    if man < 1024:\n", new="    if man < 0:\n        sign = 1\n    if man < 1024:\n",
  expect='fire:E-R7:from_man_exp')
V(id='c01-mpf-add-equal-exponents-difference-unnegated', prop='C01', file='mpmath/libmp/libmpf.py',
  old="            else:\n                man = -man\n                ssign = 1\n        bc = bitcount(man)\n        return normalize(ssign, man, texp, bc, prec or bc, rnd)\n",
  new="            else:\n                ssign = 1\n        bc = bitcount(man)\n        return normalize(ssign, man, texp, bc, prec or bc, rnd)\n",
  expect='fire:E-R7:mpf_add')
V(id='c01-mpf-neg-sign-minus-one', prop='C01', file='mpmath/libmp/libmpf.py',
  old="    return normalize1(1-sign, man, exp, bc, prec, rnd)", new="    return normalize1(sign-1, man, exp, bc, prec, rnd)",
  expect='fire:E-R7:mpf_neg')
V(id='c01-benign-from-man-exp-abs', prop='C01', file='mpmath/libmp/libmpf.py',
  old="    if man < 0:\n        sign = 1\n        man = -man\n    if man < 1024:\n", new="    if man < 0:\n        sign = 1\n    man = abs(man)\n    if man < 1024:\n",
  expect='silent')

# ---- C07 second hunt: C-R7 enclosure of both literals, L-R2 separators (fixes bfcc401, 1134bc3) ----
V(id='c07-shared-prefix-upper-from-one-literal', prop='C07', file='mpmath/libmp/libmpi.py',
  old="            if mpf_gt(b2, b): b = b2\n", new="",
  expect='fire:C-R7:mpi_from_str')
V(id='c07-benign-shared-prefix-min-max-calls', prop='C07', file='mpmath/libmp/libmpi.py',
  old="            a = from_str(lower, prec, round_floor)\n            b = from_str(upper, prec, round_ceiling)\n            a2 = from_str(upper, prec, round_floor)\n            b2 = from_str(lower, prec, round_ceiling)\n            if mpf_lt(a2, a): a = a2\n            if mpf_gt(b2, b): b = b2\n",
  new="            a = MIN(from_str(lower, prec, round_floor), from_str(upper, prec, round_floor))\n            b = MAX(from_str(lower, prec, round_ceiling), from_str(upper, prec, round_ceiling))\n",
  expect='silent')
V(id='c07-long-string-cut-with-separators', prop='C07', file='mpmath/libmp/libmpf.py',
  old="        x = x.replace('_', '')\n    return sign * _digits_to_int(x, base)\n", new="        pass\n    return sign * _digits_to_int(x, base)\n",
  expect='fire:L-R2:str_to_int')
V(id='c07-long-string-piece-with-sign', prop='C07', file='mpmath/libmp/libmpf.py',
  old="    if not x or x[0] in '+-' or x[0].isspace() or x[-1].isspace():\n        raise ValueError(\"invalid literal for int(): %r\" % x[:30])\n    if len(x) <= 600:\n        return int(x, base)\n    half",
  new="    if len(x) <= 600:\n        return int(x, base)\n    half",
  expect='fire:L-R2:_digits_to_int')

# ---- C15 third hunt: C-R14c / C-R19c complex kernel corners through mpc_outward (fix 728ceda) ----
V(id='c15-gamma-corner-straight-from-kernel', prop='C15', file='mpmath/libmp/libmpi.py',
  old="        maxre = mpc_outward(mpc_loggamma, (a2,fzero), wp, round_ceiling, 0)\n", new="        maxre = mpc_loggamma((a2,fzero), wp, round_ceiling)[0]\n",
  expect='fire:C-R14c:mpci_gamma')
V(id='c15-mpc-outward-no-extra-bits', prop='C15', file='mpmath/libmp/libmpi.py',
  old="    outward by 2^10 units of that precision of the larger part before the\n    final rounding (compare mpf_outward).\n    \"\"\"\n    wp = prec + 20\n",
  new="    outward by 2^10 units of that precision of the larger part before the\n    final rounding (compare mpf_outward).\n    \"\"\"\n    wp = prec + 2\n",
  expect='fire:C-R19c:mpc_outward')
V(id='c15-mpc-outward-allowance-relative-to-own-part', prop='C15', file='mpmath/libmp/libmpi.py',
  old="    delta = (0, MPZ_ONE, max(mags) + 10 - wp, 1)\n", new="    delta = (0, MPZ_ONE, x[2] + x[3] + 10 - wp, 1)\n",
  expect='fire:C-R19c:mpc_outward')
V(id='c15-mpc-outward-allowance-inward', prop='C15', file='mpmath/libmp/libmpi.py',
  old="    if rounding == round_floor:\n        return mpf_sub(x, delta, prec, round_floor)\n    return mpf_add(x, delta, prec, round_ceiling)\n",
  new="    if rounding == round_floor:\n        return mpf_add(x, delta, prec, round_floor)\n    return mpf_sub(x, delta, prec, round_ceiling)\n",
  expect='fire:C-R19c:mpc_outward')
V(id='c15-mpc-outward-short-values-pass', prop='C15', file='mpmath/libmp/libmpi.py',
  old="    if not mags:\n        return x\n", new="    if not mags or x[3] <= prec:\n        return x\n",
  expect='fire:C-R19c:mpc_outward')
# ---- C15 C-R22 (fourth hunt; fix 7e680cc) ----
_C15_SPECIAL = ("    if [t for t in v if not t[1] and t[2]]:\n        # an infinite or undefined part (a corner at infinity): there is\n"
                "        # no bound in this direction\n        if rounding == round_floor:\n            return fninf\n        return finf\n")
V(id='c15-mpc-outward-special-part-passed-on', prop='C15', file='mpmath/libmp/libmpi.py',
  edits=[(_C15_SPECIAL, ""), ("    if not mags:\n        return x\n", "    if not mags or (not x[1] and x[2]):\n        return x\n")],
  expect='fire:C-R22:mpc_outward')
V(id='c15-mpc-outward-no-special-test', prop='C15', file='mpmath/libmp/libmpi.py',
  old=_C15_SPECIAL, new="", expect='fire:C-R22:mpc_outward')
V(id='c15-mpc-outward-infinite-bounds-swapped', prop='C15', file='mpmath/libmp/libmpi.py',
  old="        # no bound in this direction\n        if rounding == round_floor:\n            return fninf\n        return finf\n",
  new="        # no bound in this direction\n        if rounding == round_floor:\n            return finf\n        return fninf\n", expect='fire:C-R22:mpc_outward')
V(id='c15-mpc-outward-special-test-own-part-only', prop='C15', file='mpmath/libmp/libmpi.py',
  old="    if [t for t in v if not t[1] and t[2]]:\n", new="    if not x[1] and x[2]:\n", expect='silent')
V(id='c15-benign-mpc-outward-more-allowance', prop='C15', file='mpmath/libmp/libmpi.py',
  old="    delta = (0, MPZ_ONE, max(mags) + 10 - wp, 1)\n", new="    delta = (0, MPZ_ONE, max(mags) + 12 - wp, 1)\n",
  expect='silent')

# ---- C33 third hunt: D-R1h, D-R1i, D-LU3 (fixes f600a39, d02ed8e, 3aaf313, bfc92df) ----
V(id='c33-quad-node-key-without-types', prop='C33', file='mpmath/calculus/quadrature.py',
  old="        key = (a, b, type(a), type(b), degree, prec)\n", new="        key = (a, b, degree, prec)\n",
  expect='fire:D-R1h:get_nodes')
V(id='c33-quad-node-key-one-type-only', prop='C33', file='mpmath/calculus/quadrature.py',
  old="        key = (a, b, type(a), type(b), degree, prec)\n", new="        key = (a, b, type(a), degree, prec)\n",
  expect='fire:D-R1h:get_nodes')
V(id='c33-memoize-key-without-types', prop='C33', file='mpmath/ctx_base.py',
  old="            key = key, tuple(type(v) for v in args), \\\n                tuple(type(v) for v in kwargs.values())\n", new="",
  expect='fire:D-R1h:f_cached')
V(id='c33-memoize-key-keyword-types-missing', prop='C33', file='mpmath/ctx_base.py',
  old="            key = key, tuple(type(v) for v in args), \\\n                tuple(type(v) for v in kwargs.values())\n", new="            key = key, tuple(type(v) for v in args)\n",
  expect='fire:D-R1h:f_cached')
V(id='c33-stieltjes-equal-object-not-canonicalised', prop='C33', file='mpmath/functions/zeta.py',
  old="        # (also for a complex 1+0j: the value, and what is cached, is real)\n        a = ctx.one\n", new="",
  expect='fire:D-R1i:stieltjes')
V(id='c33-lu-cache-ignores-overwrite', prop='C33', file='mpmath/matrices/linalg.py',
  old="        if use_cache and not overwrite and isinstance(A, ctx.matrix) and \\\n", new="        if use_cache and isinstance(A, ctx.matrix) and \\\n",
  expect='fire:D-LU3:LU_decomp')
V(id='c33-benign-quad-node-key-types-first', prop='C33', file='mpmath/calculus/quadrature.py',
  old="        key = (a, b, type(a), type(b), degree, prec)\n", new="        key = (type(a), type(b), a, b, degree, prec)\n",
  expect='silent')

# ---- C38 seeding round 7: X-R12 unconverted matrix entries (seed C38-8) ----
V(id='c38-matrix-from-matrix-copies-dict', prop='C38', file='mpmath/matrices/matrices.py',
  old="            for i in xrange(A.__rows):\n                for j in xrange(A.__cols):\n                    self[i, j] = A[i, j]\n        elif hasattr(args[0], 'tolist'):",
  new="            self.__data = A._matrix__data.copy()\n        elif hasattr(args[0], 'tolist'):",
  expect='fire:X-R12:__init__')
V(id='c38-slice-assign-any-matrix-unconverted', prop='C38', file='mpmath/matrices/matrices.py',
  old="            if isinstance(value,self.ctx.matrix):\n                # Assign elements to matrix if input and output dimensions match",
  new="            if isinstance(value,_matrix):\n                # Assign elements to matrix if input and output dimensions match",
  expect='fire:X-R12:__setitem__')
V(id='c38-benign-matrix-from-matrix-same-context-fast', prop='C38', file='mpmath/matrices/matrices.py',
  old="            for i in xrange(A.__rows):\n                for j in xrange(A.__cols):\n                    self[i, j] = A[i, j]\n        elif hasattr(args[0], 'tolist'):",
  new="            if isinstance(A, self.ctx.matrix):\n                self.__data = A._matrix__data.copy()\n            else:\n                for i in xrange(A.__rows):\n                    for j in xrange(A.__cols):\n                        self[i, j] = A[i, j]\n        elif hasattr(args[0], 'tolist'):",
  expect='silent')

# ---- C35 seeding round 7: Q-R11 namespace fill (seed C35-6) ----
V(id='c35-identify-namespace-filled-only-when-empty', prop='C35', file='mpmath/identification.py',
  old="        if 'mpf' not in names:\n", new="        if not names:\n",
  expect='fire:Q-R11:identify')
V(id='c35-identify-namespace-never-filled', prop='C35', file='mpmath/identification.py',
  old="        if 'mpf' not in names:\n            for name in dir(ctx):\n                names.setdefault(name, getattr(ctx, name))\n", new="",
  expect='fire:Q-R11:identify')
V(id='c35-benign-identify-namespace-filled-always', prop='C35', file='mpmath/identification.py',
  old="        if 'mpf' not in names:\n            for name in dir(ctx):\n                names.setdefault(name, getattr(ctx, name))\n",
  new="        for name in dir(ctx):\n            names.setdefault(name, getattr(ctx, name))\n",
  expect='silent')

# ---- C07 / C08 seeding round 7: L-R3 text never through float() for its value (seed C08-4) ----
V(id='c07-string-fast-path-through-float', prop='C07', file='mpmath/ctx_mp_python.py',
  old="        if isinstance(x, basestring): return from_str(x, prec, rounding)\n",
  new="        if isinstance(x, basestring):\n            if prec == 53 and rounding == round_nearest:\n                try: f = float(x)\n                except ValueError: f = 0.0\n                if f and f - f == 0.0:\n                    return from_float(f)\n            return from_str(x, prec, rounding)\n",
  expect='fire:L-R3:mpf_convert_arg')
V(id='c08-string-fast-path-through-float', prop='C08', file='mpmath/ctx_mp_python.py',
  old="        if isinstance(x, basestring): return from_str(x, prec, rounding)\n",
  new="        if isinstance(x, basestring):\n            if prec == 53 and rounding == round_nearest:\n                try: f = float(x)\n                except ValueError: f = 0.0\n                if f and f - f == 0.0:\n                    return from_float(f)\n            return from_str(x, prec, rounding)\n",
  expect='fire:L-R3:mpf_convert_arg')
V(id='c07-str-to-man-exp-value-from-float', prop='C07', file='mpmath/libmp/libmpf.py',
  old="    # Verify that the input is a valid float literal\n    float(x)\n", new="    # Verify that the input is a valid float literal\n    approx = float(x)\n",
  expect='fire:L-R3:str_to_man_exp')

# ---- C39 second hunt: N-R9 exact rational branches (fix e5a5128) ----
V(id='c39-isint-fraction-rounded', prop='C39', file='mpmath/ctx_mp_python.py',
  old="        if isinstance(x, numbers.Rational): # e.g. Fraction: exactly\n            return x.denominator == 1\n", new="",
  expect='fire:N-R9:isint')
V(id='c39-isnpint-fraction-rounded', prop='C39', file='mpmath/ctx_mp.py',
  old="        if isinstance(x, numbers.Rational): # e.g. Fraction: exactly\n            return x.denominator == 1 and x.numerator <= 0\n", new="",
  expect='fire:N-R9:isnpint')
V(id='c39-nint-distance-fraction-rounded', prop='C39', file='mpmath/ctx_mp.py',
  old="        elif isinstance(x, numbers.Rational): # e.g. Fraction: exactly\n            return ctx.nint_distance(rational.mpq(x.numerator, x.denominator))\n", new="",
  expect='fire:N-R9:nint_distance')
# ---- C24 third hunt: T-R14 unbounded term generators (fix 9dd448e) ----
V(id='c24-primezeta-term-count-unbounded', prop='C24', file='mpmath/functions/zeta.py',
  old="        if wp > 10**6 * r:\n            raise ctx.NoConvergence(\"primezeta: re(s) is too close to 0, \"\n                \"about %i terms would be needed\" % int(wp/r))\n", new="",
  expect='fire:T-R14:primezeta')
V(id='c24-eulerpoly-loop-cap-dropped', prop='C24', file='mpmath/functions/zeta.py',
  old="            k += 1\n            if k > n:\n                break\n            t = t*z*(n-k+2)/k\n", new="            k += 1\n            t = t*z*(n-k+2)/k\n",
  expect='silent')
V(id='c24-polyexp-no-factorial-decay', prop='C24', file='mpmath/functions/functions.py',
  old="            k += 1\n            t = t*x/k\n    return ctx.sum_accurately(_terms, check_step=4)", new="            k += 1\n            t = t*x\n    return ctx.sum_accurately(_terms, check_step=4)",
  expect='fire:T-R14:_polyexp')

# ---- C16 third hunt: F-R13 exact rational operands (fix 1f12bfd) ----
V(id='c16-rational-operand-widened', prop='C16', file='mpmath/ctx_iv.py',
  old="        pq = s._rational(t)\n        if pq is not None:\n            # An exact rational p/q is not widened to an enclosure: the\n            # interval is scaled by q (exactly) and compared with p\n            p = from_int(pq[0])\n            return cmpfun(s._scaled(pq[1]), (p, p))\n", new="",
  expect='fire:F-R13:_compare')
V(id='c16-rational-scaling-rounded', prop='C16', file='mpmath/ctx_iv.py',
  old="        return libmp.mpf_mul(a, q), libmp.mpf_mul(b, q)\n", new="        return libmp.mpf_mul(a, q, 53, round_floor), libmp.mpf_mul(b, q, 53, round_ceiling)\n",
  expect='fire:F-R13:_scaled')
V(id='c16-rational-compare-reversed', prop='C16', file='mpmath/ctx_iv.py',
  old="            return cmpfun(s._scaled(pq[1]), (p, p))\n", new="            return cmpfun((p, p), s._scaled(pq[1]))\n",
  expect='fire:F-R13:_compare')
V(id='c16-rational-membership-one-sided', prop='C16', file='mpmath/ctx_iv.py',
  old="            return mpf_le(a, p) and mpf_le(p, b)\n", new="            return mpf_le(a, p)\n",
  expect='fire:F-R13:__contains__')

# ---- C43 third hunt: F-R14 asech side of the cut (fix ccf5cfa) ----
V(id='c43-asech-plain-reciprocal', prop='C43', file='mpmath/functions/functions.py',
  old="    if ctx._im(z) and not ctx._im(w):\n        v = ctx.acosh(ctx._re(w))\n        if ctx._im(z) > 0:\n            return ctx.conj(v)\n        return v\n    return ctx.acosh(w)\n", new="    return ctx.acosh(w)\n",
  expect='fire:F-R14:asech')
V(id='c43-asech-side-reversed', prop='C43', file='mpmath/functions/functions.py',
  old="        if ctx._im(z) > 0:\n            return ctx.conj(v)\n        return v\n", new="        if ctx._im(z) < 0:\n            return ctx.conj(v)\n        return v\n",
  expect='fire:F-R14:asech')

# ---- C35 third hunt: Q-R11 no accepting handler (fix 06d98b2) ----
V(id='c35-identify-name-error-accepts', prop='C35', file='mpmath/identification.py',
  old="        except (ArithmeticError, ValueError, NameError, SyntaxError,\n                TypeError):\n            return False\n",
  new="        except (ArithmeticError, ValueError):\n            return False\n        except (NameError, SyntaxError, TypeError):\n            pass\n",
  expect='fire:Q-R11:identify')

# ---- C14 fourth hunt: C-R21 tiny gamma arguments on the Stirling path (fix ee509ae); C13 E-X5 / E-X6 (seeds C13-10, C13-11) ----
V(id='c14-gamma-tiny-argument-to-fixed-point', prop='C14', file='mpmath/libmp/gammazeta.py',
  old="    if mag < -8 and wp >= MAX_GAMMA_TAYLOR_PREC:\n        x1 = mpf_add(x, fone)\n", new="    if False and mag < -8 and wp >= MAX_GAMMA_TAYLOR_PREC:\n        x1 = mpf_add(x, fone)\n",
  expect='fire:C-R21:mpf_gamma')
V(id='c14-gamma-tiny-argument-rounded-shift', prop='C14', file='mpmath/libmp/gammazeta.py',
  old="    if mag < -8 and wp >= MAX_GAMMA_TAYLOR_PREC:\n        x1 = mpf_add(x, fone)\n", new="    if mag < -8 and wp >= MAX_GAMMA_TAYLOR_PREC:\n        x1 = mpf_add(x, fone, wp)\n",
  expect='fire:C-R21:mpf_gamma')
V(id='c13-mod-pi2-bounded-escalation', prop='C13', file='mpmath/libmp/libelefun.py',
  old="        i = 0\n        while 1:\n            cancellation_prec = 20 << i\n", new="        for i in xrange(6):\n            cancellation_prec = 20 << i\n",
  expect='fire:E-X6:mod_pi2')
V(id='c13-sqrtrem-starts-below', prop='C13', file='mpmath/libmp/libintmath.py',
  old="    y = isqrt_fast_python(x) + 1\n", new="    y = isqrt_fast_python(x)\n",
  expect='fire:E-X5:sqrtrem_python')

# ---- C08 third hunt: L-R1 sees padded digit strings (fix 95687a7) ----
V(id='c08-digits-exp-int-of-padded-string', prop='C08', file='mpmath/libmp/libmpf.py',
  old="                N = str_to_int(digits2[:dps].ljust(dps, '0'))\n", new="                N = int(digits2[:dps].ljust(dps, '0'))\n",
  expect='fire:L-R1:to_digits_exp')

# ---- seeding round 9: A-R9, A-R10 (C11), B-R11, E-X1 ceiling (C10), F-R10 finding (C43), P-R1 unit Gaussian (C04) ----
V(id='c11-relative-change-by-half-integers', prop='C11', file='mpmath/functions/hypergeometric.py',
  edits=[("                ctx.prec += magz\n", "                ctx.prec += 3*magz/2\n"), ("            ctx.prec -= magz\n", "            ctx.prec -= 3*magz/2\n")],
  expect='fire:A-R9:_hyp1f1')
V(id='c11-benign-relative-change-floor-division', prop='C11', file='mpmath/functions/hypergeometric.py',
  edits=[("                ctx.prec += magz\n", "                ctx.prec += 3*magz//2\n"), ("            ctx.prec -= magz\n", "            ctx.prec -= 3*magz//2\n")],
  expect='silent')
V(id='c11-borrowed-context-snapshot-of-own', prop='C11', file='mpmath/functions/rszeta.py',
  old="    orig = ctx._mp.prec\n    trap = ctx._mp.trap_complex\n", new="    orig = ctx.prec\n    trap = ctx._mp.trap_complex\n",
  expect='fire:A-R10:coef')
V(id='c10-stieltjes-hit-unrounded', prop='C10', file='mpmath/functions/zeta.py',
  old="            if prec >= ctx.prec:\n                return +s\n", new="            if prec >= ctx.prec:\n                return s\n",
  expect='fire:B-R11:stieltjes')
V(id='c10-exact-nthroot-floor-size', prop='C10', file='mpmath/libmp/libelefun.py',
  old="    k = (bc + n - 1) // n\n", new="    k = bc // n\n",
  expect='fire:E-X1:exact_nthroot')
V(id='c13-exact-nthroot-floor-size', prop='C13', file='mpmath/libmp/libelefun.py',
  old="    k = (bc + n - 1) // n\n", new="    k = bc // n\n",
  expect='fire:E-X1:exact_nthroot')
V(id='c43-reduce-half-by-rounded-sum', prop='C43', file='mpmath/math2.py',
  old="    n, r = divmod(x, 0.5)\n    if r > 0.25:\n        r -= 0.5\n        n += 1\n    return n % 4, r\n", new="    n = math.floor(2.0*x + 0.5)\n    return n % 4, x - 0.5*n\n",
  expect='fire:F-R10:_reduce_half')
V(id='c04-unit-gaussian-power-through-log', prop='C04', file='mpmath/libmp/libmpc.py',
  old="    if not de and abs(aman) == 1 and abs(bman) == 1:\n", new="    if False:\n",
  expect='fire:P-R1:mpc_pow_int')

# ---- hunt batch 11: R-R6 (C29), X-R13 / K-R7 (C38, C17) ----
V(id='c29-inf-norm-drops-nan', prop='C29', file='mpmath/matrices/matrices.py',
  old="            v = [ctx.absmax(i) for i in x]\n            # (max() drops a nan unless it comes first)\n            for t in v:\n                if t != t:\n                    return t\n            return max(v)\n",
  new="            return max(ctx.absmax(i) for i in x)\n",
  expect='fire:R-R6:norm')
V(id='c29-mdnewton-nan-step-unguarded', prop='C29', file='mpmath/calculus/optimization.py',
  old="            if any(si != si for si in s):\n", new="            if False:\n",
  expect='fire:R-R6:MDNewton')
V(id='c38-iv-takes-foreign-constant-by-mpf', prop='C38', file='mpmath/ctx_iv.py',
  old="    if isinstance(x, _constant) and prec and not x.contextual:\n        return x.func(prec, rounding)\n", new="",
  expect='fire:X-R13:convert_mpf_')
V(id='c17-iv-takes-foreign-constant-by-mpf', prop='C17', file='mpmath/ctx_iv.py',
  old="    if isinstance(x, _constant) and prec and not x.contextual:\n        return x.func(prec, rounding)\n", new="",
  expect='fire:K-R7:convert_mpf_')
V(id='c38-mpf-own-constants-only', prop='C38', file='mpmath/ctx_mp_python.py',
  old="        if isinstance(x, _constant) and (not x.contextual or\n            isinstance(x, cls.context.constant)):\n", new="        if isinstance(x, cls.context.constant):\n",
  expect='fire:X-R13:mpf_convert_arg')
V(id='c10-polyval-constant-unrounded', prop='C10', file='mpmath/calculus/polynomials.py',
  old="    if len(coeffs) == 1:\n        # (a constant polynomial: the value is the coefficient, rounded)\n        p = +p\n", new="",
  expect='fire:B-R8p:polyval')

# ---- C38 X-R14 / C16 F-R15 / C17 K-R8 (fourth C16 hunt; fix ad677f0) ----
for _p, _r in (('C38', 'X-R14'), ('C16', 'F-R15'), ('C17', 'K-R8')):
    V(id='%s-eps-not-marked-contextual' % _p.lower(), prop=_p, file='mpmath/ctx_mp.py',
      old="        eps.contextual = True\n", new="", expect='fire:%s:init_builtins' % _r)
    V(id='%s-eps-evaluated-by-iv' % _p.lower(), prop=_p, file='mpmath/ctx_iv.py',
      old="    if isinstance(x, _constant) and prec and not x.contextual:\n", new="    if isinstance(x, _constant) and prec:\n",
      expect='fire:%s:convert_mpf_' % _r)
    V(id='%s-eps-evaluated-by-convert' % _p.lower(), prop=_p, file='mpmath/ctx_mp_python.py',
      old="        if isinstance(x, _constant) and not x.contextual:\n", new="        if isinstance(x, _constant):\n",
      expect='fire:%s:convert' % _r)
V(id='c38-eps-evaluated-by-mpf', prop='C38', file='mpmath/ctx_mp_python.py',
  old="        if isinstance(x, _constant) and (not x.contextual or\n            isinstance(x, cls.context.constant)):\n",
  new="        if isinstance(x, _constant):\n", expect='fire:X-R14:mpf_convert_arg')
V(id='c38-benign-eps-test-reordered', prop='C38', file='mpmath/ctx_iv.py',
  old="    if isinstance(x, _constant) and prec and not x.contextual:\n", new="    if prec and isinstance(x, _constant) and not x.contextual:\n",
  expect='silent')

# ---- C43 F-R16 / F-R17 (regressions of 493258d and 9e55673; fourth C13 hunt; fixes a55d7af, 86b2c3c) ----
V(id='c43-pi-shortcut-takes-infinity', prop='C43', file='mpmath/math2.py',
  old="        return 0, x - x\n", new="        return 0, 0.0\n", expect='fire:F-R16:_reduce_half')
V(id='c43-benign-pi-shortcut-isinf-guard', prop='C43', file='mpmath/math2.py',
  old="    if x >= 9007199254740992.0:\n        # an even integer (infinity: no value)\n        return 0, x - x\n",
  new="    if math.isinf(x):\n        return 0, x - x\n    if x >= 9007199254740992.0:\n        return 0, 0.0\n", expect='silent')
V(id='c43-cbrt-newton-at-infinity', prop='C43', file='mpmath/math2.py',
  old="    if y and not cmath.isinf(y):\n", new="    if y:\n", expect='fire:F-R17:_cbrt')
V(id='c43-benign-cbrt-newton-isfinite', prop='C43', file='mpmath/math2.py',
  old="    if y and not cmath.isinf(y):\n", new="    if y and cmath.isfinite(y):\n", expect='silent')
V(id='c43-nthroot-newton-unguarded', prop='C43', file='mpmath/math2.py',
  old="def nthroot(x, n):\n    r = 1./n\n    try:\n        return float(x) ** r\n",
  new="def nthroot(x, n):\n    r = 1./n\n    try:\n        y = float(x) ** r\n        if y:\n            y -= (y**n - x)/(n*y**(n-1))\n        return y\n",
  expect='fire:F-R17:nthroot')

# ---- C40 P-R7 (third hunt; fixes 769f5ee, cc67087) ----
V(id='c40-matrix-no-context-rebuild', prop='C40', file='mpmath/matrices/matrices.py',
  old="    def __reduce_ex__(self, protocol):\n", new="    def _unused_reduce_ex(self, protocol):\n", expect='fire:P-R7:_matrix')
V(id='c40-matrix-reduce-always-default', prop='C40', file='mpmath/matrices/matrices.py',
  old="                    return (_matrix_of_context, (name,), self.__dict__)\n", new="                    break\n", expect='fire:P-R7:_matrix')
V(id='c40-ivmpf-no-reduce', prop='C40', file='mpmath/ctx_iv.py',
  old="    def __reduce__(self):\n        return _iv_reduce(self, 'mpf', self._mpi_)\n\n", new="", expect='fire:P-R7:ivmpf')
V(id='c40-ivmpc-no-reduce', prop='C40', file='mpmath/ctx_iv.py',
  old="    def __reduce__(self):\n        return _iv_reduce(self, 'mpc', self._mpci_)\n\n", new="", expect='fire:P-R7:ivmpc')
V(id='c40-iv-constant-default-copy', prop='C40', file='mpmath/ctx_iv.py',
  old="    def __copy__(self):\n        return self\n    def __deepcopy__(self, memo):\n        return self\n    def __reduce__(self):\n        import mpmath\n",
  new="    def __reduce__(self):\n        import mpmath\n", expect='fire:P-R7:ivmpf_constant')
V(id='c40-benign-iv-reduce-inline', prop='C40', file='mpmath/ctx_iv.py',
  old="    def __reduce__(self):\n        return _iv_reduce(self, 'mpf', self._mpi_)\n",
  new="    def __reduce__(self):\n        return (_iv_number, ('mpf', self._mpi_))\n", expect='silent')

# ---- C24 T-R15 (fourth hunt; fix 77a2f5d) ----
V(id='c24-rs-zeta-float-overflow-escapes', prop='C24', file='mpmath/functions/rszeta.py',
  old="    except OverflowError:\n        # (the error estimates are made with floats, which cannot hold\n        # 9**sigma far from the critical line: the callers fall back)\n        raise NotImplementedError(\"Riemann-Siegel can not compute with such sigma\")\n",
  new="", expect='fire:T-R15:rs_zeta')
V(id='c24-rs-z-float-overflow-escapes', prop='C24', file='mpmath/functions/rszeta.py',
  old="            v = z_offline(ctx, w, derivative)\n    except OverflowError:\n        raise NotImplementedError(\"Riemann-Siegel can not compute with such sigma\")\n",
  new="            v = z_offline(ctx, w, derivative)\n", expect='fire:T-R15:rs_z')
V(id='c24-rs-z-overflow-reraised-as-undocumented', prop='C24', file='mpmath/functions/rszeta.py',
  old="            v = z_offline(ctx, w, derivative)\n    except OverflowError:\n        raise NotImplementedError(\"Riemann-Siegel can not compute with such sigma\")\n",
  new="            v = z_offline(ctx, w, derivative)\n    except OverflowError:\n        raise ArithmeticError(\"sigma too large\")\n", expect='fire:T-R15:rs_z')
V(id='c24-benign-rs-z-overflow-as-valueerror', prop='C24', file='mpmath/functions/rszeta.py',
  old="            v = z_offline(ctx, w, derivative)\n    except OverflowError:\n        raise NotImplementedError(\"Riemann-Siegel can not compute with such sigma\")\n",
  new="            v = z_offline(ctx, w, derivative)\n    except ArithmeticError:\n        raise ValueError(\"sigma too large\")\n", expect='silent')

# ---- C24 T-R16 (fourth hunt; fix a950b2b) ----
V(id='c24-rs-term-count-unbounded', prop='C24', file='mpmath/functions/rszeta.py',
  old="        L = L+1\n        if 3*L >= 2*a*a/25.:\n            # (condition (20) below has failed already, and this bound,\n            # of a divergent series, need never get below eps2)\n            ctx.prec = wpinitial\n            raise NotImplementedError(\"Riemann-Siegel can not compute with such precision\")\n",
  new="        L = L+1\n", expect='fire:T-R16:Rzeta_set')
V(id='c24-rs-term-count-x-unbounded', prop='C24', file='mpmath/functions/rszeta.py',
  old="        xL = xL+1\n        if 3*xL >= 2*a*a/25.:\n            # (condition (20) below has failed already, and this bound,\n            # of a divergent series, need never get below eps2)\n            ctx.prec = wpinitial\n            raise NotImplementedError(\"Riemann-Siegel can not compute with such precision\")\n",
  new="        xL = xL+1\n", expect='fire:T-R16:Rzeta_simul')
V(id='c24-benign-rs-term-count-break', prop='C24', file='mpmath/functions/rszeta.py',
  old="        L = L+1\n        if 3*L >= 2*a*a/25.:\n            # (condition (20) below has failed already, and this bound,\n            # of a divergent series, need never get below eps2)\n            ctx.prec = wpinitial\n            raise NotImplementedError(\"Riemann-Siegel can not compute with such precision\")\n",
  new="        L = L+1\n        if 3*L >= 2*a*a/25.:\n            break\n", expect='silent')

# ---- C39 N-R10 (third hunt; fix a93bfbf) ----
V(id='c39-fp-mag-frexp-of-infinity', prop='C39', file='mpmath/ctx_fp.py',
  old="        if a == math2.INF:\n            return ctx.inf\n", new="", expect='fire:N-R10:mag')
V(id='c39-fp-mag-frexp-of-nan', prop='C39', file='mpmath/ctx_fp.py',
  old="        if z != z:\n            return ctx.nan\n", new="", expect='fire:N-R10:mag')
V(id='c39-fp-mag-int-through-float', prop='C39', file='mpmath/ctx_fp.py',
  old="        if isinstance(z, int_types):\n            # (exact, also beyond the range of a float)\n            return len(bin(abs(z))) - 2\n", new="", expect='fire:N-R10:mag')
V(id='c39-fp-mag-abs-of-complex', prop='C39', file='mpmath/ctx_fp.py',
  old="            a = max(abs(z.real), abs(z.imag))\n", new="            a = abs(z)\n", expect='fire:N-R10:mag')
V(id='c39-fp-isnpint-rounds-infinity', prop='C39', file='mpmath/ctx_fp.py',
  old="        return x <= 0.0 and x - x == 0.0 and round(x) == x\n", new="        return x <= 0.0 and round(x) == x\n", expect='fire:N-R10:isnpint')
V(id='c39-fp-isnpint-excludes-infinity-too-late', prop='C39', file='mpmath/ctx_fp.py',
  old="        return x <= 0.0 and x - x == 0.0 and round(x) == x\n", new="        return x <= 0.0 and round(x) == x and x - x == 0.0\n", expect='fire:N-R10:isnpint')
V(id='c39-benign-fp-isnpint-isinf', prop='C39', file='mpmath/ctx_fp.py',
  old="        return x <= 0.0 and x - x == 0.0 and round(x) == x\n", new="        return x <= 0.0 and not math.isinf(x) and round(x) == x\n", expect='silent')

# ---- C37 Y-R10 (third hunt; fix 453101a) ----
V(id='c37-bernoulli-from-man-exp-default-rounding', prop='C37', file='mpmath/libmp/gammazeta.py',
  old="        s = from_man_exp(s, sexp, wp, round_fast)\n", new="        s = from_man_exp(s, sexp, wp)\n", expect='fire:Y-R10:mpf_bernoulli')
V(id='c37-erf-from-man-exp-default-rounding', prop='C37', file='mpmath/libmp/libhyper.py',
  old="from_man_exp(s, -wp, wp, round_fast)", new="from_man_exp(s, -wp, wp)", expect='fire:Y-R10')
V(id='c37-benign-from-man-exp-keyword-rounding', prop='C37', file='mpmath/libmp/gammazeta.py',
  old="        s = from_man_exp(s, sexp, wp, round_fast)\n", new="        s = from_man_exp(s, sexp, wp, rnd=round_fast)\n", expect='silent')

# ---- C29 R-P3 absolute floor of the rank tolerance (seed C29-6) ----
V(id='c29-rank-tolerance-purely-relative', prop='C29', file='mpmath/calculus/polynomials.py',
  old="> 8*tol*max(1, abs(vals[b])))", new="> 8*tol*abs(vals[b]))", expect='fire:R-P3:ranks')
V(id='c29-rank-tolerance-floor-zero', prop='C29', file='mpmath/calculus/polynomials.py',
  old="> 8*tol*max(1, abs(vals[b])))", new="> 8*tol*max(0, abs(vals[b])))", expect='fire:R-P3:ranks')
V(id='c29-benign-rank-tolerance-absolute', prop='C29', file='mpmath/calculus/polynomials.py',
  old="> 8*tol*max(1, abs(vals[b])))", new="> 16*tol*max(abs(vals[a]), 1, abs(vals[b])))", expect='silent')

# ---- C35 Q-R14 / Q-R15 (fourth hunt; fixes 2a37a65, 2e267a9) ----
V(id='c35-dict-names-not-operands', prop='C35', file='mpmath/identification.py',
  old="constants = [(ctx.mpf(v), _operand(name)) for (name, v) in sorted(constants.items())]", new="constants = [(ctx.mpf(v), name) for (name, v) in sorted(constants.items())]",
  expect='fire:Q-R14:identify')
V(id='c35-list-formulas-not-operands', prop='C35', file='mpmath/identification.py',
  old="constants = [(eval(p, namespace), _operand(p)) for p in constants]", new="constants = [(eval(p, namespace), p) for p in constants]",
  expect='fire:Q-R14:identify')
V(id='c35-quadratic-pslq-can-raise', prop='C35', file='mpmath/identification.py',
  old="                try:\n                    q = ctx.pslq([ctx.one, t, t**2], tol, M)\n                except ValueError:\n                    # (t**2 lies below the resolution of pslq)\n                    q = None\n",
  new="                q = ctx.pslq([ctx.one, t, t**2], tol, M)\n", expect='fire:Q-R15:identify')

# ---- C08 W-R6 (= B-R5 under C08; seed C08-6), C39 N-R3 rounding constructor (seed C39-8) ----
V(id='c08-from-str-rounds-the-literal-mantissa', prop='C08', file='mpmath/libmp/libmpf.py',
  old="        s = from_int(man)\n        s = mpf_mul(s, mpf_pow_int(ften, exp, prec+10, prnd), prec, rnd)\n",
  new="        s = from_int(man, prec, rnd)\n        s = mpf_mul(s, mpf_pow_int(ften, exp, prec+10, prnd), prec, rnd)\n", expect='fire:W-R6:from_str')
V(id='c39-frexp-through-rounding-constructor', prop='C39', file='mpmath/ctx_mp.py',
  old="        x = ctx.convert(x)\n        y, n = libmp.mpf_frexp(x._mpf_)\n", new="        x = ctx.mpf(x)\n        y, n = libmp.mpf_frexp(x._mpf_)\n", expect='fire:N-R3:frexp')

# ---- C38 X-R15 / C17 K-R9 (fourth C38 hunt, third C17 hunt; fix 0a95f78) ----
for _p, _r in (('C38', 'X-R15'), ('C17', 'K-R9')):
    V(id='%s-operator-template-reads-foreign-constant' % _p.lower(), prop=_p, file='mpmath/ctx_mp_python.py',
      old="        if isinstance(other, _constant) and other.context is not mpf.context:\n            tval = mpf.mpf_convert_rhs(other)\n", new="",
      expect='fire:%s' % _r)
    V(id='%s-cmp-reads-foreign-constant' % _p.lower(), prop=_p, file='mpmath/ctx_mp_python.py',
      old="        if hasattr(t, '_mpf_') and not isinstance(t, _constant):\n", new="        if hasattr(t, '_mpf_'):\n",
      expect='fire:%s:_cmp' % _r)
    V(id='%s-fsum-reads-foreign-constant' % _p.lower(), prop=_p, file='mpmath/ctx_mp_python.py',
      old="                if isinstance(term, _constant) and term.context is not ctx:\n                    reval = ctx.mpf.mpf_convert_rhs(term)\n", new="",
      expect='fire:%s:fsum' % _r)
V(id='c38-convert-rhs-reads-foreign-constant', prop='C38', file='mpmath/ctx_mp_python.py',
  old="        if isinstance(x, _constant) and x.context is not cls.context \\\n            and not x.contextual:\n            # (a lazy constant of another context is evaluated in this one,\n            # as by the constructor and by convert)\n            return x.func(*cls.context._prec_rounding)\n",
  new="", expect='fire:X-R15:mpf_convert_rhs')

# ---- C14 C-R23 (fifth hunt; fix b34f672) ----
V(id='c14-mpf-outward-nan-passed-on', prop='C14', file='mpmath/libmp/libmpi.py',
  old="    if v == fnan:\n        if rounding == round_floor:\n            return fninf\n        return finf\n    if not man:\n        return v\n",
  new="    if not man:\n        return v\n", expect='fire:C-R23:mpf_outward')
V(id='c14-mpf-outward-nan-bounds-swapped', prop='C14', file='mpmath/libmp/libmpi.py',
  old="    if v == fnan:\n        if rounding == round_floor:\n            return fninf\n        return finf\n",
  new="    if v == fnan:\n        if rounding == round_floor:\n            return finf\n        return fninf\n", expect='fire:C-R23:mpf_outward')

# ---- C13 E-X4 size bound needs an else (fourth hunt; fix 399d6d5) ----
V(id='c13-powm1-zero-beyond-size-bound', prop='C13', file='mpmath/functions/functions.py',
  old="                    w = ctx.expm1(y*ctx.log1p(d))\n", new="                    pass\n",
  expect='fire:E-X4:powm1')

# ---- C07 L-R1 in ctx_mp_python.py (third hunt; fix 4bb26c0) ----
V(id='c07-pq-parameter-through-int', prop='C07', file='mpmath/ctx_mp_python.py',
  old="                p = str_to_int(p)\n                q = str_to_int(q)\n", new="                p = int(p)\n                q = int(q)\n",
  expect='fire:L-R1:_convert_param')

# ---- C10 B-R12 (fourth hunt; fixes 06a24b4, 2a12452) ----
V(id='c10-rs-zeta-returns-guard-bits', prop='C10', file='mpmath/functions/rszeta.py',
  old="    # (the value was computed with guard bits)\n    return +v\n", new="    return v\n", expect='fire:B-R12:rs_zeta')
V(id='c10-rs-z-returns-guard-bits', prop='C10', file='mpmath/functions/rszeta.py',
  old="        raise NotImplementedError(\"Riemann-Siegel can not compute with such sigma\")\n    finally:\n        ctx.prec = prec\n    return +v\n", new="        raise NotImplementedError(\"Riemann-Siegel can not compute with such sigma\")\n    finally:\n        ctx.prec = prec\n    return v\n", expect='fire:B-R12:rs_z')
V(id='c10-borel-sum-leaves-try-unrounded', prop='C10', file='mpmath/functions/hypergeometric.py',
  old="                done = True\n                break\n", new="                return s\n", expect='fire:B-R12:_hyp_borel')

# ---- C09 V-R6 / V-R7 (second hunt; fixes f660b9b, 0ab9321) ----
V(id='c09-iv-float-truncates', prop='C09', file='mpmath/ctx_iv.py',
  old="        return self.cast(float, lambda v: libmp.to_float(v, rnd=libmp.round_nearest))\n", new="        return self.cast(float, libmp.to_float)\n",
  expect='fire:V-R6:__float__')
V(id='c09-iv-complex-without-mode', prop='C09', file='mpmath/ctx_iv.py',
  old="        return self.cast(complex, lambda v: libmp.to_float(v, rnd=libmp.round_nearest))\n", new="        return self.cast(complex, lambda v: libmp.to_float(v))\n",
  expect='fire:V-R6:__complex__')
V(id='c09-complex-operand-through-constructor', prop='C09', file='mpmath/ctx_mp_python.py',
  old="        if isinstance(x, complex_types): return cls.context.convert(x)\n", new="        if isinstance(x, complex_types): return cls.context.mpc(x)\n",
  expect='fire:V-R7:mpf_convert_rhs')

# ---- C09 V-R8 (seed C09-9: mantissa shortened before the 53-bit rounding) ----
V(id='c09-to-float-pretruncate', prop='C09', file='mpmath/libmp/libmpf.py',
  old="    if bc > 53:\n        sign, man, exp, bc = normalize1(sign, man, exp, bc, 53, rnd)",
  new="    if bc > 53:\n        if bc > 64:\n            man >>= bc - 64\n            exp += bc - 64\n            bc = 64\n        sign, man, exp, bc = normalize1(sign, man, exp, bc, 53, rnd)",
  expect='fire:V-R8:to_float')
V(id='c09-to-float-rounds-a-copy', prop='C09', file='mpmath/libmp/libmpf.py',
  old="    if bc > 53:\n        sign, man, exp, bc = normalize1(sign, man, exp, bc, 53, rnd)",
  new="    if bc > 53:\n        sign, man, exp, bc = normalize1(sign, man >> 1 << 1, exp, bc, 53, rnd)",
  expect='fire:V-R8:to_float')

# ---- C03 B-R13 (seed C03-9: divisor computed with the caller's mode) ----
V(id='c03-pow-sqrt-divisor-same-mode', prop='C03', file='mpmath/libmp/libelefun.py',
  old="mpf_sqrt(s, prec+10,\n                    reciprocal_rnd[rnd]), prec, rnd)", new="mpf_sqrt(s, prec+10,\n                    rnd), prec, rnd)",
  expect='fire:B-R13:mpf_pow')

# ---- C08 W-R7 (second hunt; fix 8f543a9) ----
V(id='c08-exponent-through-str', prop='C08', file='mpmath/libmp/libmpf.py',
  old='    if exponent >= 0: return sign + digits + "e+" + numeral(exponent)\n', new='    if exponent >= 0: return sign + digits + "e+" + str(exponent)\n',
  expect='fire:W-R7:to_str')
V(id='c08-exponent-through-percent', prop='C08', file='mpmath/libmp/libmpf.py',
  old='    if exponent < 0: return sign + digits + "e" + numeral(exponent)\n', new='    if exponent < 0: return sign + digits + ("e%i" % exponent)\n',
  expect='fire:W-R7:to_str')

# ---- C38 X-R16 (fourth hunt; hsteps) ----
V(id='c38-hsteps-point-not-converted', prop='C38', file='mpmath/calculus/differentiation.py',
  old="    x = ctx.convert(x)\n    try:\n        ctx.prec = workprec\n", new="    try:\n        ctx.prec = workprec\n", expect='fire:X-R16:hsteps')
V(id='c38-hsteps-point-converted-too-late', prop='C38', file='mpmath/calculus/differentiation.py',
  edits=[("    x = ctx.convert(x)\n    try:\n        ctx.prec = workprec\n", "    try:\n        ctx.prec = workprec\n"),
         ("        values = [f(x+k*h) for k in steps]\n", "        values = [f(x+k*h) for k in steps]\n        x = ctx.convert(x)\n")],
  expect='fire:X-R16:hsteps')
