"""Shape discipline of raw values in the interval layer (rule C-R15).

The interval kernels pass three kinds of raw value around, all plain tuples:
    F   a raw mpf            (sign, man, exp, bc)
    I   a real interval      (F, F)
    C   a complex rectangle  (I, I)
and the kernel name says which one it takes: mpf_* take F, mpi_* take I, mpci_* take C.  Python
does not object when a C is handed to an mpi_* kernel or an I to an mpf_* kernel; the kernel then
unpacks the wrong thing (ValueError at best, endpoints of the wrong quantity at worst).  This
module infers the shape of every local name from the unpacking patterns, tuple displays,
`._mpi_/._mpci_/._mpf_` attributes, module constants and kernel results, and compares the shape of
every argument of a kernel call with the shape the kernel's parameter has.  Only arguments whose
shape is KNOWN are judged; a name bound to two different shapes is unknown.
"""
import ast

from .index import AnalysisError, norm
from .prec_effect import _walk_own

F, I, C = 'F', 'I', 'C'
F_CONSTS = {'fzero', 'fone', 'fnone', 'ftwo', 'fhalf', 'ften', 'fnan', 'finf', 'fninf'}
I_CONSTS = {'mpi_zero', 'mpi_one', 'mpi_two'}
C_CONSTS = {'mpci_zero', 'mpci_one'}

# kernels whose result is not the shape their prefix suggests
RESULT = {
    'mpi_cos_sin': ('PAIR', I, I), 'mpi_cosh_sinh': ('PAIR', I, I), 'mpf_cos_sin': ('PAIR', F, F),
    'mpf_cosh_sinh': ('PAIR', F, F), 'mpf_cos_sin_pi': ('PAIR', F, F),
    'mpi_delta': F, 'mpi_mid': F, 'mpci_abs': I, 'mpci_arg': I,
    'mpi_eq': None, 'mpi_ne': None, 'mpi_lt': None, 'mpi_le': None, 'mpi_gt': None, 'mpi_ge': None,
    'mpi_overlap': None, 'mpi_str': None, 'mpi_to_str': None,
    'mpf_eq': None, 'mpf_lt': None, 'mpf_le': None, 'mpf_gt': None, 'mpf_ge': None, 'mpf_cmp': None,
    'mpf_sign': None, 'mpf_hash': None, 'mpf_frexp': None,
    # complex kernels (a complex number is a pair of raw mpf, structurally the same as an interval)
    'mpc_abs': F, 'mpc_arg': F, 'mpc_is_inf': None, 'mpc_is_infnan': None, 'mpc_is_nonzero': None,
    'mpc_to_str': None, 'mpc_to_complex': None, 'mpc_hash': None, 'mpc_cos_sin': ('PAIR', I, I),
    'mpc_cos_sin_pi': ('PAIR', I, I), 'mpc_nthroot_fixed': None, 'mpc_ci_si_taylor': None,
    'mpc_zetasum': None, 'mpf_zetasum': None, 'mpf_ci_si_taylor': None,
}
# value parameters that are not of the prefix's shape: (kernel, parameter) -> shape or None
PARAM_EXCEPT = {
    ('mpi_mul_mpf', 't'): F, ('mpi_div_mpf', 't'): F, ('mpi_from_str', 's'): None,
    ('mpi_from_str_a_b', 'x'): None, ('mpi_from_str_a_b', 'y'): None,
    ('mpc_add_mpf', 'x'): F, ('mpc_sub_mpf', 'p'): F, ('mpc_mul_mpf', 'p'): F, ('mpc_mul_imag_mpf', 'x'): F,
    ('mpc_div_mpf', 'p'): F, ('mpc_mpf_div', 'p'): F, ('mpc_pow_mpf', 'p'): F,
}
VALUE_NAMES = {'s', 't', 'x', 'y', 'z', 'w', 'p'}


def prefix_shape(name):
    if name.startswith('mpci_'):
        return C
    if name.startswith('mpi_') or name.startswith('mpc_'):
        return I
    if name.startswith('mpf_'):
        return F
    return None


class Shapes(object):
    def __init__(self, ix):
        self.ix = ix
        self.sigs = {}
        for rel, m in ix.modules.items():
            if not rel.startswith('mpmath/libmp/'):
                continue
            for f in m.funcs.values():
                if f.parent is None and prefix_shape(f.name) and f.name not in self.sigs:
                    self.sigs[f.name] = f

        # constants built by def_mpf_constant return a raw mpf
        self.consts = set()
        for rel, m in ix.modules.items():
            if rel.startswith('mpmath/libmp/'):
                for name, value, st, g in m.toplevel_assigns:
                    if isinstance(value, ast.Call) and norm(value.func) == 'def_mpf_constant':
                        self.consts.add(name)

    def param_shape(self, kernel, i):
        f = self.sigs.get(kernel)
        if f is None or i >= len(f.params):
            return None
        p = f.params[i]
        if (kernel, p) in PARAM_EXCEPT:
            return PARAM_EXCEPT[(kernel, p)]
        if p not in VALUE_NAMES:
            return None
        # only parameters before the precision are values
        if 'prec' in f.params and i > f.params.index('prec'):
            return None
        return prefix_shape(kernel)

    def result_shape(self, kernel):
        if kernel in RESULT:
            return RESULT[kernel]
        if kernel in self.sigs:
            return prefix_shape(kernel)
        if kernel in self.consts:
            return F
        return None

    # ---- per function inference ------------------------------------------------------------
    def infer(self, f):
        env = {}
        conflict = set()

        def bind(name, sh):
            if name in conflict:
                return
            if sh is None:
                # bound to something of unknown shape: the name is not judged at all
                if self._final:
                    conflict.add(name)
                    env.pop(name, None)
                return
            if name in env and env[name] != sh:
                conflict.add(name)
                env.pop(name, None)
                return
            env[name] = sh

        def unpack(target, sh):
            if isinstance(target, ast.Name):
                bind(target.id, sh)
            elif isinstance(target, (ast.Tuple, ast.List)):
                n = len(target.elts)
                if isinstance(sh, tuple) and sh[0] == 'PAIR' and n == 2:
                    unpack(target.elts[0], sh[1])
                    unpack(target.elts[1], sh[2])
                elif sh == C and n == 2:
                    for e in target.elts:
                        unpack(e, I)
                elif sh == I and n == 2:
                    for e in target.elts:
                        unpack(e, F)
                else:
                    # the shape of the source is unknown: a nested 2x2 pattern reveals a rectangle,
                    # a flat pair of pairs too
                    if n == 2 and all(isinstance(e, (ast.Tuple, ast.List)) and len(e.elts) == 2
                                      for e in target.elts):
                        for e in target.elts:
                            for x in e.elts:
                                unpack(x, F)
                    else:
                        # components of a raw mpf, or of something unknown: not judged
                        for e in target.elts:
                            if isinstance(e, ast.Name):
                                bind(e.id, None)

        # parameters of kernels have the prefix shape
        if f.parent is None and prefix_shape(f.name) and f.name in self.sigs:
            for i, p in enumerate(f.params):
                sh = self.param_shape(f.name, i)
                if sh:
                    env[p] = sh
        stmts = sorted((st for st in _walk_own(f.node) if isinstance(st, ast.Assign) and len(st.targets) == 1),
                       key=lambda st: (st.lineno, st.col_offset))
        # pass 1 collects the known shapes (so that loop-carried names resolve); pass 2 is the
        # judging pass, in which a binding of unknown shape makes the name unknown
        for final in (False, True):
            self._final = final
            for st in stmts:
                if True:
                    t = st.targets[0]
                    sh = self.shape(st.value, env)
                    if isinstance(t, (ast.Tuple, ast.List)) and sh is None and isinstance(st.value, ast.Name):
                        # (a1,a2),(b1,b2) = z  reveals z
                        if len(t.elts) == 2 and all(isinstance(e, (ast.Tuple, ast.List)) and len(e.elts) == 2
                                                    for e in t.elts):
                            bind(st.value.id, C)
                            sh = C
                    unpack(t, sh)
        for nm in conflict:
            env.pop(nm, None)
        return env

    def shape(self, e, env):
        if isinstance(e, ast.Name):
            if e.id in F_CONSTS:
                return F
            if e.id in I_CONSTS:
                return I
            if e.id in C_CONSTS:
                return C
            return env.get(e.id)
        if isinstance(e, ast.Attribute):
            return {'_mpi_': I, '_mpci_': C, '_mpf_': F, '_mpc_': I}.get(e.attr)
        if isinstance(e, ast.Tuple) and len(e.elts) == 2:
            a, b = self.shape(e.elts[0], env), self.shape(e.elts[1], env)
            if a == b == F:
                return I
            if a == b == I:
                return C
            return None
        if isinstance(e, ast.Call):
            fn = norm(e.func).split('.')[-1]
            return self.result_shape(fn)
        if isinstance(e, ast.Subscript) and isinstance(e.slice, ast.Constant) and e.slice.value in (0, 1):
            sh = self.shape(e.value, env)
            if sh == C:
                return I
            if sh == I:
                return F
            if isinstance(sh, tuple) and sh[0] == 'PAIR':
                return sh[1 + e.slice.value]
            return None
        if isinstance(e, ast.IfExp):
            a, b = self.shape(e.body, env), self.shape(e.orelse, env)
            return a if a == b else None
        return None

    def check_function(self, f):
        """-> (number of judged arguments, [(call, arg index, got, want)])"""
        env = self.infer(f)
        judged = 0
        bad = []
        for c in _walk_own(f.node):
            if not isinstance(c, ast.Call):
                continue
            fn = norm(c.func).split('.')[-1]
            if fn not in self.sigs:
                continue
            for i, a in enumerate(c.args):
                if isinstance(a, ast.Starred):
                    break
                want = self.param_shape(fn, i)
                if want is None:
                    continue
                got = self.shape(a, env)
                if got is None or isinstance(got, tuple):
                    continue
                judged += 1
                if got != want:
                    bad.append((c, i, got, want))
        return judged, bad


NAMES = {F: 'a raw mpf', I: 'a pair of raw mpf (real interval / complex number)', C: 'a complex rectangle (pair of intervals)'}


def check_shapes(run, ix, rule, files):
    from .report import Finding
    sh = Shapes(ix)
    total = 0
    for rel in files:
        m = ix.module(rel)
        for f in m.funcs.values():
            if not isinstance(f.node, ast.FunctionDef):
                continue
            judged, bad = sh.check_function(f)
            total += judged
            for _ in range(judged - len(bad)):
                run.ok(rule)
            for c, i, got, want in bad:
                st = c
                while not isinstance(st, ast.stmt):
                    st = st._parent
                run.fail(Finding(rule, rel, f.qualname, norm(st),
                                 'argument %d of %s is %s, but the kernel takes %s there: it unpacks the wrong '
                                 'tuple (an exception, or endpoints of the wrong quantity)'
                                 % (i + 1, norm(c.func), NAMES[got], NAMES[want]), line=c.lineno))
    run.stats['shape_judged_arguments'] = total
    return total
