"""Engine E -- mantissa typestate (C01).

ParityAnalysis: flow-sensitive abstract interpretation of the integer
variables of one kernel function.

  parity domain   ODD | EVEN (maybe zero) | ZERO | ODDZ (odd or zero) | ANY
  relations       exact(bc, man): the value of `bc` is the bit length of the
                  current value of `man`
                  lower(bc, man, slack): bc <= bitlen(man) <= bc + slack
                  factors(man) = the variables whose product `man` is
  facts           pos(x) / neg(x): sign of an integer variable (from guards)

Trusted arithmetic lemmas (frozen): an unpacked canonical mantissa is
odd-or-zero; odd*odd is odd; odd**n is odd; x << k (k > 0) is even; odd +- even
is odd; negation keeps parity; a product of a- and b-bit numbers has a+b-1 or
a+b bits and `bc += int(man >> bc)` (or the bctable form) completes the count.
"""
import ast

from .flow import FlowAnalysis, Outcome
from .index import AnalysisError, norm

PAR_ODD, PAR_EVEN, PAR_ZERO, PAR_ODDZ, PAR_ANY = 'odd', 'even', 'zero', 'odd-or-zero', 'any'
MPZ_CONSTS = {'MPZ_ZERO': 0, 'MPZ_ONE': 1, 'MPZ_TWO': 2, 'MPZ_THREE': 3, 'MPZ_FIVE': 5}


def par_of_int(v):
    if v == 0:
        return PAR_ZERO
    return PAR_ODD if v % 2 else PAR_EVEN


def par_join(a, b):
    if a == b:
        return a
    s = {a, b}
    if s <= {PAR_ODD, PAR_ZERO, PAR_ODDZ}:
        return PAR_ODDZ
    if s <= {PAR_EVEN, PAR_ZERO}:
        return PAR_EVEN
    return PAR_ANY


def par_mul(a, b):
    if PAR_ZERO in (a, b):
        return PAR_ZERO
    if a == PAR_ODD and b == PAR_ODD:
        return PAR_ODD
    if {a, b} <= {PAR_ODD, PAR_ODDZ}:
        return PAR_ODDZ
    if PAR_EVEN in (a, b):
        return PAR_EVEN
    return PAR_ANY


def par_add(a, b):
    if a == PAR_ZERO:
        return b
    if b == PAR_ZERO:
        return a
    if {a, b} == {PAR_ODD, PAR_EVEN}:
        return PAR_ODD
    if a == PAR_EVEN and b == PAR_EVEN:
        return PAR_EVEN
    if a == PAR_ODD and b == PAR_ODD:
        return PAR_EVEN
    return PAR_ANY


class PState(object):
    """immutable state"""
    __slots__ = ('par', 'rel', 'facts', 'fac', '_k')

    def __init__(self, par=None, rel=frozenset(), facts=frozenset(), fac=None):
        self.par = par or {}
        self.rel = rel
        self.facts = facts
        self.fac = fac or {}
        self._k = None

    def key(self):
        if self._k is None:
            self._k = (tuple(sorted(self.par.items())), self.rel, self.facts,
                       tuple(sorted((k, tuple(v)) for k, v in self.fac.items())))
        return self._k

    def __eq__(self, o):
        return isinstance(o, PState) and self.key() == o.key()

    def __hash__(self):
        return hash(self.key())

    def kill(self, name):
        par = dict(self.par)
        par.pop(name, None)
        rel = frozenset(r for r in self.rel if name not in r[1:3])
        facts = frozenset(f for f in self.facts if f[1] != name)
        fac = dict((k, v) for k, v in self.fac.items() if k != name and name not in v)
        return PState(par, rel, facts, fac)

    def setpar(self, name, p):
        s = self.kill(name)
        par = dict(s.par)
        par[name] = p
        return PState(par, s.rel, s.facts, s.fac)

    def addrel(self, r):
        return PState(self.par, self.rel | {r}, self.facts, self.fac)

    def addfact(self, f):
        return PState(self.par, self.rel, self.facts | {f}, self.fac)

    def setfac(self, name, factors):
        fac = dict(self.fac)
        fac[name] = tuple(factors)
        return PState(self.par, self.rel, self.facts, fac)


class ParityAnalysis(FlowAnalysis):
    def __init__(self, func):
        self.func = func
        self.at_call = {}       # id(call) -> [info]

    def analyse(self):
        st = PState()
        self.run(self.func.body(), st)

    # ---- lattice ---------------------------------------------------------------
    def join(self, a, b):
        if a == b:
            return a
        par = {}
        for k in set(a.par) & set(b.par):
            par[k] = par_join(a.par[k], b.par[k])
        fac = dict((k, v) for k, v in a.fac.items() if b.fac.get(k) == v)
        return PState(par, a.rel & b.rel, a.facts & b.facts, fac)

    # ---- expressions ---------------------------------------------------------------
    def positive(self, e, s):
        """expression is known to be > 0"""
        if isinstance(e, ast.Constant) and isinstance(e.value, int):
            return e.value > 0
        if isinstance(e, ast.Name):
            return ('pos', e.id) in s.facts
        if isinstance(e, ast.UnaryOp) and isinstance(e.op, ast.USub) and isinstance(e.operand, ast.Name):
            return ('neg', e.operand.id) in s.facts
        if isinstance(e, ast.BinOp) and isinstance(e.op, ast.Add):
            # prec + 4 : precisions are >= 1
            l, r = e.left, e.right
            if isinstance(l, ast.Name) and l.id in ('prec', 'wp') and \
                    isinstance(r, ast.Constant) and isinstance(r.value, int) and r.value >= 0:
                return True
            return self.positive(l, s) and self.positive(r, s)
        return False

    def parity(self, e, s):
        if isinstance(e, ast.Constant) and isinstance(e.value, int) and not isinstance(e.value, bool):
            return par_of_int(e.value)
        if isinstance(e, ast.Name):
            if e.id in MPZ_CONSTS:
                return par_of_int(MPZ_CONSTS[e.id])
            return s.par.get(e.id, PAR_ANY)
        if isinstance(e, ast.UnaryOp) and isinstance(e.op, ast.USub):
            return self.parity(e.operand, s)
        if isinstance(e, ast.Call) and isinstance(e.func, ast.Name) and e.func.id in ('MPZ', 'int', 'abs') \
                and len(e.args) == 1:
            return self.parity(e.args[0], s)
        if isinstance(e, ast.BinOp):
            a, b = self.parity(e.left, s), self.parity(e.right, s)
            if isinstance(e.op, ast.Mult):
                return par_mul(a, b)
            if isinstance(e.op, (ast.Add, ast.Sub)):
                return par_add(a, b)
            if isinstance(e.op, ast.Pow):
                if a == PAR_ODD:
                    return PAR_ODD
                if a in (PAR_ODDZ, PAR_ZERO):
                    return PAR_ODDZ if a == PAR_ODDZ else PAR_ANY
                return PAR_ANY
            if isinstance(e.op, ast.LShift):
                if a == PAR_ZERO:
                    return PAR_ZERO
                if self.positive(e.right, s):
                    return PAR_EVEN
                return PAR_ANY
        return PAR_ANY

    # ---- statements ---------------------------------------------------------------------
    def simple(self, node, state):
        self.scan_calls(node, state)
        if isinstance(node, ast.Assign):
            for t in node.targets:
                state = self.assign(t, node.value, state)
            return state, None
        if isinstance(node, ast.AugAssign) and isinstance(node.target, ast.Name):
            return self.augassign(node, state), None
        return state, None

    def ret(self, node, state):
        if node.value is not None:
            self.scan_calls(node, state)
        return state, None

    def cond(self, test, state):
        self.scan_calls(test, state)
        t, f = self.refine(test, state)
        return t, f, None

    def raise_(self, node, state):
        return None

    def for_target(self, node, state):
        for x in ast.walk(node.target):
            if isinstance(x, ast.Name):
                state = state.kill(x.id)
        return state

    def trust_catch_all(self, st):
        return False

    def refine(self, test, s):
        if isinstance(test, ast.UnaryOp) and isinstance(test.op, ast.Not):
            t, f = self.refine(test.operand, s)
            return f, t
        if isinstance(test, ast.BoolOp):
            if isinstance(test.op, ast.And):
                t = s
                for v in test.values:
                    if t is None:
                        break
                    t, _ = self.refine(v, t)
                return t, s
            f = s
            for v in test.values:
                if f is None:
                    break
                _, f = self.refine(v, f)
            return s, f
        if isinstance(test, ast.Name):
            p = s.par.get(test.id)
            if p is not None:
                tp = {PAR_ODDZ: PAR_ODD, PAR_ZERO: None, PAR_ANY: PAR_ANY}.get(p, p)
                fp = PAR_ZERO if p in (PAR_ODDZ, PAR_ZERO, PAR_EVEN, PAR_ANY) else None
                t = s._with_par(test.id, tp) if tp else None
                f = s._with_par(test.id, fp) if fp else None
                return t, f
            return s, s
        if isinstance(test, ast.Compare) and len(test.ops) == 1 and isinstance(test.left, ast.Name) \
                and isinstance(test.comparators[0], ast.Constant) and test.comparators[0].value == 0:
            n = test.left.id
            op = test.ops[0]
            if isinstance(op, ast.Gt):
                return s.addfact(('pos', n)), s
            if isinstance(op, ast.Lt):
                return s.addfact(('neg', n)), s
            if isinstance(op, ast.GtE):
                return s, s.addfact(('neg', n))
            if isinstance(op, ast.LtE):
                return s, s.addfact(('pos', n))
        if isinstance(test, ast.Compare) and len(test.ops) == 1 and isinstance(test.left, ast.Name) \
                and isinstance(test.ops[0], ast.Eq) and isinstance(test.comparators[0], ast.Constant) \
                and test.comparators[0].value == 1:
            return s._with_par(test.left.id, PAR_ODD), s
        return s, s

    def assign(self, target, value, s):
        if isinstance(target, (ast.Tuple, ast.List)):
            names = [t.id if isinstance(t, ast.Name) else None for t in target.elts]
            if len(names) == 4 and all(names) and isinstance(value, (ast.Name, ast.Call, ast.Subscript, ast.Attribute)):
                # sign, man, exp, bc = <canonical raw mpf>
                for n in names:
                    s = s.kill(n)
                s = s.setpar(names[1], PAR_ODDZ)
                s = s.addrel(('exact', names[3], names[1]))
                return s
            if isinstance(value, ast.Tuple) and len(value.elts) == len(names):
                pars = [self.parity(v, s) for v in value.elts]
                for n, p in zip(names, pars):
                    if n:
                        s = s.setpar(n, p)
                return s
            if isinstance(value, ast.Call) and norm(value.func) in ('divmod', 'sqrtrem'):
                for n in names:
                    if n:
                        s = s.kill(n)
                return s
            for t in target.elts:
                for x in ast.walk(t):
                    if isinstance(x, ast.Name):
                        s = s.kill(x.id)
            return s
        if not isinstance(target, ast.Name):
            return s
        name = target.id
        # bc = bitcount(man)
        if isinstance(value, ast.Call) and norm(value.func) == 'bitcount' and len(value.args) == 1 \
                and isinstance(value.args[0], ast.Name):
            m = value.args[0].id
            s = s.kill(name)
            return s.addrel(('exact', name, m))
        # bc = bctable[int(man)]  (exact for man < 1024)
        if isinstance(value, ast.Subscript) and norm(value.value) == 'bctable':
            inner = value.slice
            if isinstance(inner, ast.Call) and norm(inner.func) == 'int' and isinstance(inner.args[0], ast.Name):
                m = inner.args[0].id
                s = s.kill(name)
                return s.addrel(('exact', name, m))
        # completion written as an assignment:  pbc = pbc + bctable[int(pm >> pbc)]
        if isinstance(value, ast.BinOp) and isinstance(value.op, ast.Add) and \
                isinstance(value.left, ast.Name) and value.left.id == name and \
                self.is_completion(name, value.right, s):
            fake = ast.AugAssign(target=ast.Name(id=name, ctx=ast.Store()), op=ast.Add(), value=value.right)
            return self.augassign(fake, s)
        # bc = prec right after a directed truncation of man by (bc - prec) bits
        if isinstance(value, ast.Name) and ('trunc', name, value.id) in s.facts:
            m = [f[3] for f in s.facts if f[0] == 'truncof' and f[1] == name and f[2] == value.id]
            s2 = s.kill(name)
            if m:
                return s2.addrel(('exact', name, m[0]))
            return s2
        # lower estimate of a product's bit count:  bc = sbc + tbc - 1 ;  bc = bc + bc - 2
        est = self.estimate(value, s)
        p = self.parity(value, s)
        factors = self.factors(value, s)
        old_rel = s.rel
        old_facts = s.facts
        s = s.setpar(name, p)
        if factors:
            s = s.setfac(name, factors)
            # keep the exact pairs of the factors alive under aliases when man = man*man
            for r in old_rel:
                if r[0] == 'exact' and r[2] == name and name in factors:
                    s = s.addrel(('exactold', r[1], name))
        if est is not None:
            s = s.addrel(('est', name) + est)
        if self.positive(value, PState(facts=old_facts)):
            s = s.addfact(('pos', name))
        # man = man >> (bc - wp)   /   man = -((-man) >> (bc - wp)): directed truncation
        tr = self.truncation(name, value)
        if tr is not None:
            b, wp_ = tr
            s = s.addfact(('trunc', b, wp_)).addfact(('truncof', b, wp_, name))
        return s

    def truncation(self, name, value):
        """name = name >> (B - W)  or  name = -((-name) >> (B - W))  ->  (B, W)"""
        v = value
        if isinstance(v, ast.UnaryOp) and isinstance(v.op, ast.USub):
            v = v.operand
            if not (isinstance(v, ast.BinOp) and isinstance(v.op, ast.RShift) and
                    isinstance(v.left, ast.UnaryOp) and isinstance(v.left.op, ast.USub) and
                    isinstance(v.left.operand, ast.Name) and v.left.operand.id == name):
                return None
            amt = v.right
        elif isinstance(v, ast.BinOp) and isinstance(v.op, ast.RShift) and \
                isinstance(v.left, ast.Name) and v.left.id == name:
            amt = v.right
        else:
            return None
        if isinstance(amt, ast.BinOp) and isinstance(amt.op, ast.Sub) and \
                isinstance(amt.left, ast.Name) and isinstance(amt.right, ast.Name):
            return amt.left.id, amt.right.id
        return None

    def factors(self, value, s):
        """variables whose product the expression is (a*b, a**2 -> (a, a))"""
        if isinstance(value, ast.BinOp) and isinstance(value.op, ast.Mult) and \
                isinstance(value.left, ast.Name) and isinstance(value.right, ast.Name):
            return (value.left.id, value.right.id)
        return None

    def estimate(self, value, s):
        """value == sum of exact bit counts of some variables minus k  ->  (vars, k)"""
        terms = []
        const = 0

        def walk(e, sign):
            nonlocal const
            if isinstance(e, ast.BinOp) and isinstance(e.op, ast.Add):
                return walk(e.left, sign) and walk(e.right, sign)
            if isinstance(e, ast.BinOp) and isinstance(e.op, ast.Sub):
                return walk(e.left, sign) and walk(e.right, -sign)
            if isinstance(e, ast.Constant) and isinstance(e.value, int):
                const += sign * e.value
                return True
            if isinstance(e, ast.Name) and sign > 0:
                for r in sorted(s.rel):
                    if r[0] in ('exact', 'exactold') and r[1] == e.id:
                        terms.append(r[2])
                        return True
            if sign > 0 and isinstance(e, ast.Call) and norm(e.func) == 'bitcount' and \
                    len(e.args) == 1 and isinstance(e.args[0], ast.Name):
                terms.append(e.args[0].id)
                return True
            if sign > 0 and isinstance(e, ast.Subscript) and norm(e.value) == 'bctable' and \
                    isinstance(e.slice, ast.Call) and norm(e.slice.func) == 'int' and \
                    isinstance(e.slice.args[0], ast.Name):
                terms.append(e.slice.args[0].id)
                return True
            return False
        if not walk(value, 1) or not terms:
            return None
        return (tuple(sorted(terms)), -const)

    def augassign(self, node, s):
        name = node.target.id
        v = node.value
        if isinstance(node.op, ast.Add) and self.is_completion(name, v, s):
            m = self.completion_target(v)
            est = [r for r in s.rel if r[0] == 'est' and r[1] == name]
            ok = False
            for r in est:
                facs = tuple(sorted(s.fac.get(m, ())))
                if r[2] == facs and r[3] in (1, 2) and len(facs) == 2:
                    ok = True
            s2 = s.kill(name)
            if ok:
                return s2.addrel(('exact', name, m))
            return s2
        fake = ast.BinOp(left=ast.Name(id=name, ctx=ast.Load()), op=node.op, right=v)
        if isinstance(node.op, ast.Mult) and isinstance(v, ast.Name):
            # man *= n : the old exact count of man becomes the count of a factor
            p = self.parity(fake, s)
            olds = [r for r in s.rel if r[0] == 'exact' and r[2] == name]
            s2 = s.setpar(name, p).setfac(name, (name, v.id))
            for r in olds:
                s2 = s2.addrel(('exactold', r[1], name))
            return s2
        if isinstance(node.op, (ast.Add, ast.Sub)):
            est = self.estimate(fake, s)
            if est is not None:
                p = self.parity(fake, s)
                return s.setpar(name, p).addrel(('est', name) + est)
        if isinstance(node.op, ast.LShift):
            p = PAR_ZERO if s.par.get(name) == PAR_ZERO else (
                PAR_EVEN if self.positive(v, s) else PAR_ANY)
            return s.setpar(name, p)
        p = self.parity(fake, s)
        return s.setpar(name, p)

    def completion_target(self, v):
        # int(man >> bc)   /  bctable[int(man >> bc)]
        if isinstance(v, ast.Subscript) and norm(v.value) == 'bctable':
            v = v.slice
        if isinstance(v, ast.Call) and norm(v.func) == 'int' and len(v.args) == 1:
            sh = v.args[0]
            if isinstance(sh, ast.BinOp) and isinstance(sh.op, ast.RShift) and \
                    isinstance(sh.left, ast.Name) and isinstance(sh.right, ast.Name):
                return sh.left.id
        return None

    def is_completion(self, name, v, s):
        m = self.completion_target(v)
        if m is None:
            return False
        vv = v.slice if isinstance(v, ast.Subscript) else v
        return isinstance(vv, ast.Call) and norm(vv.args[0].right) == name

    # ---- normaliser call sites -----------------------------------------------------------
    def scan_calls(self, node, s):
        for x in ast.walk(node):
            if isinstance(x, (ast.FunctionDef, ast.Lambda)):
                continue
            if isinstance(x, ast.Call) and isinstance(x.func, ast.Name) and \
                    x.func.id in ('normalize', 'normalize1') and len(x.args) >= 4:
                man, bc = x.args[1], x.args[3]
                par = self.parity(man, s)
                why = 'is %s' % par
                bc_exact, bc_why = self.bc_exact(man, bc, s)
                self.at_call.setdefault(id(x), []).append(
                    {'parity': par, 'why': why, 'bc_exact': bc_exact, 'bc_why': bc_why})

    def bc_exact(self, man, bc, s):
        if isinstance(bc, ast.Call) and norm(bc.func) == 'bitcount' and len(bc.args) == 1:
            if norm(bc.args[0]) == norm(man):
                return True, 'is bitcount() of the same expression'
            return False, 'bitcount() of a different expression'
        if isinstance(bc, ast.Name) and isinstance(man, ast.Name):
            if ('exact', bc.id, man.id) in s.rel:
                return True, 'is the exact count of %s (unpacked pair / bitcount / product idiom)' % man.id
            return False, 'no exactness relation between %s and %s holds on this path' % (bc.id, man.id)
        if isinstance(bc, ast.Call) and norm(bc.func) == 'MPZ':
            return self.bc_exact(man, bc.args[0], s)
        if isinstance(man, ast.Call) and norm(man.func) == 'MPZ' and len(man.args) == 1:
            return self.bc_exact(man.args[0], bc, s)
        if isinstance(bc, ast.Constant) and isinstance(man, ast.Name) and man.id in MPZ_CONSTS:
            return (bc.value == MPZ_CONSTS[man.id].bit_length()), 'literal'
        return False, 'unrecognised bit-count expression'


def _with_par(self, name, p):
    par = dict(self.par)
    par[name] = p
    return PState(par, self.rel, self.facts, self.fac)


PState._with_par = _with_par


# ---------------------------------------------------------------------------
def classify_tuple(node, f, worlds, lit):
    """-> (ok, reason) for a 4-tuple display in raw-mpf position"""
    e0, e1, e2, e3 = node.elts
    # literal / power of two
    l1, l3 = lit(e1), lit(e3)
    if l1 is not None and l3 is not None:
        if l1 == 1 and l3 == 1:
            return True, 'power of two (mantissa 1, bit count 1)'
        if l1 > 0 and l1 % 2 == 1 and l3 == l1.bit_length():
            return True, 'odd literal mantissa with exact bit count'
        if l1 == 0 and lit(e0) == 0 and lit(e2) == 0 and l3 == 0:
            return True, 'the zero'
        return False, 'literal mantissa %s with bit count %s is not canonical' % (l1, l3)
    # the exact-mode sibling of a normaliser call with the same fields
    for x in ast.walk(f.node):
        if isinstance(x, ast.Call) and isinstance(x.func, ast.Name) and \
                x.func.id in ('normalize', 'normalize1') and len(x.args) >= 4:
            if [norm(a) for a in x.args[:4]] == [norm(e) for e in node.elts]:
                par = _common_if(node, x)
                if par is not None:
                    return True, 'exact-mode sibling of %s(...) with identical fields (see E-R2/E-R3)' % x.func.id
    # field rewrite of an unpacked value
    if isinstance(e1, ast.Name) and isinstance(e3, ast.Name) and worlds:
        ok_all = True
        why = ''
        for w in worlds:
            vm, vb = w.env.get(e1.id), w.env.get(e3.id)
            if not (vm is not None and vm[0] == 'man' and vb is not None and vb[0] == 'fld'
                    and vb[1] == vm[1] and vb[2] == 3):
                return False, ('mantissa `%s` and bit count `%s` are not the unmodified pair of one '
                               'unpacked value' % (e1.id, e3.id))
            src = vm[1]
            nonzero = ('t', e1.id) in w.facts
            same_exp = isinstance(e2, ast.Name) and w.env.get(e2.id) == ('fld', src, 2)
            same_sign = isinstance(e0, ast.Name) and w.env.get(e0.id) == ('fld', src, 0)
            if nonzero:
                why = 'sign/exponent rewrite of the unpacked `%s` under a non-zero-mantissa guard' % src
                continue
            if same_exp and same_sign:
                why = 'unchanged fields of `%s`' % src
                continue
            zero_known = ('f', e1.id) in w.facts
            exp_zero = isinstance(e2, ast.Name) and ('f', e2.id) in w.facts
            if zero_known and exp_zero and same_exp and lit(e0) == 0:
                why = 'sign forced to 0 on a value known to be the zero'
                continue
            ok_all = False
            why = ('fields of `%s` are rewritten without a guard that the mantissa is non-zero: for '
                   'zero / inf / nan this creates a second encoding' % src)
            break
        return ok_all, why
    # depickling: fields restored one to one
    if f.name == 'from_pickable':
        return True, 'restores the pickled fields (rule E-R6)'
    return False, 'shape not recognised'


def _common_if(a, b):
    """a and b are in the two arms of one `if` (exact vs rounded mode)"""
    def arms(n):
        out = []
        p = n
        while p is not None:
            q = getattr(p, '_parent', None)
            if isinstance(q, ast.If):
                out.append((q, 'body' if p in q.body else 'orelse'))
            p = q
        return out
    for qa, sa in arms(a):
        for qb, sb in arms(b):
            if qa is qb and sa != sb:
                return qa
    return None
