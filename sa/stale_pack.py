"""Rule C-R9: packed interval / rectangle and its unpacked endpoints stay in sync.

The interval kernels keep a value both packed (`z`, `x`) and unpacked into
endpoint variables (`(a1, a2), (b1, b2) = z`).  When an endpoint variable is
recomputed (shifted argument, reflected argument) the packed name denotes the
OLD interval until it is rebuilt; using it afterwards evaluates the function
on a different argument than the endpoints describe.  A may-analysis over the
statement structure: after an endpoint of a synced pack is reassigned the pack
is `stale` until it is rebound; any read of a stale pack is reported.

Scope: mpmath/libmp/libmpi.py (in the real/complex kernels mpf_add and mpc_atan
deliberately keep using the original operand after editing an unpacked field,
so the rule is armed only where pack and endpoints always denote one interval).
"""
import ast

from .index import norm


def _names(t):
    return [n.id for n in ast.walk(t) if isinstance(n, ast.Name)]


class StaleScan(object):
    def __init__(self):
        self.unpacks = 0
        self.findings = []          # (stmt, pack name, (component, line))

    def scan(self, body, sync, stale):
        sync = dict(sync)
        stale = dict(stale)
        for st in body:
            if isinstance(st, (ast.If, ast.While)):
                roots = [st.test]
            elif isinstance(st, ast.For):
                roots = [st.iter]
            elif isinstance(st, ast.With):
                roots = [i.context_expr for i in st.items]
            elif isinstance(st, (ast.Try, ast.FunctionDef, ast.ClassDef)):
                roots = []
            else:
                roots = [st]
            for r in roots:
                for n in ast.walk(r):
                    if isinstance(n, ast.Name) and isinstance(n.ctx, ast.Load) and n.id in stale:
                        self.findings.append((st, n.id, stale[n.id]))
                        stale.pop(n.id)
            if isinstance(st, ast.Assign):
                tg = st.targets[0]
                stored = [n.id for t in st.targets for n in ast.walk(t)
                          if isinstance(n, ast.Name) and isinstance(n.ctx, ast.Store)]
                is_unpack = isinstance(tg, ast.Tuple) and isinstance(st.value, ast.Name) and len(st.targets) == 1
                for s in stored:
                    sync.pop(s, None)
                    stale.pop(s, None)
                for pk, comps in list(sync.items()):
                    hit = [s for s in stored if s in comps]
                    if hit and not (is_unpack and st.value.id == pk):
                        stale[pk] = (hit[0], st.lineno)
                        sync.pop(pk)
                if is_unpack:
                    self.unpacks += 1
                    sync[st.value.id] = set(_names(tg))
                    stale.pop(st.value.id, None)
            elif isinstance(st, ast.AugAssign):
                for n in ast.walk(st.target):
                    if isinstance(n, ast.Name):
                        for pk, comps in list(sync.items()):
                            if n.id in comps:
                                stale[pk] = (n.id, st.lineno)
                                sync.pop(pk)
                        sync.pop(n.id, None)
                        stale.pop(n.id, None)
            elif isinstance(st, (ast.If, ast.While, ast.For, ast.Try, ast.With)):
                blocks = [getattr(st, 'body', [])]
                if isinstance(st, ast.If):
                    blocks.append(st.orelse)
                elif isinstance(st, (ast.While, ast.For)):
                    blocks.append([])
                if isinstance(st, ast.Try):
                    blocks = [st.body + st.orelse] + [h.body for h in st.handlers]
                outs = [self.scan(b, sync, stale) for b in blocks]
                live = [o for o, b in zip(outs, blocks)
                        if not (b and isinstance(b[-1], (ast.Return, ast.Raise, ast.Continue, ast.Break)))]
                if not live:
                    live = outs
                ns = None
                nst = {}
                for s2, st2 in live:
                    ns = dict(s2) if ns is None else dict((k, v) for k, v in ns.items() if s2.get(k) == v)
                    nst.update(st2)
                sync, stale = ns or {}, nst
                if isinstance(st, ast.Try) and st.finalbody:
                    sync, stale = self.scan(st.finalbody, sync, stale)
        return sync, stale


def check_stale_packs(run, ix, rule='C-R9', rel='mpmath/libmp/libmpi.py', prefix=None):
    from .report import Finding
    m = ix.module(rel)
    total = 0
    for f in m.funcs.values():
        if not isinstance(f.node, ast.FunctionDef) or f.parent is not None:
            continue
        if prefix is not None and not f.name.startswith(prefix):
            continue
        s = StaleScan()
        s.scan(f.node.body, {}, {})
        total += s.unpacks
        for _ in range(max(0, s.unpacks - len(s.findings))):
            run.ok(rule)
        for st, pk, (comp, line) in s.findings:
            run.fail(Finding(rule, rel, f.qualname, norm(st),
                             '`%s` is used after its unpacked endpoint `%s` was recomputed (line %d) and before '
                             '`%s` was rebuilt: the packed value still denotes the old interval, so the function '
                             'is evaluated on a different argument than its endpoints describe' % (pk, comp, line, pk),
                             line=st.lineno))
    return total
