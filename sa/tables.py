"""Frozen tables: exemptions and protocol declarations, one row per symbol
with a reason.  A row whose symbol no longer exists is an ANALYSIS-ERROR
(exit 2).  No wildcard rows.  New code can never hide behind these tables:
they hold only *exemptions* for named symbols; every rule is generic.
"""

# ---------------------------------------------------------------------------
# Engine A (C11)
# ---------------------------------------------------------------------------

# Two-phase protocols: phase 1 raises the precision and stores the previous
# value on the object, phase 2 restores it.  Like __enter__/__exit__ these are
# not required to be balanced individually; instead the pairing is checked
# (rule A-R4) and every *caller* sees their leaking summaries, so a public
# entry point using them must bracket them itself.
A_PROTOCOL_PAIRS = [
    # (file, class, phase-1 method, phase-2 method, reason)
    ('mpmath/ctx_mp.py', 'PrecisionManager', '__enter__', '__exit__',
     'context-manager protocol'),
    ('mpmath/calculus/inverselaplace.py', 'FixedTalbot', 'calc_laplace_parameter',
     'calc_time_domain_solution',
     'documented two-step rule protocol: parameters are computed and the '
     'transform evaluated by the caller at the raised precision'),
    ('mpmath/calculus/inverselaplace.py', 'Stehfest', 'calc_laplace_parameter',
     'calc_time_domain_solution', 'documented two-step rule protocol'),
    ('mpmath/calculus/inverselaplace.py', 'deHoog', 'calc_laplace_parameter',
     'calc_time_domain_solution', 'documented two-step rule protocol'),
]

# Setter / bookkeeping functions that *are* the precision cell's implementation.
A_CELL_IMPLEMENTATION = [
    ('mpmath/ctx_mp_python.py', 'PythonMPContext._set_prec', 'the prec setter itself'),
    ('mpmath/ctx_mp_python.py', 'PythonMPContext._set_dps', 'the dps setter itself'),
    ('mpmath/ctx_mp_python.py', 'PythonMPContext.default', 'documented reset to 53 bits'),
    ('mpmath/ctx_iv.py', 'MPIntervalContext._set_prec', 'the prec setter itself'),
    ('mpmath/ctx_iv.py', 'MPIntervalContext._set_dps', 'the dps setter itself'),
    ('mpmath/ctx_fp.py', 'FPContext._set_prec', 'fixed precision: setter is a no-op'),
    ('mpmath/ctx_fp.py', 'FPContext._set_dps', 'fixed precision: setter is a no-op'),
]

# Infeasible paths: (file, qualname, normalised guard text, reason).  A leak
# reported only on a path through this guard is not a finding.  A changed
# guard text invalidates the row (ANALYSIS-ERROR).
A_INFEASIBLE = [
    ('mpmath/functions/zetazeros.py', 'nzeros', 'k == -1 and a < 0',
     'gram_index truncates toward zero, so k >= 0 whenever t >= 14.13 (the '
     'early return above); the k == -1 arms are dead'),
    ('mpmath/functions/zetazeros.py', 'nzeros', 'k == -1 and a > 0',
     'same as above'),
]
