"""Frozen tables: exemptions and protocol declarations, one row per symbol
with a reason.  A row whose symbol no longer exists is an ANALYSIS-ERROR
(exit 2).  No wildcard rows.  New code can never hide behind these tables:
they hold only *exemptions* for named symbols; every rule is generic.
"""

# ---------------------------------------------------------------------------
# Engine A (C11)
# ---------------------------------------------------------------------------

# Two-phase protocols: phase 1 raises the precision and stores the previous
# value on the object, phase 2 restores it.  Like __enter__/__exit__ these are
# not required to be balanced individually; instead the pairing is checked
# (rule A-R4) and every *caller* sees their leaking summaries, so a public
# entry point using them must bracket them itself.
A_PROTOCOL_PAIRS = [
    # (file, class, phase-1 method, phase-2 method, reason)
    ('mpmath/ctx_mp.py', 'PrecisionManager', '__enter__', '__exit__',
     'context-manager protocol'),
    ('mpmath/calculus/inverselaplace.py', 'FixedTalbot', 'calc_laplace_parameter',
     'calc_time_domain_solution',
     'documented two-step rule protocol: parameters are computed and the '
     'transform evaluated by the caller at the raised precision'),
    ('mpmath/calculus/inverselaplace.py', 'Stehfest', 'calc_laplace_parameter',
     'calc_time_domain_solution', 'documented two-step rule protocol'),
    ('mpmath/calculus/inverselaplace.py', 'deHoog', 'calc_laplace_parameter',
     'calc_time_domain_solution', 'documented two-step rule protocol'),
]

# Setter / bookkeeping functions that *are* the precision cell's implementation.
A_CELL_IMPLEMENTATION = [
    ('mpmath/ctx_mp_python.py', 'PythonMPContext._set_prec', 'the prec setter itself'),
    ('mpmath/ctx_mp_python.py', 'PythonMPContext._set_dps', 'the dps setter itself'),
    ('mpmath/ctx_mp_python.py', 'PythonMPContext.default', 'documented reset to 53 bits'),
    ('mpmath/ctx_iv.py', 'MPIntervalContext._set_prec', 'the prec setter itself'),
    ('mpmath/ctx_iv.py', 'MPIntervalContext._set_dps', 'the dps setter itself'),
    ('mpmath/ctx_fp.py', 'FPContext._set_prec', 'fixed precision: setter is a no-op'),
    ('mpmath/ctx_fp.py', 'FPContext._set_dps', 'fixed precision: setter is a no-op'),
]

# Infeasible paths: (file, qualname, normalised guard text, reason).  A leak
# reported only on a path through this guard is not a finding.  A changed
# guard text invalidates the row (ANALYSIS-ERROR).
A_INFEASIBLE = [
    ('mpmath/functions/zetazeros.py', 'nzeros', 'k == -1 and a < 0',
     'gram_index truncates toward zero, so k >= 0 whenever t >= 14.13 (the '
     'early return above); the k == -1 arms are dead'),
    ('mpmath/functions/zetazeros.py', 'nzeros', 'k == -1 and a > 0',
     'same as above'),
]

# ---------------------------------------------------------------------------
# Engine D (C33 / C38 / C17)
# ---------------------------------------------------------------------------
# kind:
#   tagged   entries are (tag, value) tuples; a hit must be gated on
#            stored-tag >= requested precision (rule D-R1a)
#   keyed    the working precision is part of the key (D-R1b)
#   fixed    entries are computed at one constant precision and only used
#            when the requested precision is not larger (D-R1c)
#   exact    values are exact integers / rationals / code objects: stores may
#            only happen where no precision is in scope (D-R1d)
#   purekey  the stored value is a function of the key alone (D-R1e)
#   special  has its own dedicated rule (named in 'rule')
#   state    mutable object state that is not a memo table (reason required)
CACHES = [
    dict(kind='tagged', file='mpmath/libmp/libelefun.py', func='log_int_fixed',
         container='log_int_cache', why='(value, precision) per integer'),
    dict(kind='tagged', file='mpmath/libmp/gammazeta.py', func='mpf_zeta_int',
         container='zeta_int_cache', why='(precision, value) per integer argument'),
    dict(kind='tagged', file='mpmath/ctx_base.py', func='StandardBaseContext.memoize.f_cached',
         container='f_cache', why='(precision, value) per call key; closure-local dict'),
    dict(kind='tagged', file='mpmath/functions/bessel.py', func='c_memo.f_wrapped',
         container='cache', why='ctx._misc_const_cache: (precision, value) per constant name'),
    dict(kind='tagged', file='mpmath/functions/bessel.py', func='coulombc',
         container='_cache', why='(precision, value) per (l, eta)'),
    dict(kind='tagged', file='mpmath/functions/bessel.py', func='_coulomb_chi',
         container='_cache', why='(precision, value) per (l, eta)'),
    dict(kind='tagged', file='mpmath/functions/zeta.py', func='stieltjes',
         container='stieltjes_cache', why='(precision, value) per n, stored on the context'),
    dict(kind='keyed', file='mpmath/libmp/gammazeta.py', func='mpf_bernoulli',
         container='bernoulli_cache', why='keyed by the (rounded-up) working precision'),
    dict(kind='keyed', file='mpmath/libmp/libelefun.py', func='log_taylor_cached',
         container='log_taylor_cache', why='keyed by (n, cached precision step)'),
    dict(kind='keyed', file='mpmath/libmp/libelefun.py', func='atan_taylor_get_cached',
         container='atan_taylor_cache', why='keyed by (n, precision step)'),
    dict(kind='keyed', file='mpmath/libmp/gammazeta.py', func='gamma_taylor_coefficients',
         container='gamma_taylor_cache', why='keyed by precision; higher-precision entries are shifted down'),
    dict(kind='keyed', file='mpmath/calculus/quadrature.py', func='QuadratureRule.get_nodes',
         container='self.standard_cache', why='keyed by (degree, precision)'),
    dict(kind='keyed', file='mpmath/calculus/quadrature.py', func='QuadratureRule.get_nodes',
         container='self.transformed_cache', why='keyed by (a, b, degree, precision)'),
    dict(kind='fixed', file='mpmath/libmp/libelefun.py', func='cos_sin_basecase',
         container='cos_sin_cache', const='COS_SIN_CACHE_PREC',
         why='entries computed at COS_SIN_CACHE_PREC; bypassed above it'),
    dict(kind='exact', file='mpmath/libmp/gammazeta.py', func='borwein_coefficients',
         container='borwein_cache', why='exact integer coefficients'),
    dict(kind='exact', file='mpmath/libmp/gammazeta.py', func='stirling_coefficient',
         container='gamma_stirling_cache', why='exact rational numbers'),
    dict(kind='exact', file='mpmath/libmp/gammazeta.py', func='primesieve',
         container='sieve_cache,primes_cache,mult_cache', why='exact integer sieve'),
    dict(kind='exact', file='mpmath/libmp/libintmath.py', func='ifib', container='_cache',
         why='exact integers'),
    dict(kind='exact', file='mpmath/libmp/libintmath.py', func='ifac', container='memo',
         why='exact integers'),
    dict(kind='exact', file='mpmath/libmp/libintmath.py', func='ifac2', container='memo',
         why='exact integers (memo_pair[n&1])'),
    dict(kind='exact', file='mpmath/libmp/libintmath.py', func='eulernum', container='_cache',
         why='exact integers'),
    dict(kind='exact', file='mpmath/rational.py', func='create_reduced', container='_cache',
         why='exact reduced fractions'),
    dict(kind='exact', file='mpmath/calculus/differentiation.py', func='dpoly', container='_cache',
         why='exact integer polynomial coefficients'),
    dict(kind='exact', file='mpmath/libmp/libmpf.py', func=None, container='int_cache',
         why='exact small integers, built once at import; must never be written from a function'),
    dict(kind='purekey', file='mpmath/ctx_mp.py', func='MPContext.hypsum',
         container='ctx.hyp_summators', why='generated summation routine for a parameter-type signature'),
    dict(kind='special', rule='D-R2', file='mpmath/libmp/libelefun.py', func='constant_memo.g',
         container='f.memo_val', why='fixed-point constant with separate precision tag f.memo_prec'),
    dict(kind='special', rule='D-LU', file='mpmath/matrices/linalg.py',
         func='LinearAlgebraMethods.LU_decomp', container='A._LU',
         why='LU factors cached on the matrix object'),
    dict(kind='special', rule='D-RS', file='mpmath/functions/rszeta.py', func='coef',
         container='ctx._rs_cache', why='Riemann-Siegel coefficients, tagged by (J, eps)'),
    dict(kind='special', rule='D-IV', file='mpmath/functions/bessel.py', func='bessel_zero',
         container='_interval_cache',
         why='bracketing intervals only; the root is re-solved at the current precision on every call.  Since '
             'fix 9c.. the dict is the context\'s own _misc_const_cache (it was a default argument shared by all '
             'contexts, and the exemption this row then gave from D-R3 was wrong: fp.besseljzero changed in the '
             '12th digit after mp had filled the cache)'),
    dict(kind='state', file='mpmath/functions/zeta.py', func='_load_zeta_zeros',
         container='_zeta_zeros', why='table of approximate starting points, replaced wholesale'),
    dict(kind='state', file='mpmath/calculus/extrapolation.py', func='levin_class.run',
         container='self.A', why='per-object extrapolation table, not a memo of results'),
    dict(kind='state', file='mpmath/calculus/extrapolation.py', func='levin_class.run',
         container='self.B', why='per-object extrapolation table'),
    dict(kind='state', file='mpmath/calculus/quadrature.py', func='QuadratureRule.get_nodes',
         container='self.interval_count', why='unused counter'),
    dict(kind='state', file='mpmath/ctx_mp.py', func='PrecisionManager.__enter__',
         container='self.origp', why='stack of saved precisions of one manager object (pushed in __enter__, '
         'popped in __exit__; C11 rule A-R4), holds no computed value'),
    dict(kind='state', file='mpmath/functions/functions.py', func='SpecialFunctions.__init__',
         container='self._aliases', why='alias table filled at construction'),
    dict(kind='state', file='mpmath/functions/hypergeometric.py', func='hypercomb',
         container='params', why='argument list, only read (copied)'),
    dict(kind='state', file='mpmath/matrices/matrices.py', func='_matrix', container='self.__data',
         why='matrix payload; covered by rule D-R4'),
    dict(kind='state', file='mpmath/ctx_mp_python.py', func='PythonMPContext', container='ctx._prec_rounding',
         why='the precision cell itself (C11 A-R6)'),
    dict(kind='state', file='mpmath/ctx_iv.py', func='MPIntervalContext', container='ctx._prec',
         why='the precision cell itself (C11 A-R6)'),
    dict(kind='exact', file='mpmath/ctx_fp.py', func='FPContext.bernoulli', container='cache',
         why='fp context has fixed 53-bit precision; values are floats'),
    dict(kind='state', file='mpmath/calculus/differentiation.py', func='iterable_to_function.f',
         container='data', why='lazily materialised prefix of a user iterable; values are stored as given'),
    dict(kind='state', file='mpmath/ctx_base.py', func='StandardBaseContext.maxcalls.f_maxcalls_wrapped',
         container='counter', why='call counter of maxcalls'),
]

# ---------------------------------------------------------------------------
# Engine B (C10)
# ---------------------------------------------------------------------------
# Documented exact operations: (file, qualname, site text or None for the whole
# function, reason).  Only these may hand out a value that did not pass a
# rounding step at the working precision.
B_EXACT_OPS = [
    ('mpmath/ctx_mp_python.py', 'PythonMPContext.convert', None,
     'convert/mpmathify of int, float, complex, mpf, mpc is documented as lossless'),
    ('mpmath/ctx_mp_python.py', 'PythonMPContext.npconvert', None,
     'conversion of numpy scalars is lossless (part of convert)'),
    ('mpmath/ctx_mp_python.py', 'PythonMPContext.make_mpf', None,
     'the raw constructor itself: every *caller* is an obligation site'),
    ('mpmath/ctx_mp_python.py', 'PythonMPContext.make_mpc', None,
     'the raw constructor itself: every *caller* is an obligation site'),
    ('mpmath/ctx_mp_python.py', '_mpf.__setstate__', None,
     'unpickling restores the pickled value exactly (C40)'),
    ('mpmath/ctx_mp_python.py', '_mpc.__setstate__', None,
     'unpickling restores the pickled value exactly (C40)'),
    ('mpmath/ctx_mp_python.py', '_mpc.<lambda@real>', None, 'component access is exact'),
    ('mpmath/ctx_mp_python.py', '_mpc.<lambda@imag>', None, 'component access is exact'),
    ('mpmath/ctx_mp_python.py', '_mpf.mpf_convert_lhs', None,
     'wraps the exact conversion of the left operand of a reflected operator; '
     'the operator then rounds'),
    ('mpmath/ctx_mp_python.py', '_mpc.__new__', 'real._mpc_',
     'duck-typed conversion of a foreign object exposing _mpc_ (every mpc of any '
     'context takes the rounding branch above it): treated like convert'),
    ('mpmath/ctx_mp.py', 'MPContext.ldexp', None, 'documented exact operation'),
    ('mpmath/ctx_mp.py', 'MPContext.frexp', None, 'documented exact operation'),
]

# Sites where the analysis cannot classify the value (not: classifies it as
# unrounded).  (file, qualname, return/statement text or None, reason)
B_UNDECIDED = [
    ('mpmath/ctx_mp.py', 'MPContext.hypsum', None,
     'value comes from the run-time generated summator (libhyper.make_hyp_summator), '
     'which is outside the analysed source (DESIGN section 8)'),
]

# ---------------------------------------------------------------------------
# Engine C (C14 / C15)
# ---------------------------------------------------------------------------
# interval functions that return a PAIR of intervals
C_PAIR_RETURNING = {'mpi_cos_sin', 'mpi_cosh_sinh'}
# mpci_* functions that return a real interval
C_REAL_VALUED = {'mpci_arg', 'mpci_abs'}
# documented values of the `type` mode parameter of the gamma family
C_TYPE_VALUES = (0, 1, 2, 3)
# (function, callee): rounded operands in a non-monotone position that are
# nevertheless direction-safe, with the reason
C_OPERAND_EXEMPT = {
    ('mpi_from_str_a_b', 'mpf_mul'):
        'both factors are non-negative upper bounds (max of absolute values of the centre, '
        'half-width asserted >= 0), so the product rounded up is an upper bound',
    ('mpi_from_str_a_b', 'python_mpf_mul'): 'same as mpf_mul',
    ('mpi_from_str_a_b', 'gmpy_mpf_mul'): 'same as mpf_mul',
    ('mpi_from_str_a_b', 'mpf_div'):
        'non-negative upper bound divided by the exact positive constant 100, rounded up',
    ('mpci_gamma', 'mpc_loggamma'):
        'evaluation at a corner of the (outward rounded) rectangle; WHICH corner bounds the '
        'function is the monotonicity-region question that this family does not decide',
}
