"""Flow-sensitive sign analysis of integer locals (rule Y-R8 of C37: arguments of bitcount are non-negative).

python_bitcount returns 0 for a negative integer (it bisects a table of powers of two), gmpy's bit_length the bit
length of the absolute value: `bitcount(e)` means the same thing on both back ends only when e >= 0.  The analysis
interprets one function over the lattice of sign sets {-, 0, +} per local name (absent = unknown), with

  * branch refinement by tests `x < 0`, `x >= 0`, `x > 0`, `x <= 0`, `x == 0`, `x != 0`, `x`, `not x`, and / or;
  * integer arithmetic on sign sets: products, sums, negation, shifts (the sign of the left operand is kept; a
    right shift of a positive value may reach zero), floor quotients and remainders by positive divisors, powers,
    and the integer facts  positive - 1 >= 0  and  non-negative + 1 > 0;
  * abs / len / bitcount / factorials are non-negative; max is bounded below by its non-negative arguments;
  * the fields of a raw mpf tuple `sign, man, exp, bc = x` (property C01: sign in {0, 1}, man >= 0, bc >= 0);
  * parameters only through the frozen contract table of sa/nonneg.py.

At every call bitcount(e) the sign set of e in the state BEFORE the enclosing statement is recorded (joined over
all visits).  Sound for the modelled fragment; anything else evaluates to "unknown" (never assumed non-negative)."""
import ast

from .flow import FlowAnalysis
from .index import norm
from .nonneg import PARAM_CONTRACT, PARAM_POSITIVE, PARAM_BIT, MPQ_FIELD

NEG, ZERO, POS = -1, 0, 1
TOP = frozenset((NEG, ZERO, POS))
NONNEG = frozenset((ZERO, POS))
POSITIVE = frozenset((POS,))
ZEROSET = frozenset((ZERO,))
BITS = '#bits'
BITCOUNT = ('bitcount', 'python_bitcount', 'gmpy_bitcount')
NONNEG_CALLS = ('abs', 'len', 'ifac', 'ifac2', 'trailing', 'isqrt', 'isqrt_fast', 'isqrt_small', 'sqrt_fixed',
                'ord') + BITCOUNT


def s_mul(a, b):
    return frozenset(x * y for x in a for y in b)


def s_neg(a):
    return frozenset(-x for x in a)


def s_add(a, b):
    out = set()
    for x in a:
        for y in b:
            if x == 0:
                out.add(y)
            elif y == 0:
                out.add(x)
            elif x == y:
                out.add(x)
            else:
                out.update(TOP)
    return frozenset(out)


class IntSign(FlowAnalysis):
    max_iter = 60

    def __init__(self, f, watch=None):
        self.f = f
        self.sites = {}          # bitcount Call node -> joined sign set of its argument
        self.watch = watch or {}  # callee name -> indices of the arguments whose sign is recorded
        self.watched = {}        # (Call node, index) -> joined sign set
        self.in_libmp = '/libmp/' in f.file

    # ---- lattice: dict name -> sign set; missing = TOP ---------------------------
    def join(self, a, b):
        out = {}
        for k in a:
            if k in b:
                if k == BITS:
                    out[k] = a[k] & b[k]        # names known to hold 0 or 1 on both paths
                    continue
                u = a[k] | b[k]
                if u != TOP:
                    out[k] = u
        return out

    def is_bit(self, e, st):
        """the expression is 0 or 1: a sign field, a comparison, xor / and / or of such, 1 - such"""
        if isinstance(e, ast.Constant):
            return e.value in (0, 1) and not isinstance(e.value, float)
        if isinstance(e, ast.Name):
            return e.id in st.get(BITS, frozenset())
        if isinstance(e, ast.Compare):
            return True
        if isinstance(e, ast.Call) and norm(e.func) == 'bool' and len(e.args) == 1:
            return True
        if isinstance(e, ast.UnaryOp) and isinstance(e.op, ast.Not):
            return True
        if isinstance(e, ast.BinOp) and isinstance(e.op, (ast.BitXor, ast.BitAnd, ast.BitOr)):
            return self.is_bit(e.left, st) and self.is_bit(e.right, st)
        if isinstance(e, ast.BinOp) and isinstance(e.op, ast.BitAnd) and \
                (isinstance(e.right, ast.Constant) and e.right.value == 1):
            return True
        if isinstance(e, ast.BinOp) and isinstance(e.op, ast.Sub) and isinstance(e.left, ast.Constant) and \
                e.left.value == 1:
            return self.is_bit(e.right, st)
        if isinstance(e, ast.IfExp):
            return self.is_bit(e.body, st) and self.is_bit(e.orelse, st)
        return False

    def initial(self):
        st = {BITS: frozenset(p for p in self.f.params if (self.f.qualname.split('.')[-1], p) in PARAM_BIT)}
        for p in st[BITS]:
            st[p] = NONNEG
        short = self.f.qualname.split('.')[-1]
        for p in self.f.params:
            if (short, p) in PARAM_POSITIVE:
                st[p] = POSITIVE
            elif (short, p) in PARAM_CONTRACT:
                st[p] = NONNEG
        return st

    # ---- expressions ---------------------------------------------------------------
    def ev(self, e, st):
        if not isinstance(e, (ast.Constant, ast.Name)) and self.is_bit(e, st):
            return NONNEG
        if isinstance(e, ast.Constant):
            v = e.value
            if isinstance(v, bool):
                return POSITIVE if v else ZEROSET
            if isinstance(v, (int, float)):
                return POSITIVE if v > 0 else (ZEROSET if v == 0 else frozenset((NEG,)))
            return TOP
        if isinstance(e, ast.Name):
            if e.id in st:
                return st[e.id]
            if e.id in ('MPZ_ONE', 'MPZ_TWO', 'MPZ_THREE', 'MPZ_FIVE'):
                return POSITIVE
            if e.id == 'MPZ_ZERO':
                return ZEROSET
            return TOP
        if isinstance(e, ast.UnaryOp):
            if isinstance(e.op, ast.USub):
                return s_neg(self.ev(e.operand, st))
            if isinstance(e.op, ast.UAdd):
                return self.ev(e.operand, st)
            return TOP
        if isinstance(e, ast.BinOp):
            a, b = self.ev(e.left, st), self.ev(e.right, st)
            op = e.op
            if isinstance(op, ast.Mult):
                if norm(e.left) == norm(e.right):
                    return NONNEG if ZERO in a else POSITIVE
                return s_mul(a, b)
            if isinstance(op, ast.Add):
                if a <= NONNEG and b <= POSITIVE or b <= NONNEG and a <= POSITIVE:
                    return POSITIVE
                return s_add(a, b)
            if isinstance(op, ast.Sub):
                if isinstance(e.right, ast.Constant) and e.right.value == 1 and a <= POSITIVE:
                    return NONNEG                         # an integer > 0 is >= 1
                return s_add(a, s_neg(b))
            if isinstance(op, ast.LShift):
                return a
            if isinstance(op, ast.RShift):
                out = set()
                for x in a:
                    if x == POS:
                        out.update((ZERO, POS))
                    else:
                        out.add(x)                        # -1 >> k == -1: a negative value stays negative
                return frozenset(out)
            if isinstance(op, ast.FloorDiv):
                if b <= POSITIVE:
                    out = set()
                    for x in a:
                        if x == POS:
                            out.update((ZERO, POS))
                        else:
                            out.add(x)
                    return frozenset(out)
                return TOP
            if isinstance(op, ast.Mod):
                return NONNEG if b <= POSITIVE else TOP
            if isinstance(op, ast.Pow):
                if isinstance(e.right, ast.Constant) and isinstance(e.right.value, int) and e.right.value % 2 == 0 \
                        and e.right.value > 0:
                    return NONNEG if ZERO in a else POSITIVE
                if a <= NONNEG and b <= NONNEG:
                    return NONNEG
                if a <= POSITIVE:
                    return POSITIVE
                return TOP
            if isinstance(op, ast.BitAnd):
                if a <= NONNEG or b <= NONNEG:
                    return NONNEG
                return TOP
            if isinstance(op, ast.BitXor):
                if a <= NONNEG and b <= NONNEG:
                    return NONNEG
                return TOP
            if isinstance(op, ast.BitOr):
                if a <= NONNEG and b <= NONNEG:
                    return NONNEG
                return TOP
            return TOP
        if isinstance(e, ast.Call):
            fn = norm(e.func)
            if fn in NONNEG_CALLS:
                return NONNEG
            if fn in ('int', 'MPZ', 'long') and len(e.args) == 1:
                return self.ev(e.args[0], st)
            if fn == 'max' and e.args and not e.keywords:
                vals = [self.ev(a, st) for a in e.args]
                if any(v <= POSITIVE for v in vals):
                    return POSITIVE
                if any(v <= NONNEG for v in vals):
                    return NONNEG
                return TOP
            if fn == 'min' and e.args and not e.keywords:
                vals = [self.ev(a, st) for a in e.args]
                u = frozenset().union(*vals)
                return u if all(v != TOP for v in vals) else TOP
            return TOP
        if isinstance(e, ast.IfExp):
            t, f_ = self.refine(e.test, st)
            out = frozenset()
            if t is not None:
                out |= self.ev(e.body, t)
            if f_ is not None:
                out |= self.ev(e.orelse, f_)
            return out or TOP
        if isinstance(e, ast.Subscript) and self.in_libmp and isinstance(e.slice, ast.Constant) and \
                e.slice.value in (1, 3) and isinstance(e.value, ast.Name) and e.value.id in self.f.params:
            return NONNEG                                  # mantissa / bit count of a raw mpf parameter
        return TOP

    # ---- tests -----------------------------------------------------------------------
    def refine(self, t, st):
        """(state if true, state if false); None = unreachable"""
        if isinstance(t, ast.BoolOp):
            if isinstance(t.op, ast.And):
                cur = st
                false = None
                for v in t.values:
                    if cur is None:
                        break
                    tt, ff = self.refine(v, cur)
                    false = self.j(false, ff)
                    cur = tt
                return cur, false
            cur = st
            true = None
            for v in t.values:
                if cur is None:
                    break
                tt, ff = self.refine(v, cur)
                true = self.j(true, tt)
                cur = ff
            return true, cur
        if isinstance(t, ast.UnaryOp) and isinstance(t.op, ast.Not):
            a, b = self.refine(t.operand, st)
            return b, a
        if isinstance(t, ast.Name):
            return self._restrict(st, t.id, frozenset((NEG, POS))), self._restrict(st, t.id, ZEROSET, weak=True)
        if isinstance(t, ast.Compare) and len(t.ops) == 1 and isinstance(t.left, ast.Name):
            r = t.comparators[0]
            rs = self.ev(r, st)
            n = t.left.id
            op = type(t.ops[0])
            if rs == ZEROSET:
                table = {ast.Lt: (frozenset((NEG,)), NONNEG), ast.LtE: (frozenset((NEG, ZERO)), POSITIVE),
                         ast.Gt: (POSITIVE, frozenset((NEG, ZERO))), ast.GtE: (NONNEG, frozenset((NEG,))),
                         ast.Eq: (ZEROSET, frozenset((NEG, POS))), ast.NotEq: (frozenset((NEG, POS)), ZEROSET)}
                if op in table:
                    a, b = table[op]
                    return self._restrict(st, n, a), self._restrict(st, n, b)
            if rs <= NONNEG and op in (ast.Gt,):                 # x > (something >= 0)  =>  x > 0
                return self._restrict(st, n, POSITIVE), st
            if rs <= POSITIVE and op in (ast.GtE, ast.Gt, ast.Eq):        # x >= (something > 0)  =>  x > 0
                return self._restrict(st, n, POSITIVE), st
            if rs <= POSITIVE and op is ast.Lt:                  # not (x < 1)  =>  x >= 1
                return st, self._restrict(st, n, POSITIVE)
            if rs <= NONNEG and op is ast.Lt:                    # not (x < c), c >= 0  =>  x >= 0
                return st, self._restrict(st, n, NONNEG)
            if rs <= NONNEG and op in (ast.GtE, ast.Eq):
                return self._restrict(st, n, NONNEG), st
        return st, st

    @staticmethod
    def _restrict(st, n, allowed, weak=False):
        """weak: a falsy NAME need not be an integer zero (None, empty tuple) -- but then it is never a bitcount
        argument either; recording 'zero' is harmless for the sign of integer expressions"""
        cur = st.get(n, TOP)
        new = cur & allowed
        if not new:
            return None
        out = dict(st)
        if new == TOP:
            out.pop(n, None)
        else:
            out[n] = new
        return out

    # ---- hooks -----------------------------------------------------------------------
    def record(self, node, st):
        for x in ast.walk(node):
            if isinstance(x, ast.Call) and isinstance(x.func, ast.Name) and x.func.id in BITCOUNT and x.args:
                self.sites[x] = self.sites.get(x, frozenset()) | self.ev(x.args[0], st)
            if isinstance(x, ast.Call) and isinstance(x.func, ast.Name) and x.func.id in self.watch:
                for i in self.watch[x.func.id]:
                    if i < len(x.args) and not isinstance(x.args[i], ast.Starred):
                        self.watched[(x, i)] = self.watched.get((x, i), frozenset()) | self.ev(x.args[i], st)

    def assign(self, target, value_sign, value_node, st, bit=None):
        if isinstance(target, ast.Name):
            out = dict(st)
            if value_sign == TOP:
                out.pop(target.id, None)
            else:
                out[target.id] = value_sign
            if bit is None:
                bit = value_node is not None and self.is_bit(value_node, st)
            bits = st.get(BITS, frozenset())
            out[BITS] = (bits | {target.id}) if bit else (bits - {target.id})
            return out
        if isinstance(target, (ast.Tuple, ast.List)):
            names = target.elts
            if isinstance(value_node, (ast.Tuple, ast.List)) and len(value_node.elts) == len(names):
                vals = [self.ev(v, st) for v in value_node.elts]
                out = st
                for t, v, vn in zip(names, vals, value_node.elts):
                    out = self.assign(t, v, vn, out)
                return out
            out = st
            mpf4 = len(names) == 4 and all(isinstance(t, ast.Name) for t in names) and \
                not isinstance(value_node, ast.Call)
            dm = isinstance(value_node, ast.Call) and norm(value_node.func) == 'divmod' and len(names) == 2 and \
                len(value_node.args) == 2
            mpq = len(names) == 2 and isinstance(value_node, ast.Attribute) and value_node.attr == MPQ_FIELD
            for i, t in enumerate(names):
                v = TOP
                if mpf4 and i in (0, 1, 3):
                    v = NONNEG
                if mpq and i == 1:
                    v = NONNEG            # create_reduced divides by a gcd that carries the sign of q
                if mpf4 and i == 0:
                    out = self.assign(t, v, None, out, bit=True)      # the sign field is 0 or 1
                    continue
                if dm:
                    a, b = self.ev(value_node.args[0], st), self.ev(value_node.args[1], st)
                    if b <= POSITIVE:
                        v = NONNEG if (i == 1 or a <= NONNEG) else TOP
                out = self.assign(t, v, None, out)
            return out
        return st                      # attribute / subscript stores do not change local names

    def simple(self, node, st):
        self.record(node, st)
        if isinstance(node, ast.Assign):
            v = self.ev(node.value, st)
            out = st
            for t in node.targets:
                out = self.assign(t, v, node.value, out)
            return out, st
        if isinstance(node, ast.AugAssign) and isinstance(node.target, ast.Name):
            fake = ast.BinOp(left=ast.Name(id=node.target.id, ctx=ast.Load()), op=node.op, right=node.value)
            v = self.ev(fake, st)
            return self.assign(node.target, v, fake, st), st
        return st, st

    def cond(self, test, st):
        self.record(test, st)
        t, f_ = self.refine(test, st)
        return t, f_, st

    def ret(self, node, st):
        if node.value is not None:
            self.record(node.value, st)
        return st, st

    def raise_(self, node, st):
        return st

    def for_iter(self, node, st):
        self.record(node.iter, st)
        return st, st

    def for_target(self, node, st):
        it = node.iter
        v = TOP
        if isinstance(it, ast.Call) and norm(it.func) in ('range', 'xrange') and it.args and not it.keywords:
            a = it.args
            if len(a) == 1:
                v = NONNEG
            elif len(a) == 2 or (len(a) == 3 and self.ev(a[2], st) <= POSITIVE):
                s0 = self.ev(a[0], st)
                v = POSITIVE if s0 <= POSITIVE else (NONNEG if s0 <= NONNEG else TOP)
        return self.assign(node.target, v, None, st)

    def with_enter(self, node, st):
        out = st
        for it in node.items:
            self.record(it.context_expr, st)
            if it.optional_vars is not None:
                out = self.assign(it.optional_vars, TOP, None, out)
        return out, st, None

    def handler_entry(self, handler, st):
        # after an exception anywhere in the try body nothing is known about names assigned there
        return {BITS: frozenset()}

    def nested_def(self, node, st):
        return st


def analyse(f):
    a = IntSign(f)
    a.run(f.node.body, a.initial())
    return a.sites


def analyse_watch(f, watch):
    a = IntSign(f, watch)
    a.run(f.node.body, a.initial())
    return a.watched
