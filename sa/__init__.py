"""Static analysis of mpmath for the /verif properties (stdlib ast only).

Nothing under /repo is imported or executed by this package: every verdict is
computed from parsed source text.
"""
