"""Engine A -- precision-effect analysis (C11, clauses of C34/C38).

For every function: the working-precision cell (``<ctx>.prec``/``.dps``) is
tracked relative to its value on entry, along every path and for every kind of
exit (normal / return / propagating exception).  Inter-procedural through
bottom-up summaries iterated to a fix-point.
"""
import ast

from .flow import FlowAnalysis, Outcome, calls_in, may_raise_expr
from .index import AnalysisError, norm
from .resolve import get_resolver

E = 'E'                   # cell == value on entry
T = 'T'                   # unknown
MANAGERS = ('workprec', 'workdps', 'extraprec', 'extradps')
MAXSTACK = 4


def is_cell_attr(node):
    return isinstance(node, ast.Attribute) and node.attr in ('prec', 'dps')


class Summary(object):
    __slots__ = ('leak_n', 'leak_x', 'origins_n', 'origins_x', 'r3', 'writes')

    def __init__(self):
        self.leak_n = False
        self.leak_x = False
        self.origins_n = frozenset()
        self.origins_x = frozenset()
        self.r3 = []
        self.writes = 0

    def sig(self):
        return (self.leak_n, self.leak_x, self.origins_n, self.origins_x)


class State(object):
    __slots__ = ('cell', 'snaps', 'tags', '_h')

    def __init__(self, cell=E, snaps=frozenset(), tags=frozenset()):
        self.cell = cell
        self.snaps = snaps
        self.tags = tags
        self._h = hash((cell, snaps, tags))

    def __eq__(self, o):
        return isinstance(o, State) and self.cell == o.cell and \
            self.snaps == o.snaps and self.tags == o.tags

    def __ne__(self, o):
        return not self.__eq__(o)

    def __hash__(self):
        return self._h

    def with_(self, cell=None, snaps=None, tags=None):
        return State(self.cell if cell is None else cell,
                     self.snaps if snaps is None else snaps,
                     self.tags if tags is None else tags)

    def __repr__(self):
        return 'State(%r, %r, %d tags)' % (self.cell, sorted(self.snaps), len(self.tags))


class FuncAnalysis(FlowAnalysis):
    """Analysis of one function body under the current summaries."""

    def __init__(self, engine, func):
        self.eng = engine
        self.func = func
        self.sites = {}       # tag id -> (kind, node, text)
        self.r3 = []          # restore-through-dps sites
        self.nwrites = 0
        self.fresh = self._fresh_locals()
        self.unresolved = 0
        self.callback_calls = 0

    # -- helpers -----------------------------------------------------------
    def _fresh_locals(self):
        """locals bound to a freshly constructed context object
        (``a = ctx.__class__()``): writes to their .prec are not writes to the
        caller-visible cell (escape check: the local is only ever returned)."""
        out = set()
        node = self.func.node
        for x in ast.walk(node):
            if isinstance(x, ast.Assign) and len(x.targets) == 1 and \
                    isinstance(x.targets[0], ast.Name) and isinstance(x.value, ast.Call):
                fn = x.value.func
                if isinstance(fn, ast.Attribute) and fn.attr == '__class__' or \
                        (isinstance(fn, ast.Attribute) and isinstance(fn.value, ast.Attribute)
                         and fn.value.attr == '__class__'):
                    out.add(x.targets[0].id)
                elif isinstance(fn, ast.Name) and fn.id in self.eng.res.context_class_names:
                    out.add(x.targets[0].id)
        return out

    def tag(self, kind, node, text=None):
        tid = (kind, id(node))
        if tid not in self.sites:
            self.sites[tid] = (kind, node, text or norm(node))
        return tid

    def join(self, a, b):
        if a == b:
            return a
        cell = a.cell if a.cell == b.cell else T
        return State(cell, a.snaps & b.snaps, a.tags | b.tags)

    def widen(self, old, new, n):
        return self.join(old, new)

    def trust_catch_all(self, st):
        # KeyboardInterrupt & co pass `except Exception`; only a bare except
        # or BaseException is treated as catching everything
        for h in st.handlers:
            if h.type is None or norm(h.type) == 'BaseException':
                return True
        return False

    # -- cell operations ---------------------------------------------------
    def _is_cell_target(self, t):
        if not is_cell_attr(t):
            return False
        if isinstance(t.value, ast.Name) and t.value.id in self.fresh:
            return False
        return True

    def _snap_lookup(self, state, expr, kind):
        key = norm(expr)
        for (v, k, cell) in state.snaps:
            if v == key and k == kind:
                return cell
        return None

    def _kill(self, state, names):
        if not names:
            return state
        snaps = frozenset(s for s in state.snaps if s[0] not in names and
                          s[0].split('.')[0] not in names)
        cell = state.cell
        if isinstance(cell, tuple):
            for (expr, vars_) in cell[1]:
                if vars_ & names:
                    cell = T
                    break
        if snaps == state.snaps and cell == state.cell:
            return state
        return state.with_(cell=cell, snaps=snaps)

    def _dirty(self, state, node, why):
        return state.with_(cell=T, tags=state.tags | {self.tag('w', node, why)})

    def _exc_state(self, state, node):
        """state seen by an exception raised at `node`"""
        if state is None:
            return None
        if state.cell == E:
            return state
        return state.with_(tags=state.tags | {self.tag('x', node)})

    # -- calls ---------------------------------------------------------------
    def _apply_calls(self, node, state):
        """Apply callee summaries of every call inside `node` (source order).
        Returns (state_after, exc_state)."""
        exc = None
        for call in calls_in(node):
            ln, lx, how = self.eng.call_effect(self.func, call, self)
            # the call may raise with the state as it is now
            exc = self.j(exc, self._exc_state(state, call))
            if lx:
                exc = self.j(exc, state.with_(
                    cell=T, tags=state.tags | {self.tag('cx', call, how)}))
            if ln:
                state = state.with_(cell=T, tags=state.tags | {self.tag('cn', call, how)})
        return state, exc

    # -- hooks ---------------------------------------------------------------
    def simple(self, node, state):
        state, exc = self._apply_calls(node, state)
        if may_raise_expr(node) and not self._atomic_restore(node):
            exc = self.j(exc, self._exc_state(state, node))
        if isinstance(node, ast.Assign):
            state = self._assign(node, state)
        elif isinstance(node, ast.AugAssign):
            state = self._augassign(node, state)
        elif isinstance(node, ast.AnnAssign) and node.value is not None:
            state = self._kill(state, _stored_names(node.target))
        elif isinstance(node, ast.Delete):
            pass
        return state, exc

    def _atomic_restore(self, node):
        """`<ctx>.prec = name` / `<ctx>.prec = self.saved`: the store itself is
        the restoring step; it is modelled as not raising."""
        if isinstance(node, ast.Assign) and len(node.targets) == 1 and \
                self._is_cell_target(node.targets[0]):
            return _simple_arith(node.value)
        if isinstance(node, ast.AugAssign) and self._is_cell_target(node.target):
            return _simple_arith(node.value)
        return False

    def _assign(self, node, state):
        # writes to the cell
        for t in node.targets:
            if self._is_cell_target(t):
                self.nwrites += 1
                return self._write(node, t, node.value, state)
            if isinstance(t, (ast.Tuple, ast.List)):
                for e in t.elts:
                    if self._is_cell_target(e):
                        self.nwrites += 1
                        return self._dirty(state, node, 'tuple assignment to the precision cell')
        # snapshots
        names = set()
        for t in node.targets:
            names |= _stored_names(t)
        state = self._kill(state, names)
        v = node.value
        if is_cell_attr(v) and state.cell != T and self._is_cell_target(v) and \
                all(isinstance(t, (ast.Name, ast.Attribute)) for t in node.targets):
            return state.with_(snaps=state.snaps | set(
                (norm(t), v.attr, state.cell) for t in node.targets))
        if len(node.targets) == 1:
            t = node.targets[0]
            # prec, rounding = ctx._prec_rounding
            if isinstance(t, ast.Tuple) and isinstance(v, ast.Attribute) and \
                    v.attr == '_prec_rounding' and t.elts and \
                    isinstance(t.elts[0], ast.Name) and state.cell != T:
                return state.with_(snaps=state.snaps | {(t.elts[0].id, 'prec', state.cell)})
            # copy of a snapshot variable
            if isinstance(v, ast.Name) and isinstance(t, (ast.Name, ast.Attribute)):
                add = set()
                for (sv, k, cell) in state.snaps:
                    if sv == v.id:
                        add.add((norm(t), k, cell))
                if add:
                    return state.with_(snaps=state.snaps | add)
        return state

    def _write(self, node, target, value, state):
        kind = target.attr
        snap = self._snap_lookup(state, value, kind) if isinstance(
            value, (ast.Name, ast.Attribute)) else None
        if snap is not None:
            if kind == 'dps':
                # restore through dps: prec -> dps -> prec is not the identity
                self.r3.append(node)
            tags = state.tags if snap != E else frozenset()
            return state.with_(cell=snap, tags=tags)
        # ctx.prec = ctx.prec (no-op) stays
        if is_cell_attr(value) and value.attr == kind and norm(value) == norm(target):
            return state
        return self._dirty(state, node, 'precision set to a computed value')

    def _augassign(self, node, state):
        t = node.target
        if not self._is_cell_target(t):
            return self._kill(state, _stored_names(t))
        self.nwrites += 1
        if t.attr == 'prec' and isinstance(node.op, (ast.Add, ast.Sub)):
            expr = norm(node.value)
            vars_ = frozenset(x.id for x in ast.walk(node.value) if isinstance(x, ast.Name))
            has_call = any(isinstance(x, (ast.Call, ast.Attribute)) for x in ast.walk(node.value))
            cell = state.cell
            if cell == T or has_call:
                return self._dirty(state, node, 'relative change of an unknown precision')
            stack = cell[1] if isinstance(cell, tuple) else ()
            sign = '+' if isinstance(node.op, ast.Add) else '-'
            inv = '-' if sign == '+' else '+'
            if stack and stack[-1][0] == inv + expr:
                stack = stack[:-1]
                if not stack:
                    return state.with_(cell=E, tags=frozenset())
                return state.with_(cell=('D', stack))
            if len(stack) >= MAXSTACK:
                return self._dirty(state, node, 'precision raised repeatedly')
            stack = stack + ((sign + expr, vars_),)
            return state.with_(cell=('D', stack),
                               tags=state.tags | {self.tag('w', node, 'precision changed here')})
        return self._dirty(state, node, 'non-invertible precision update')

    def cond(self, test, state):
        s, exc = self._apply_calls(test, state)
        if may_raise_expr(test):
            exc = self.j(exc, self._exc_state(s, test))
        return s, s, exc

    def ret(self, node, state):
        if node.value is None:
            return state, None
        s, exc = self._apply_calls(node.value, state)
        if may_raise_expr(node.value):
            exc = self.j(exc, self._exc_state(s, node))
        return s, exc

    def raise_(self, node, state):
        s, exc = self._apply_calls(node, state)
        return self.j(exc, self._exc_state(s, node))

    def for_iter(self, node, state):
        s, exc = self._apply_calls(node.iter, state)
        exc = self.j(exc, self._exc_state(s, node.iter))
        return s, exc

    def for_target(self, node, state):
        return self._kill(state, _stored_names(node.target))

    def handler_entry(self, handler, state):
        if handler.name:
            return self._kill(state, {handler.name})
        return state

    def nested_def(self, node, state):
        return self._kill(state, {node.name})

    def with_enter(self, node, state):
        mgr = False
        s = state
        exc = None
        for item in node.items:
            s, e = self._apply_calls(item.context_expr, s)
            exc = self.j(exc, e)
            exc = self.j(exc, self._exc_state(s, item.context_expr))
            c = item.context_expr
            if isinstance(c, ast.Call) and isinstance(c.func, ast.Attribute) and \
                    c.func.attr in MANAGERS:
                mgr = True
            if item.optional_vars is not None:
                s = self._kill(s, _stored_names(item.optional_vars))
        return s, exc, (mgr, state)

    def with_exit(self, node, token, out):
        mgr, entry = token
        if not mgr:
            return out
        # PrecisionManager.__exit__ restores the value seen by __enter__ on
        # every kind of exit (proved once by rule A-R4)
        res = Outcome()
        for kind, s in out.kinds():
            if s is None:
                continue
            setattr(res, kind, s.with_(cell=entry.cell, tags=entry.tags))
        return res


def _simple_arith(v):
    """names, constants, attribute loads of names and +,-,*,// over them: the
    evaluation of such a right-hand side is modelled as not raising"""
    for x in ast.walk(v):
        if isinstance(x, (ast.Name, ast.Constant, ast.Load, ast.operator, ast.unaryop)):
            continue
        if isinstance(x, ast.Attribute) and isinstance(x.value, (ast.Name, ast.Attribute)):
            continue
        if isinstance(x, ast.BinOp) and isinstance(x.op, (ast.Add, ast.Sub, ast.Mult, ast.FloorDiv)):
            continue
        if isinstance(x, ast.UnaryOp):
            continue
        return False
    return True


def _stored_names(t):
    out = set()
    for x in ast.walk(t):
        if isinstance(x, ast.Name):
            out.add(x.id)
        elif isinstance(x, ast.Attribute) and isinstance(x.ctx, ast.Store):
            out.add(norm(x))
    return out


class PrecEngine(object):
    def __init__(self, index):
        self.ix = index
        self.res = get_resolver(index)
        self.funcs = list(index.all_funcs())
        self.summaries = {}
        self.analyses = {}
        self.iterations = 0
        self.unresolved_calls = 0
        self.callback_sites = 0
        self._escaping_cache = {}
        self.solve()

    # -- call effect ---------------------------------------------------------
    def call_effect(self, func, call, fa):
        """-> (leaks on normal return, leaks on exception, description)"""
        fn = call.func
        ln = lx = False
        how = ''
        targets = []
        if isinstance(fn, ast.Name):
            kind, fs = self.res.lookup_name(func, fn.id)
            if kind == 'param' or (kind == 'unknown' and self.res.is_local_var(func, fn.id)):
                fa.callback_calls += 1
                targets = self._local_callable_targets(func, fn.id)
            else:
                targets = fs
                if not fs:
                    fa.unresolved += 1
            for g in targets:
                s = self.summaries.get(g)
                if s is None:
                    continue
                if s.leak_n or s.leak_x:
                    ln |= s.leak_n
                    lx |= s.leak_x
                    how = 'call of %s which leaves the precision changed' % g.qualname
        elif isinstance(fn, ast.Attribute):
            name = fn.attr
            ents = self.res.entries(name)
            cands = []
            if ents:
                for e in ents:
                    if e.wrap:
                        continue        # goes through _wrap_specfun (rule A-R5)
                    cands.append(e.func)
            else:
                # methods of other classes holding a context (rules, solvers)
                for g in self.ix.by_name.get(name, []):
                    if g.cls is not None or g.parent is None:
                        cands.append(g)
            if not ents and not cands:
                fa.unresolved += 1
            for g in cands:
                s = self.summaries.get(g)
                if s is None:
                    continue
                if s.leak_n or s.leak_x:
                    ln |= s.leak_n
                    lx |= s.leak_x
                    how = 'call of .%s (%s) which leaves the precision changed' % (name, g.qualname)
        else:
            fa.unresolved += 1
        # leaking repo closures passed as arguments: the receiver will call them
        for a in list(call.args) + [k.value for k in call.keywords]:
            if isinstance(a, ast.Name):
                kind, fs = self.res.lookup_name(func, a.id)
                if kind == 'local-def':
                    for g in fs:
                        s = self.summaries.get(g)
                        if s is not None and (s.leak_n or s.leak_x):
                            if not self._receiver_protects(func, call, a):
                                ln |= s.leak_n
                                lx = True
                                how = ('closure %s (which leaves the precision changed) '
                                       'is passed to a callee' % g.qualname)
        return ln, lx, how

    def _local_callable_targets(self, func, name):
        """a local variable assigned from a nested def / lambda of the repo"""
        out = []
        for x in ast.walk(func.node):
            if isinstance(x, ast.Assign) and len(x.targets) == 1 and \
                    isinstance(x.targets[0], ast.Name) and x.targets[0].id == name:
                if isinstance(x.value, ast.Lambda) and hasattr(x.value, '_func'):
                    out.append(x.value._func)
                elif isinstance(x.value, ast.Name):
                    kind, fs = self.res.lookup_name(func, x.value.id)
                    if kind in ('local-def', 'module', 'import'):
                        out.extend(fs)
        return out

    def _receiver_protects(self, func, call, arg):
        """The callee that receives a leaking closure restores the precision
        itself on every exit, even when that parameter's calls leak.  Decided
        by re-analysing the receiver under the assumption 'calls through the
        receiving parameter leave the precision changed / raise dirty'."""
        fn = call.func
        recv = []
        shift = 0
        if isinstance(fn, ast.Name):
            kind, fs = self.res.lookup_name(func, fn.id)
            recv = fs
        elif isinstance(fn, ast.Attribute):
            ents = self.res.entries(fn.attr)
            recv = [e.func for e in ents]
            if not ents:
                recv = [g for g in self.ix.by_name.get(fn.attr, []) if g.cls is not None]
            shift = 1
        if not recv:
            return False
        # which parameter receives it
        pos = None
        kwname = None
        for i, a in enumerate(call.args):
            if a is arg:
                pos = i
        for k in call.keywords:
            if k.value is arg:
                kwname = k.arg
        for g in recv:
            if kwname is not None:
                pname = kwname
            elif pos is not None and pos + shift < len(g.params):
                pname = g.params[pos + shift]
            else:
                return False
            if not self.protects_callbacks(g, pname):
                return False
        return True

    def protects_callbacks(self, g, pname):
        key = (g, pname)
        if key in self._escaping_cache:
            return self._escaping_cache[key]
        self._escaping_cache[key] = True        # recursion guard
        fa = LeakyCallbackAnalysis(self, g, pname)
        out = fa.run(g.body(), State())
        ok = True
        for kind in ('normal', 'ret', 'exc'):
            s = getattr(out, kind)
            if s is not None and s.cell != E:
                ok = False
        self._escaping_cache[key] = ok
        return ok

    # -- fix-point -----------------------------------------------------------
    def _has_write(self, f):
        for x in _walk_own(f.node):
            if isinstance(x, ast.Assign):
                for t in x.targets:
                    for y in ast.walk(t):
                        if is_cell_attr(y) and isinstance(y.ctx, ast.Store):
                            return True
            elif isinstance(x, ast.AugAssign) and is_cell_attr(x.target):
                return True
        return False

    def analyse(self, f):
        fa = FuncAnalysis(self, f)
        out = fa.run(f.body(), State())
        s = Summary()
        s.writes = fa.nwrites
        s.r3 = fa.r3
        normal = fa.j(out.normal, out.ret)
        if normal is not None and normal.cell != E:
            s.leak_n = True
            s.origins_n = normal.tags
        if out.exc is not None and out.exc.cell != E:
            s.leak_x = True
            s.origins_x = out.exc.tags
        return fa, s

    def solve(self):
        for f in self.funcs:
            self.summaries[f] = Summary()
        # only functions that write the cell or (transitively) call leaking
        # functions can leak: iterate everything, it is cheap enough
        writers = [f for f in self.funcs if self._has_write(f)]
        self.writers = writers
        callnames = {}
        for f in self.funcs:
            names = set()
            for x in _walk_own(f.node):
                if isinstance(x, ast.Call):
                    if isinstance(x.func, ast.Name):
                        names.add(x.func.id)
                    elif isinstance(x.func, ast.Attribute):
                        names.add(x.func.attr)
                    for a in list(x.args) + [k.value for k in x.keywords]:
                        if isinstance(a, ast.Name):
                            names.add(a.id)
                elif isinstance(x, ast.Assign) and isinstance(x.value, ast.Name):
                    names.add(x.value.id)
            callnames[f] = names
        work = list(writers)
        done = set()
        n = 0
        while work:
            n += 1
            if n > 15:
                raise AnalysisError('precision summaries did not stabilise')
            self._escaping_cache = {}
            changed_names = set()
            for f in work:
                fa, s = self.analyse(f)
                if s.sig() != self.summaries[f].sig():
                    changed_names.add(f.name)
                self.summaries[f] = s
                self.analyses[f] = fa
                done.add(f)
            work = [f for f in self.funcs if callnames[f] & changed_names]
        self.iterations = n
        self.analysed = len(done)
        self.unresolved_calls = sum(a.unresolved for a in self.analyses.values())
        self.callback_sites = sum(a.callback_calls for a in self.analyses.values())


def _walk_own(node):
    """walk a function body without descending into nested defs/lambdas"""
    todo = list(ast.iter_child_nodes(node))
    while todo:
        x = todo.pop()
        yield x
        if isinstance(x, (ast.FunctionDef, ast.AsyncFunctionDef, ast.Lambda, ast.ClassDef)):
            continue
        todo.extend(ast.iter_child_nodes(x))


class LeakyCallbackAnalysis(FuncAnalysis):
    """Same analysis, but every call through the parameter `pname` (or a
    local alias of it) is assumed to leave the precision changed, both on
    normal return and when raising."""

    def __init__(self, engine, func, pname):
        FuncAnalysis.__init__(self, engine, func)
        self.pnames = {pname}
        for x in ast.walk(func.node):
            if isinstance(x, ast.Assign) and isinstance(x.value, ast.Name) and \
                    x.value.id == pname:
                for t in x.targets:
                    if isinstance(t, ast.Name):
                        self.pnames.add(t.id)

    def _apply_calls(self, node, state):
        exc = None
        for call in calls_in(node):
            ln, lx, how = self.eng.call_effect(self.func, call, self)
            fn = call.func
            if isinstance(fn, ast.Name) and fn.id in self.pnames:
                ln = lx = True
                how = 'callback parameter %s' % fn.id
            else:
                # the callback handed on to another receiver
                for a in list(call.args) + [k.value for k in call.keywords]:
                    if isinstance(a, ast.Name) and a.id in self.pnames:
                        if not self.eng._receiver_protects(self.func, call, a):
                            ln = lx = True
                            how = 'callback parameter %s handed on' % a.id
            exc = self.j(exc, self._exc_state(state, call))
            if lx:
                exc = self.j(exc, state.with_(cell=T, tags=state.tags | {self.tag('cx', call, how)}))
            if ln:
                state = state.with_(cell=T, tags=state.tags | {self.tag('cn', call, how)})
        return state, exc
