"""C01 -- every real value has one canonical representation.

Inductive argument: if every raw tuple entering a kernel is canonical (zero,
one of the three special encodings, or an odd mantissa with exact bit count)
then every raw tuple leaving one is.  Decided here (Engine E):
  E-R5  the named constants are canonical, the special encodings are pairwise
        distinct with zero mantissa, and the non-canonical `fnzero` is never used
  E-R1  who may build a raw 4-tuple: only audited shapes -- a field rewrite of
        an unpacked canonical value under a non-zero guard, a power of two,
        the exact-mode sibling of a normalize1 call, the (de)pickling pair
  E-R2  normalize1 (which ASSUMES an odd-or-zero mantissa) only receives a
        mantissa that is provably odd or zero (parity abstract interpretation)
  E-R3  the bit-count argument of normalize/normalize1 is exact for the
        mantissa argument (bitcount(same expr), unpacked pair, product idiom)
  E-R4  the normaliser kernels perform  zero-test -> round -> strip trailing
        zeros -> power-of-two fix-up -> return, with every mantissa shift
        mirrored on exponent and bit count
  E-R7  the sign and mantissa arguments of every normaliser call are
        non-negative (the sign is a separate field; a negative mantissa would
        be shifted and bit-counted as if it were positive): flow-sensitive
        integer sign analysis (sa/intsign.py), reasoned site table for the rest
  E-R6  values that come from outside (user tuples, pickles) enter through
        normalize/from_man_exp/from_pickable, never through a kernel that
        assumes canonical input
Not decided: the arithmetic lemmas themselves and the C back ends.
"""
import ast

from ..index import AnalysisError, norm
from ..prec_effect import _walk_own
from ..report import Finding
from ..canon import ParityAnalysis, PAR_ODD, PAR_ZERO, PAR_ODDZ, classify_tuple
from .c10 import get_round_engine

LIBMPF = 'mpmath/libmp/libmpf.py'
CTXPY = 'mpmath/ctx_mp_python.py'
MPZ_CONSTS = {'MPZ_ZERO': 0, 'MPZ_ONE': 1, 'MPZ_TWO': 2, 'MPZ_THREE': 3, 'MPZ_FIVE': 5}

# functions whose 4-tuples are not raw mpf values (reason)
NON_MPF_TUPLES = {
    ('mpmath/ctx_iv.py', '_binary_op'): 'tuple of four operator functions',
    ('mpmath/ctx_mp.py', 'MPContext.hypsum'): 'cache key (p, q, flags, kind)',
    ('mpmath/libmp/gammazeta.py', 'glaisher_fixed'): 'integer recurrence state',
    ('mpmath/libmp/gammazeta.py', 'stirling_coefficient'): 'rational coefficient with bit counts',
    ('mpmath/libmp/libintmath.py', 'ifib'): 'integer matrix',
    ('mpmath/libmp/libmpf.py', 'to_pickable'): 'pickle form (mantissa as hex string); paired with from_pickable (C40)',
    ('mpmath/libmp/libmpf.py', 'to_pickable#2'): 'pickle form; paired with from_pickable (C40)',
}
NORMALISERS = {'_normalize', '_normalize1'}
SPECIAL_GUARDS = ('not man and exp', '(not man) and exp', 'exp and (not man)', 'exp and not man')


def run(run, ix, tier):
    run.explanation = (
        'Representation invariant of raw mpf tuples, decided structurally: named constants '
        'evaluated as literals; every 4-tuple display classified into audited shapes with the '
        'guards they need (path facts from the rounding-flow interpreter); parity and '
        'bit-count abstract interpretation at every normalize1/normalize call; typestate '
        'of the normaliser kernels; entry points for foreign tuples.  Inductive: canonical '
        'in => canonical out.  The arithmetic lemmas (odd*odd is odd, (q<<1)+1 is odd, '
        'product bit-count idiom) are the trusted base.')
    run.assumptions = ['inputs of kernels are canonical (induction hypothesis)',
                       'Python-backend definitions; gmpy/sage replacements of the normaliser are C code']
    run.trusted = ['sa/canon.py parity lemmas']
    run.rule('E-R5', floor=10, desc='named constants / special encodings')
    run.rule('E-R1', floor=12, desc='raw 4-tuple constructions')
    run.rule('E-R2', floor=15, desc='normalize1 receives an odd-or-zero mantissa')
    run.rule('E-R3', floor=20, desc='bit count exact at normaliser calls')
    run.rule('E-R4', floor=3, desc='normaliser kernels typestate')
    run.rule('E-R6', floor=4, desc='foreign tuples enter through the general normaliser')
    run.rule('E-R7', floor=55, desc='sign and mantissa arguments of the normalisers are non-negative')
    check_constants(run, ix)
    check_tuples(run, ix)
    check_normaliser_calls(run, ix)
    check_normaliser_kernels(run, ix)
    check_entries(run, ix)
    check_normaliser_signs(run, ix)


# ---------------------------------------------------------------------------
def lit(e):
    if isinstance(e, ast.Constant) and isinstance(e.value, int):
        return e.value
    if isinstance(e, ast.Name) and e.id in MPZ_CONSTS:
        return MPZ_CONSTS[e.id]
    if isinstance(e, ast.UnaryOp) and isinstance(e.op, ast.USub):
        v = lit(e.operand)
        return None if v is None else -v
    return None


def check_constants(run, ix):
    m = ix.module(LIBMPF)
    consts = {}
    for name, value, st, g in m.toplevel_assigns:
        if isinstance(value, ast.Tuple) and len(value.elts) == 4 and name.startswith('f'):
            vals = [lit(e) for e in value.elts]
            if None in vals:
                raise AnalysisError('constant %s is not a literal tuple' % name)
            consts[name] = (tuple(vals), st)
    need = ['fzero', 'fone', 'fnone', 'ftwo', 'ften', 'fhalf', 'fnan', 'finf', 'fninf']
    for n in need:
        if n not in consts:
            raise AnalysisError('named constant %s vanished' % n)
    specials = {}
    for name, (t, st) in sorted(consts.items()):
        sign, man, exp, bc = t
        if name == 'fnzero':
            continue
        if man == 0:
            if name == 'fzero':
                ok = t == (0, 0, 0, 0)
                why = 'zero must be (0, 0, 0, 0)'
            else:
                ok = exp != 0 and sign in (0, 1)
                why = 'a special value needs zero mantissa and NON-zero exponent'
                specials[name] = t
        else:
            ok = sign in (0, 1) and man > 0 and man % 2 == 1 and bc == man.bit_length()
            why = 'regular constants need an odd mantissa and bc == bit length'
        if ok:
            run.ok('E-R5', '%s = %s is canonical' % (name, t))
        else:
            run.fail(Finding('E-R5', LIBMPF, '<module>', '%s = %s' % (name, norm(st.value)),
                             'constant is not canonical: %s' % why, line=st.lineno))
    if len(set(specials.values())) != len(specials) or len(specials) != 3:
        run.fail(Finding('E-R5', LIBMPF, '<module>', 'fnan/finf/fninf',
                         'the three special encodings are not pairwise distinct: %s' % specials))
    else:
        # they must also differ from each other in a field that mpf_eq / `==` sees
        run.ok('E-R5', 'nan, +inf, -inf have distinct zero-mantissa encodings %s' % sorted(specials.values()))
    # the non-canonical negative zero is never used by any function
    uses = []
    for rel, mod in ix.modules.items():
        for f in mod.funcs.values():
            for x in _walk_own(f.node):
                if isinstance(x, ast.Name) and x.id == 'fnzero':
                    uses.append((rel, f.qualname, x.lineno))
    if uses:
        rel, qn, ln = uses[0]
        run.fail(Finding('E-R5', rel, qn, 'fnzero', 'the second (signed) encoding of zero is used: '
                         'zero would no longer have a single representation', line=ln))
    else:
        run.ok('E-R5', 'fnzero (a second encoding of zero) is defined but never used')


# ---------------------------------------------------------------------------
def tuple_sites(ix):
    """(file, Func, 4-tuple node) for every 4-tuple display in load position"""
    out = []
    for rel in sorted(ix.modules):
        if not (rel.startswith('mpmath/libmp/') or rel in (
                'mpmath/ctx_mp_python.py', 'mpmath/ctx_mp.py', 'mpmath/ctx_iv.py')):
            continue
        m = ix.modules[rel]
        for f in m.funcs.values():
            for x in _walk_own(f.node):
                if isinstance(x, ast.Tuple) and len(x.elts) == 4 and isinstance(x.ctx, ast.Load):
                    par = getattr(x, '_parent', None)
                    if isinstance(par, (ast.For, ast.comprehension)) and par.iter is x:
                        continue        # a display that is only iterated over is a collection, not a number
                    out.append((rel, f, x))
            if isinstance(f.node, ast.Lambda) and isinstance(f.node.body, ast.Tuple) and \
                    len(f.node.body.elts) == 4:
                out.append((rel, f, f.node.body))
    seen = set()
    uniq = []
    for rel, f, x in out:
        if id(x) not in seen:
            seen.add(id(x))
            uniq.append((rel, f, x))
    return uniq


def check_tuples(run, ix):
    eng = get_round_engine(ix)
    for rel, f, node in tuple_sites(ix):
        if (rel, f.qualname) in NON_MPF_TUPLES:
            continue
        if f.name in NORMALISERS or f.qualname == 'from_man_exp':
            continue            # E-R4
        # path facts at the site
        if rel.startswith('mpmath/libmp/'):
            pn = 'prec' if 'prec' in f.params else None
            ka = eng.analyse_detail(f, pn)
            worlds = [w for (e, w) in ka.tuples if e is node]
            if pn is not None:
                # the exact-mode branches (`if not prec:`) are only reachable with prec = 0
                kb = eng.analyse_detail(f, pn, frozenset([('__exact__', True)]))
                worlds += [w for (e, w) in kb.tuples if e is node]
        else:
            ka = eng.analyse_context(f)
            worlds = [w for (e, w) in ka.tuples if e is node]
        verdict, why = classify_tuple(node, f, worlds, lit)
        site = norm(node)
        if verdict:
            run.ok('E-R1', '%s:%s %s -- %s' % (rel, f.qualname, site, why))
        else:
            run.fail(Finding('E-R1', rel, f.qualname, site,
                             'raw mpf tuple built by hand in a shape that is not known to be '
                             'canonical: %s' % why, line=node.lineno))


# ---------------------------------------------------------------------------
def check_normaliser_calls(run, ix):
    n1 = 0
    for rel in sorted(ix.modules):
        m = ix.modules[rel]
        for f in m.funcs.values():
            calls = [x for x in _walk_own(f.node) if isinstance(x, ast.Call) and
                     isinstance(x.func, ast.Name) and x.func.id in ('normalize', 'normalize1')]
            if not calls or f.name.startswith('strict_'):
                continue
            pa = ParityAnalysis(f)
            pa.analyse()
            for c in calls:
                st = c
                while not isinstance(st, ast.stmt):
                    st = st._parent
                infos = pa.at_call.get(id(c), [])
                if not infos:
                    raise AnalysisError('%s: normaliser call not reached by the parity analysis: %s'
                                        % (f.qualname, norm(c)))
                if c.func.id == 'normalize1':
                    n1 += 1
                    bad = [i for i in infos if i['parity'] not in (PAR_ODD, PAR_ZERO, PAR_ODDZ)]
                    if bad:
                        run.fail(Finding('E-R2', rel, f.qualname, norm(st),
                                         'normalize1 assumes an odd (or zero) mantissa, but `%s` may be '
                                         'even here (%s): trailing zero bits would survive and equal '
                                         'numbers get different representations; use normalize'
                                         % (norm(c.args[1]), bad[0]['why']), line=st.lineno))
                    else:
                        run.ok('E-R2', '%s: %s mantissa %s' % (f.qualname, norm(c, 50), infos[0]['why']))
                bad = [i for i in infos if not i['bc_exact']]
                if bad:
                    run.fail(Finding('E-R3', rel, f.qualname, norm(st),
                                     'bit-count argument `%s` is not known to be the exact bit length of '
                                     'the mantissa argument `%s` (%s)'
                                     % (norm(c.args[3]), norm(c.args[1]), bad[0]['bc_why']), line=st.lineno))
                else:
                    run.ok('E-R3', '%s: %s bit count %s' % (f.qualname, norm(c, 40), infos[0]['bc_why']))
    if n1 < 15:
        raise AnalysisError('only %d normalize1 call sites found' % n1)


# ---------------------------------------------------------------------------
def check_normaliser_kernels(run, ix):
    for name in ('_normalize', '_normalize1'):
        f = ix.func(LIBMPF, name)
        problems = normaliser_typestate(f, assume_odd=(name == '_normalize1'))
        if problems:
            run.fail(Finding('E-R4', LIBMPF, name, 'def %s' % name, '; '.join(problems), line=f.lineno))
        else:
            run.ok('E-R4', '%s: zero test -> round -> strip trailing zeros -> power-of-two fix-up -> return' % name)
    # exact path of from_man_exp
    f = ix.func(LIBMPF, 'from_man_exp')
    problems = from_man_exp_exact(f)
    if problems:
        run.fail(Finding('E-R4', LIBMPF, 'from_man_exp', 'exact path', '; '.join(problems), line=f.lineno))
    else:
        run.ok('E-R4', 'from_man_exp: sign split, exact bit count, zero test, strip, else general normaliser')
    # the public names are bound to these kernels (or the strict wrappers)
    m = ix.module(LIBMPF)
    binds = {}
    for n, value, st, g in m.toplevel_assigns:
        if n in ('normalize', 'normalize1') and isinstance(value, ast.Name):
            binds.setdefault(n, set()).add(value.id)
    want = {'normalize': {'_normalize', 'strict_normalize'}, 'normalize1': {'_normalize1', 'strict_normalize1'}}
    if binds == want:
        run.ok('E-R4', 'normalize/normalize1 are bound to the checked kernels (or their strict wrappers)')
    else:
        run.fail(Finding('E-R4', LIBMPF, '<module>', 'normalize = ...',
                         'public normaliser names are bound to %s' % binds))


def _assigned(st, name):
    return [x for x in ast.walk(st) if isinstance(x, (ast.Assign, ast.AugAssign)) and
            any(isinstance(t, ast.Name) and t.id == name for t in
                (x.targets if isinstance(x, ast.Assign) else [x.target]))]


def normaliser_typestate(f, assume_odd):
    sign, man, exp, bc, prec, rnd = f.params[:6]
    body = [s for s in f.node.body if not (isinstance(s, ast.Expr) and isinstance(s.value, ast.Constant))]
    problems = []
    stage = 0           # 0 start, 1 zero-tested, 2 rounded, 3 stripped, 4 fixed, 5 returned
    for st in body:
        t = norm(st.test) if isinstance(st, ast.If) else ''
        if isinstance(st, ast.If) and t == 'not %s' % man and \
                any(isinstance(x, ast.Return) and norm(x.value) == 'fzero' for x in st.body):
            if stage != 0:
                problems.append('zero test is not the first step')
            stage = 1
            continue
        if stage < 1:
            problems.append('mantissa is used before the zero test')
            stage = 1
        if assume_odd and isinstance(st, ast.If) and t in ('%s <= %s' % (bc, prec),) and \
                any(isinstance(x, ast.Return) for x in st.body):
            r = [x for x in st.body if isinstance(x, ast.Return)][0]
            if norm(r.value) != '(%s, %s, %s, %s)' % (sign, man, exp, bc):
                problems.append('early return does not hand back the unchanged fields')
            continue
        # rounding statements
        shifts = [x for x in ast.walk(st) if isinstance(x, ast.BinOp) and isinstance(x.op, ast.RShift)
                  or (isinstance(x, ast.AugAssign) and isinstance(x.op, ast.RShift))]
        is_strip = isinstance(st, ast.If) and t == 'not %s & 1' % man
        is_fix = isinstance(st, ast.If) and t == '%s == 1' % man
        is_ret = isinstance(st, ast.Return)
        if is_strip:
            if stage > 3:
                problems.append('trailing zeros are stripped after the fix-up')
            if stage < 2:
                problems.append('trailing zeros are stripped before rounding (rounding can create new ones)')
            stage = 3
            # every mantissa shift is mirrored on exp and bc
            for x in ast.walk(st):
                if isinstance(x, ast.AugAssign) and isinstance(x.op, ast.RShift) and norm(x.target) == man:
                    amt = norm(x.value)
                    blk = x._parent
                    sib = []
                    for fld in ('body', 'orelse'):
                        b = getattr(blk, fld, None)
                        if isinstance(b, list) and x in b:
                            sib = [norm(s) for s in b]
                    if '%s += %s' % (exp, amt) not in sib or '%s -= %s' % (bc, amt) not in sib:
                        problems.append('mantissa shifted right by %s without the same adjustment of '
                                        'exponent and bit count' % amt)
            continue
        if is_fix:
            if stage < 3:
                problems.append('power-of-two fix-up happens before trailing zeros are stripped')
            if [norm(s) for s in st.body] != ['%s = 1' % bc]:
                problems.append('fix-up does not set the bit count of a power of two to 1')
            stage = 4
            continue
        if is_ret:
            if stage < 4:
                problems.append('returns without the %s' % ('power-of-two bit-count fix-up' if stage == 3
                                                            else 'strip / fix-up steps'))
            if norm(st.value) != '(%s, %s, %s, %s)' % (sign, man, exp, bc):
                problems.append('does not return (sign, man, exp, bc)')
            stage = 5
            continue
        # anything else before the strip block is part of rounding
        if stage <= 2:
            if _assigned(st, man) or _assigned(st, exp) or _assigned(st, bc) or _assigned(st, 'n'):
                stage = 2
                continue
        problems.append('unrecognised step `%s`' % norm(st, 50))
    if stage != 5:
        problems.append('no final return of the normalised tuple')
    # rounding block consistency: after cutting n bits, exp += n and bc = prec
    src = [norm(x) for x in ast.walk(f.node) if isinstance(x, (ast.Assign, ast.AugAssign))]
    if '%s += n' % exp not in src:
        problems.append('rounding does not add the number of cut bits to the exponent')
    if '%s = %s' % (bc, prec) not in src:
        problems.append('rounding does not set the bit count to the precision')
    if 'n = %s - %s' % (bc, prec) not in src:
        problems.append('number of bits to cut is not bc - prec')
    # the three rounding arms: nearest (half-even test), shift down, negate-shift-negate
    arms = [x for x in ast.walk(f.node) if isinstance(x, ast.If) and norm(x.test) == '%s == round_nearest' % rnd]
    if len(arms) != 1:
        problems.append('no nearest/directed split in the rounding step')
    else:
        a = arms[0]
        el = a.orelse[0] if a.orelse and isinstance(a.orelse[0], ast.If) else None
        if el is None or norm(el.test) != 'shifts_down[%s][%s]' % (rnd, sign):
            problems.append('directed rounding is not selected by shifts_down[rnd][sign]')
        else:
            if [norm(s) for s in el.body] != ['%s >>= n' % man]:
                problems.append('round-toward-zero arm is not `man >>= n`')
            if [norm(s) for s in el.orelse] != ['%s = -(-%s >> n)' % (man, man)]:
                problems.append('round-away arm is not `man = -((-man) >> n)`')
    return problems


def from_man_exp_exact(f):
    problems = []
    man, exp, prec, rnd = f.params[:4]
    src = [norm(s) for s in f.node.body]
    # sign split
    if not any(s.startswith('if %s < 0:' % man) for s in src):
        problems.append('negative mantissas are not split into sign and magnitude')
    # exact bit count
    ok_bc = any(isinstance(s, ast.If) and norm(s.test) == '%s < 1024' % man and
                [norm(x) for x in s.body] == ['bc = bctable[int(%s)]' % man] and
                [norm(x) for x in s.orelse] == ['bc = bitcount(%s)' % man] for s in f.node.body)
    if not ok_bc:
        problems.append('bit count is not bctable[man] (man < 1024) / bitcount(man)')
    last = f.node.body[-1]
    if not (isinstance(last, ast.Return) and norm(last.value) ==
            'normalize(sign, %s, %s, bc, %s, %s)' % (man, exp, prec, rnd)):
        problems.append('rounded path does not end in the general normaliser')
    ex = [s for s in f.node.body if isinstance(s, ast.If) and norm(s.test) == 'not %s' % prec]
    if len(ex) != 1:
        problems.append('exact path (`if not prec`) not found')
    else:
        b = ex[0].body
        t0 = b[0]
        if not (isinstance(t0, ast.If) and norm(t0.test) == 'not %s' % man and
                any(isinstance(x, ast.Return) and norm(x.value) == 'fzero' for x in t0.body)):
            problems.append('exact path does not map a zero mantissa to fzero first')
        strip = [s for s in b if isinstance(s, ast.If) and norm(s.test) == 'not %s & 1' % man]
        if len(strip) != 1:
            problems.append('exact path does not strip trailing zero bits')
        else:
            for x in ast.walk(strip[0]):
                if isinstance(x, ast.AugAssign) and isinstance(x.op, ast.RShift) and norm(x.target) == man:
                    amt = norm(x.value)
                    blk = x._parent
                    sib = []
                    for fld in ('body', 'orelse'):
                        bb = getattr(blk, fld, None)
                        if isinstance(bb, list) and x in bb:
                            sib = [norm(s) for s in bb]
                    if '%s += %s' % (exp, amt) not in sib or 'bc -= %s' % amt not in sib:
                        problems.append('exact path: mantissa shifted by %s without adjusting exponent and '
                                        'bit count' % amt)
                if isinstance(x, ast.Return) and isinstance(x.value, ast.Tuple):
                    if norm(x.value) != '(sign, %s >> 1, %s + 1, bc - 1)' % (man, exp):
                        problems.append('exact path: fast single-bit strip returns %s' % norm(x.value))
        lr = b[-1]
        if not (isinstance(lr, ast.Return) and norm(lr.value) == '(sign, %s, %s, bc)' % (man, exp)):
            problems.append('exact path does not return (sign, man, exp, bc)')
    return problems


# ---------------------------------------------------------------------------
def check_entries(run, ix):
    f = ix.func(CTXPY, '_mpf.__new__')
    # tuple branches: len 2 -> from_man_exp ; len 4 -> normalize (general), never mpf_pos/normalize1
    for x in _walk_own(f.node):
        if isinstance(x, ast.If) and norm(x.test) in ('len(val) == 2', 'len(val) == 4'):
            stores = [y for y in ast.walk(x) if isinstance(y, ast.Assign) and
                      norm(y.targets[0]).endswith('._mpf_')]
            want = 'from_man_exp' if '2' in norm(x.test) else 'normalize'
            # the raw tuple itself may be stored only for inf/nan (zero mantissa, non-zero exponent)
            special = [y for y in stores if isinstance(y.value, ast.Name) and
                       isinstance(getattr(y, '_parent', None), ast.If) and y in y._parent.body and
                       norm(y._parent.test) in SPECIAL_GUARDS]
            stores = [y for y in stores if y not in special]
            if len(stores) == 1 and isinstance(stores[0].value, ast.Call) and \
                    norm(stores[0].value.func) == want:
                run.ok('E-R6', 'mpf(%s-tuple) enters through %s' % (norm(x.test)[-1], want))
            else:
                got = norm(stores[0].value, 60) if stores else 'nothing'
                run.fail(Finding('E-R6', CTXPY, f.qualname, norm(x),
                                 'a user-supplied raw tuple (possibly even mantissa / wrong bit count) '
                                 'is stored via `%s`; only the general normaliser %s() accepts '
                                 'non-canonical input' % (got, want), line=x.lineno))
    # normalize() answers fzero for EVERY zero mantissa, so inf/nan (zero mantissa, non-zero exponent)
    # must be diverted before it: every normalize call of the constructor on the unpacked fields of a
    # whole value is on the false side of a special-value guard
    n = 0
    for c in _walk_own(f.node):
        if not (isinstance(c, ast.Call) and norm(c.func) == 'normalize'):
            continue
        n += 1
        st = c
        while not isinstance(st, ast.stmt):
            st = st._parent
        guarded = False
        cur = st
        while cur is not f.node:
            par = cur._parent
            if isinstance(par, ast.If) and norm(par.test) in SPECIAL_GUARDS and cur in par.orelse:
                guarded = True
            body = getattr(par, 'body', None)
            for lst in (getattr(par, 'body', []), getattr(par, 'orelse', [])):
                if isinstance(lst, list) and cur in lst:
                    for prev in lst[:lst.index(cur)]:
                        if isinstance(prev, ast.If) and norm(prev.test) in SPECIAL_GUARDS and prev.body and \
                                isinstance(prev.body[-1], ast.Return):
                            guarded = True
            cur = par
        if guarded:
            run.ok('E-R6', 'normalize at line %d runs only for values that are not inf/nan' % c.lineno)
        else:
            run.fail(Finding('E-R6', CTXPY, f.qualname, norm(st),
                             'the fields of a whole value reach normalize() without a special-value guard: '
                             'normalize returns zero for every zero mantissa, so inf and nan become 0',
                             line=c.lineno))
    if n < 1:
        raise AnalysisError('constructor: normalize calls not found')
    # unpickling
    g = ix.func(LIBMPF, 'from_pickable')
    rets = [x for x in _walk_own(g.node) if isinstance(x, ast.Return)]
    unp = [x for x in _walk_own(g.node) if isinstance(x, ast.Assign) and isinstance(x.targets[0], ast.Tuple)]
    ok = False
    if len(rets) == 1 and len(unp) == 1 and isinstance(rets[0].value, ast.Tuple):
        names = [e.id for e in unp[0].targets[0].elts]
        r = [norm(e) for e in rets[0].value.elts]
        ok = len(names) == 4 and r == [names[0], 'MPZ(%s, 16)' % names[1], names[2], names[3]]
    if ok:
        run.ok('E-R6', 'from_pickable restores (sign, MPZ(man, 16), exp, bc) field by field')
    else:
        run.fail(Finding('E-R6', LIBMPF, 'from_pickable', norm(rets[0]) if rets else 'def from_pickable',
                         'the pickled fields are not restored one to one (the bit-count field is also '
                         'the tag that distinguishes nan, +inf and -inf)', line=g.lineno))
    for qn, getter in (('_mpf.__setstate__', 'from_pickable(val)'),
                       ('_mpc.__setstate__', '(from_pickable(val[0]), from_pickable(val[1]))')):
        h = ix.func(CTXPY, qn)
        st = [x for x in _walk_own(h.node) if isinstance(x, ast.Assign)]
        if len(st) == 1 and norm(st[0].value) == getter:
            run.ok('E-R6', '%s stores %s' % (qn, getter))
        else:
            run.fail(Finding('E-R6', CTXPY, qn, norm(st[0]) if st else 'def', 'state is not restored '
                             'through from_pickable', line=h.lineno))


NORMALISER_ARGS = {'normalize': (0, 1), 'normalize1': (0, 1), '_normalize': (0, 1), '_normalize1': (0, 1),
                   'strict_normalize': (0, 1), 'strict_normalize1': (0, 1)}


def check_normaliser_signs(run, ix):
    """E-R7 (see the module docstring)."""
    from .. import intsign, nonneg
    for f in ix.all_funcs():
        if '/tests/' in f.file:
            continue
        if not any(isinstance(x, ast.Call) and isinstance(x.func, ast.Name) and x.func.id in NORMALISER_ARGS
                   for x in _walk_own(f.node)):
            continue
        watched = intsign.analyse_watch(f, NORMALISER_ARGS)
        for (call, i), s in sorted(watched.items(), key=lambda kv: (kv[0][0].lineno, kv[0][1])):
            arg = norm(call.args[i])
            what = 'sign' if i == 0 else 'mantissa'
            if s <= intsign.NONNEG:
                run.ok('E-R7', '%s: %s(...) %s `%s` has sign set %s' % (f.qualname, call.func.id, what, arg, sorted(s)))
            elif (f.qualname, arg) in nonneg.NORMALISER_SITE_CONTRACT:
                run.ok('E-R7', '%s: %s `%s` -- by the recorded reason: %s'
                       % (f.qualname, what, arg, nonneg.NORMALISER_SITE_CONTRACT[(f.qualname, arg)][:70]))
            else:
                st = call
                while not isinstance(st, ast.stmt):
                    st = st._parent
                run.fail(Finding('E-R7', f.file, f.qualname, norm(st),
                                 'the %s argument `%s` of %s is not shown to be non-negative (possible signs %s): the '
                                 'normaliser shifts and bit-counts the mantissa as a non-negative integer and keeps the '
                                 'sign in its own field, so a negative value yields a non-canonical tuple'
                                 % (what, arg, call.func.id, ', '.join({-1: 'negative', 0: 'zero', 1: 'positive'}[x]
                                                                       for x in sorted(s))), line=call.lineno))
