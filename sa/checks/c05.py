"""C05 -- comparisons are exact and equal numbers hash equally (Engine G).

Decides the structural clauses:
  G-R1  every emulated hash lies in CPython's signed hash range and -1 is
        mapped to -2 (range analysis of the hash kernels, both word sizes)
  G-R2  no no-effect comparison statements in hash/eq/cmp kernels
  G-R3  mpc_hash = mpf_hash(re) + sys.hash_info.imag * mpf_hash(im);
        every class defining __eq__ defines __hash__ (or is deliberately unhashable)
  G-R4  comparison paths convert ints/floats exactly and every operator
        dispatches to the like-named exact kernel; nan guards present
Not decided: the arithmetic of mpf_cmp's fast paths.
"""
import ast

from ..index import AnalysisError, norm
from ..report import Finding
from .. import hash_eq as H

LIBMPF = 'mpmath/libmp/libmpf.py'
LIBMPC = 'mpmath/libmp/libmpc.py'
CTXPY = 'mpmath/ctx_mp_python.py'

UNHASHABLE_OK = {
    '_matrix': 'mutable container: Python makes a class with __eq__ and no __hash__ unhashable',
    'ivmpc': None,  # placeholder, checked below (defines __hash__)
}


def run(run, ix, tier):
    run.explanation = (
        'Integer range analysis (abstract interpretation over intervals with excluded '
        'points) of mpf_hash / mpc_hash / mpq.__hash__ for both CPython word sizes '
        'proves the emulated hash lies in the signed hash range with -1 mapped to -2 '
        '(otherwise CPython re-hashes the value and equal numbers hash differently); '
        'structural rules check the composition of the complex hash, eq/hash pairing, '
        'exact conversions on every comparison path and operator->kernel dispatch.  '
        'The arithmetic of mpf_cmp itself is not decided.')
    run.assumptions = ['CPython hash parameters: modulus 2^61-1 / 2^31-1, width 64 / 32, '
                       'inf 314159, nan 0, imag 1000003 (documented constants)',
                       'Python 3 branch of the kernels (sys.version_info >= (3, 2))']
    run.trusted = ['sa/hash_eq.py interval evaluator']
    run.rule('G-R1', floor=10, desc='hash range per kernel and word size')
    run.rule('G-R2', floor=3, desc='no no-effect comparison statements')
    run.rule('G-R3', floor=4, desc='hash composition and eq/hash pairing')
    run.rule('G-R4', floor=12, desc='exact conversions and operator dispatch')
    # G-R5: the order / equality kernels on every pair of operand classes (sa/checks/special_rules.py)
    from .special_rules import check_order_tables
    run.rule('G-R5', floor=150, desc='eq/lt/le/gt/ge on every pair of operand classes (nan unordered, infinities, zero)')
    check_order_tables(run, ix, 'G-R5')

    fh = ix.func(LIBMPF, 'mpf_hash')
    fc = ix.func(LIBMPC, 'mpc_hash')
    fq = ix.func('mpmath/rational.py', 'mpq.__hash__')
    noeffect_seen = {}
    for plat in (64, 32):
        w = H.PLATFORMS[plat]['width']
        lo, hi = -(2 ** (w - 1)), 2 ** (w - 1) - 1
        summaries = {}
        for f, name in ((fh, 'mpf_hash'), (fc, 'mpc_hash'), (fq, 'mpq.__hash__')):
            try:
                ev = analyse(ix, f, plat, summaries)
            except H.Unsupported as e:
                raise AnalysisError('%s: %s' % (f.qualname, e))
            rng = None
            for node, v in ev.returns:
                rng = v if rng is None else rng.join(v)
            summaries[name] = rng        # hull, used only as an operand of further arithmetic
            for st in ev.noeffect:
                noeffect_seen[(f, norm(st))] = st
            for node, v in ev.returns:
                problems = []
                M = H.PLATFORMS[plat]['modulus']
                if name in ('mpf_hash', 'mpq.__hash__') and (v.lo < -(M - 1) or v.hi > M - 1) \
                        and not (v.lo < lo or v.hi > hi):
                    problems.append('result range %r is not reduced modulo the hash modulus '
                                    '2^%d-1: the built-in hash of the equal int/float is always '
                                    'smaller in magnitude than the modulus' % (v, H.PLATFORMS[plat]['HASH_BITS']))
                if v.lo < lo or v.hi > hi:
                    problems.append('result range %r exceeds the signed %d-bit hash range; CPython '
                                    're-hashes such a value, so it differs from the built-in hash of '
                                    'the equal int/float/complex' % (v, w))
                if v.contains(-1):
                    problems.append('the result may be -1, which is never a valid hash: the built-in '
                                    'types map it to -2 (the value is also used inside mpc_hash)')
                if problems:
                    run.fail(Finding('G-R1', f.file, f.qualname, norm(node),
                                     '; '.join(problems) + ' [%d-bit platform]' % plat,
                                     line=node.lineno))
                else:
                    run.ok('G-R1', '%s on %d-bit: `%s` in %r' % (f.qualname, plat, norm(node), v))

    # ---- G-R2: comparison expression statements ------------------------------
    kernels = [fh, fc, fq, ix.func(LIBMPF, 'mpf_eq'), ix.func(LIBMPF, 'mpf_cmp'),
               ix.func(LIBMPF, 'mpf_lt'), ix.func(LIBMPF, 'mpf_le'),
               ix.func(LIBMPF, 'mpf_gt'), ix.func(LIBMPF, 'mpf_ge')]
    for f in kernels:
        bad = [x for x in ast.walk(f.node) if isinstance(x, ast.Expr)
               and isinstance(x.value, ast.Compare)]
        if bad:
            for st in bad:
                run.fail(Finding('G-R2', f.file, f.qualname, norm(st),
                                 'comparison used as a statement has no effect (an assignment '
                                 'was intended; the sibling mpq.__hash__ assigns)', line=st.lineno))
        else:
            run.ok('G-R2', '%s has no no-effect comparison statement' % f.qualname)

    check_composition(run, ix, fc)
    check_eq_hash_pairing(run, ix)
    check_cmp_paths(run, ix)
    check_int_cache_exact(run, ix)


    from .c04 import check_mpc_eq_operand
    check_mpc_eq_operand(run, ix, 'G-R4')

def analyse(ix, f, plat, summaries):
    ev = H.RangeEval(ix, plat, summaries)
    env = {}
    for p in f.params:
        env[p] = ('param', p)
    body = f.node.body
    # mpq.__hash__: a, b = s._mpq_  (numerator any int, denominator positive)
    out = ev.block(_prep(body), _prep_env(f, env))
    if out is not None:
        raise H.Unsupported('%s may fall off the end without returning' % f.qualname)
    if not ev.returns:
        raise H.Unsupported('no return found')
    return ev


def _prep_env(f, env):
    return env


def _prep(body):
    return body


# mpq.__hash__ needs: a (any int), b (positive int), pow(b, M-2, M) in [0, M-1]
_orig_expr = H.RangeEval.expr


def _expr(self, e, env):
    if isinstance(e, ast.Call) and norm(e.func) == 'pow' and len(e.args) == 3:
        m = self.expr(e.args[2], env).const()
        if m is None or m <= 0:
            raise H.Unsupported('pow modulus')
        return H.IV(0, m - 1)
    return _orig_expr(self, e, env)


H.RangeEval.expr = _expr
_orig_unpack = H.RangeEval.unpack_field


def _unpack(self, src, i, n):
    if src.endswith('._mpq_') and n == 2:
        return [H.TOP, H.IV(1, H.INF)][i]
    return _orig_unpack(self, src, i, n)


H.RangeEval.unpack_field = _unpack
_orig_refine = H.RangeEval.refine


def _refine(self, test, env):
    # `if not inverse:` on an interval variable
    if isinstance(test, ast.UnaryOp) and isinstance(test.op, ast.Not) and \
            isinstance(test.operand, ast.Name) and isinstance(env.get(test.operand.id), H.IV):
        name = test.operand.id
        v = env[name]
        t = self._with(env, name, H.IV(0, 0) if v.contains(0) else None)
        fv = H.IV(v.lo, v.hi, v.excl | {0})
        return t, self._with(env, name, fv)
    if isinstance(test, ast.Compare) and len(test.ops) == 1 and \
            isinstance(test.left, ast.Name) and not isinstance(env.get(test.left.id), H.IV):
        return env, env
    return _orig_refine(self, test, env)


H.RangeEval.refine = _refine


# ---------------------------------------------------------------------------
def check_composition(run, ix, fc):
    """h = mpf_hash(re) + sys.hash_info.imag * mpf_hash(im) with re, im = z"""
    comps = {}
    for st in ast.walk(fc.node):
        if isinstance(st, ast.Assign) and isinstance(st.targets[0], ast.Tuple) and \
                isinstance(st.value, ast.Name) and st.value.id == fc.params[0] and \
                len(st.targets[0].elts) == 2:
            comps = {st.targets[0].elts[0].id: 're', st.targets[0].elts[1].id: 'im'}
    terms = None
    site = None
    for st in ast.walk(fc.node):
        if isinstance(st, ast.Assign) and isinstance(st.value, ast.BinOp) and \
                isinstance(st.value.op, ast.Add):
            t = linear_terms(st.value, comps)
            if t is not None and terms is None:
                terms = t
                site = st
    if terms == {'re': '1', 'im': 'IMAG'}:
        run.ok('G-R3', 'mpc_hash combines mpf_hash(re) + sys.hash_info.imag*mpf_hash(im)')
    else:
        run.fail(Finding('G-R3', fc.file, fc.qualname, norm(site) if site else 'def mpc_hash',
                         'complex hash is not mpf_hash(real) + sys.hash_info.imag * mpf_hash(imag) '
                         '(found %r)' % (terms,), line=getattr(site, 'lineno', fc.lineno)))


def linear_terms(e, comps):
    """{'re': coeff, 'im': coeff} for a sum of (coeff *) mpf_hash(component)"""
    out = {}

    def term(x, coeff):
        if isinstance(x, ast.Call) and norm(x.func) == 'mpf_hash' and len(x.args) == 1 and \
                isinstance(x.args[0], ast.Name) and x.args[0].id in comps:
            c = comps[x.args[0].id]
            if c in out:
                return False
            out[c] = coeff
            return True
        if isinstance(x, ast.BinOp) and isinstance(x.op, ast.Mult) and coeff == '1':
            for a, b in ((x.left, x.right), (x.right, x.left)):
                if norm(a) == 'sys.hash_info.imag':
                    return term(b, 'IMAG')
            return False
        if isinstance(x, ast.BinOp) and isinstance(x.op, ast.Add):
            return term(x.left, coeff) and term(x.right, coeff)
        return False
    if not term(e, '1'):
        return None
    return out


def check_eq_hash_pairing(run, ix):
    deliberately_unhashable = {'_matrix'}
    for m in ix.modules.values():
        for ci in m.classes.values():
            names = set()
            for st in ci.node.body:
                if isinstance(st, ast.FunctionDef):
                    names.add(st.name)
                elif isinstance(st, ast.Assign):
                    for t in st.targets:
                        if isinstance(t, ast.Name):
                            names.add(t.id)
            has_eq = '__eq__' in names
            # _mpf.__eq__ is installed by generated code
            if ci.name == '_mpf':
                has_eq = any(f.qualname == '_mpf.__eq__' for f in ix.generated)
                if not has_eq:
                    raise AnalysisError('generated _mpf.__eq__ not found')
            if not has_eq:
                continue
            if '__hash__' in names:
                run.ok('G-R3', 'class %s defines __eq__ and __hash__' % ci.name)
            elif ci.name in deliberately_unhashable:
                run.ok('G-R3', 'class %s is deliberately unhashable (mutable)' % ci.name)
            else:
                run.fail(Finding('G-R3', m.relpath, ci.name, 'class %s' % ci.name,
                                 'defines __eq__ without __hash__: instances become unhashable / '
                                 'hash no longer agrees with equality', line=ci.node.lineno))
    # __hash__ methods of the number classes call the kernels on their own payload
    for qn, kern, payload in (('_mpf.__hash__', 'mpf_hash', 's._mpf_'),
                              ('_mpc.__hash__', 'mpc_hash', 's._mpc_')):
        f = ix.find_func(CTXPY, qn)
        if f is None:
            continue        # reported by the pairing rule above
        rets = [x for x in ast.walk(f.node) if isinstance(x, ast.Return)]
        ok = len(rets) == 1 and isinstance(rets[0].value, ast.Call) and \
            norm(rets[0].value.func) == kern and len(rets[0].value.args) == 1 and \
            norm(rets[0].value.args[0]) == '%s.%s' % (f.params[0], payload.split('.')[1])
        if ok:
            run.ok('G-R3', '%s returns %s(self payload)' % (qn, kern))
        else:
            run.fail(Finding('G-R3', CTXPY, qn, 'def __hash__',
                             'does not return %s of its own value' % kern, line=f.lineno))


def check_cmp_paths(run, ix):
    # operator -> kernel
    want = {'__lt__': 'mpf_lt', '__gt__': 'mpf_gt', '__le__': 'mpf_le', '__ge__': 'mpf_ge',
            '__cmp__': 'mpf_cmp'}
    for op, kern in want.items():
        f = ix.func(CTXPY, '_mpf.%s' % op)
        rets = [x for x in ast.walk(f.node) if isinstance(x, ast.Return)]
        ok = len(rets) == 1 and isinstance(rets[0].value, ast.Call) and \
            norm(rets[0].value.func) == '%s._cmp' % f.params[0] and \
            len(rets[0].value.args) == 2 and norm(rets[0].value.args[0]) == f.params[1] and \
            norm(rets[0].value.args[1]) == kern
        if ok:
            run.ok('G-R4', '_mpf.%s -> %s' % (op, kern))
        else:
            run.fail(Finding('G-R4', CTXPY, '_mpf.%s' % op, 'def %s' % op,
                             'does not dispatch to the exact kernel %s with (self, other)' % kern,
                             line=f.lineno))
    # _cmp: func(s._mpf_, t) with t the other operand's exact value
    f = ix.func(CTXPY, '_mpf._cmp')
    rets = [x for x in ast.walk(f.node) if isinstance(x, ast.Return)
            and isinstance(x.value, ast.Call) and norm(x.value.func) == f.params[2]]
    ok = len(rets) == 1 and [norm(a) for a in rets[0].value.args] == \
        ['%s._mpf_' % f.params[0], f.params[1]]
    if ok:
        run.ok('G-R4', '_mpf._cmp calls func(self._mpf_, other value) in order')
    else:
        run.fail(Finding('G-R4', CTXPY, '_mpf._cmp', 'def _cmp',
                         'kernel is not called as func(self._mpf_, other)', line=f.lineno))
    # kernels: nan guard and operator
    ops = {'mpf_lt': ast.Lt, 'mpf_le': ast.LtE, 'mpf_gt': ast.Gt, 'mpf_ge': ast.GtE}
    for name, opcls in ops.items():
        f = ix.func(LIBMPF, name)
        s, t = f.params[:2]
        body = f.node.body
        problems = []
        guard_ok = False
        for st in body:
            if isinstance(st, ast.If):
                tt = norm(st.test)
                if tt in ('%s == fnan or %s == fnan' % (s, t), '%s == fnan or %s == fnan' % (t, s)) \
                        and len(st.body) == 1 and isinstance(st.body[0], ast.Return) and \
                        norm(st.body[0].value) == 'False':
                    guard_ok = True
        if not guard_ok:
            problems.append('no `nan -> False` guard')
        last = body[-1]
        ok = isinstance(last, ast.Return) and isinstance(last.value, ast.Compare) and \
            len(last.value.ops) == 1 and isinstance(last.value.ops[0], opcls) and \
            norm(last.value.left) == 'mpf_cmp(%s, %s)' % (s, t) and \
            norm(last.value.comparators[0]) == '0'
        if not ok:
            problems.append('result is not `mpf_cmp(s, t) %s 0`' % {ast.Lt: '<', ast.LtE: '<=', ast.Gt: '>', ast.GtE: '>='}[opcls])
        if problems:
            run.fail(Finding('G-R4', LIBMPF, name, 'def %s' % name, '; '.join(problems), line=f.lineno))
        else:
            run.ok('G-R4', '%s: nan guard, then mpf_cmp(s, t) <op> 0' % name)
    # mpf_eq: nan unequal to everything, otherwise tuple identity
    f = ix.func(LIBMPF, 'mpf_eq')
    s, t = f.params[:2]
    src = [norm(x) for x in f.node.body if not (isinstance(x, ast.Expr) and isinstance(x.value, ast.Constant))]
    has_nan = any('fnan' in x and 'return False' in ' '.join(norm(y) for y in ast.walk(b) if isinstance(y, ast.Return))
                  for b in f.node.body if isinstance(b, ast.If) for x in [norm(b.test)] + [norm(c) for c in ast.walk(b) if isinstance(c, ast.If)])
    last = f.node.body[-1]
    ok = isinstance(last, ast.Return) and norm(last.value) in ('%s == %s' % (s, t), '%s == %s' % (t, s))
    if ok and has_nan:
        run.ok('G-R4', 'mpf_eq: nan unequal, else representation identity')
    else:
        run.fail(Finding('G-R4', LIBMPF, 'mpf_eq', 'def mpf_eq',
                         'equality is not `nan -> False, else s == t`', line=f.lineno))
    # exact conversions on comparison paths
    conv = ix.func(CTXPY, '_mpf.mpf_convert_rhs')
    check_exact_conversions(run, conv, {'int_types': 'from_int', 'float': 'from_float'})
    geq = None
    for g in ix.generated:
        if g.qualname == '_mpf.__eq__':
            geq = g
    if geq is None:
        raise AnalysisError('generated _mpf.__eq__ not found')
    n = 0
    for x in ast.walk(geq.node):
        if isinstance(x, ast.Call) and norm(x.func) in ('from_int', 'from_float'):
            n += 1
            if len(x.args) != 1 or x.keywords:
                run.fail(Finding('G-R4', CTXPY, geq.qualname, norm(x),
                                 'operand converted with a precision argument in an equality path '
                                 '(must be exact)', line=None))
            else:
                run.ok('G-R4', 'generated __eq__: %s is exact' % norm(x))
    if n < 3:
        raise AnalysisError('generated __eq__: expected >= 3 exact conversions, found %d' % n)
    # every return of the generated __eq__ that compares goes through mpf_eq
    for x in ast.walk(geq.node):
        if isinstance(x, ast.Return) and isinstance(x.value, (ast.Call, ast.BoolOp)):
            txt = norm(x.value)
            if 'mpf_eq(' in txt or txt.startswith('self.__eq__('):
                run.ok('G-R4')
            else:
                run.fail(Finding('G-R4', CTXPY, geq.qualname, norm(x),
                                 'equality result not computed by mpf_eq', line=None))
    # context convert(): exact for int/float/complex
    for qn in ('PythonMPContext.convert',):
        f = ix.func(CTXPY, qn)
        for x in ast.walk(f.node):
            if isinstance(x, ast.Call) and norm(x.func) in ('from_int', 'from_float'):
                if len(x.args) != 1 or x.keywords:
                    run.fail(Finding('G-R4', CTXPY, qn, norm(x),
                                     'int/float converted with a precision (convert must be lossless; '
                                     'mpc equality relies on it)', line=x.lineno))
                else:
                    run.ok('G-R4')
    # _mpc.__eq__ compares both components
    f = ix.func(CTXPY, '_mpc.__eq__')
    last = f.node.body[-1]
    s, t = f.params[:2]
    want1 = '%s.real == %s.real and %s.imag == %s.imag' % (s, t, s, t)
    if isinstance(last, ast.Return) and norm(last.value) == want1:
        run.ok('G-R4', '_mpc.__eq__ compares real and imaginary parts')
    else:
        run.fail(Finding('G-R4', CTXPY, '_mpc.__eq__', norm(last),
                         'complex equality is not the conjunction of both component equalities',
                         line=last.lineno))


def check_int_cache_exact(run, ix):
    """from_int(n) (no precision) serves small integers from int_cache: the
    table must hold exact values only, i.e. never be written from a function
    body (where a precision/rounding of some call could leak into it)"""
    from ..cache import CacheAccesses, enclosing_stmt
    m = ix.module(LIBMPF)
    if not any(n == 'int_cache' for n, v, st, g in m.toplevel_assigns):
        raise AnalysisError('int_cache vanished')
    bad = False
    for f in m.funcs.values():
        acc = CacheAccesses(f, 'int_cache')
        muts = [c for c in acc.other if c.func.attr in
                ('update', 'setdefault', 'pop', 'clear', 'popitem')]
        if acc.stores or muts:
            st = acc.stores[0][0] if acc.stores else enclosing_stmt(muts[0])
            bad = True
            run.fail(Finding('G-R4', LIBMPF, f.qualname, norm(st),
                             'the exact small-integer table used by from_int(n) is written from a '
                             'function body: a value rounded by one call is later served as the '
                             'exact integer in comparisons and hashing', line=st.lineno))
    if not bad:
        run.ok('G-R4', 'int_cache is built at import time only (exact)')
    # from_int consults the table only when no precision is given
    f = ix.func(LIBMPF, 'from_int')
    acc = CacheAccesses(f, 'int_cache')
    for ld in acc.loads:
        ok = any(isinstance(a, ast.If) and norm(a.test) in ('not prec', 'prec == 0', 'not %s' % f.params[1])
                 for a in ld_ancestors(ld))
        if ok:
            run.ok('G-R4', 'from_int reads int_cache only under `not prec`')
        else:
            run.fail(Finding('G-R4', LIBMPF, 'from_int', 'read of int_cache',
                             'the exact table is consulted although a precision was requested',
                             line=ld.lineno))


def ld_ancestors(node):
    p = getattr(node, '_parent', None)
    while p is not None:
        yield p
        p = getattr(p, '_parent', None)


def check_exact_conversions(run, f, table):
    """in `f`, `if isinstance(x, T): return conv(x)` must call conv with exactly one argument"""
    seen = 0
    for st in f.node.body:
        if isinstance(st, ast.If) and isinstance(st.test, ast.Call) and \
                norm(st.test.func) == 'isinstance' and len(st.body) == 1 and \
                isinstance(st.body[0], ast.Return):
            tname = norm(st.test.args[1])
            if tname in table:
                seen += 1
                v = st.body[0].value
                if isinstance(v, ast.Call) and norm(v.func) == table[tname] and \
                        len(v.args) == 1 and not v.keywords:
                    run.ok('G-R4', '%s: %s converted exactly by %s' % (f.qualname, tname, table[tname]))
                else:
                    run.fail(Finding('G-R4', f.file, f.qualname, norm(st.body[0]),
                                     '%s operand is not converted exactly with %s(x)' % (tname, table[tname]),
                                     line=st.lineno))
    if seen < len(table):
        raise AnalysisError('%s: conversion branches for %s not found' % (f.qualname, sorted(table)))
