"""C17 -- mathematical constants are accurate at every precision and history.

Decides the structural clauses:
  D-R2   constant_memo serves a memoised fixed-point value only for
         requested <= stored precision, shifts by exactly the difference, and
         replaces the (tag, value) pair safely at every interruption point
         (tag := invalid; value; tag := valid, or one atomic store) -- this is
         the history/abort independence
  K-R1   def_mpf_constant.f evaluates with guard bits, bumps the floor value by
         one unit EXACTLY for the modes in which truncation of a positive
         number goes the wrong way (agreement with shifts_down), and rounds
         once with the caller's (prec, rnd)
  K-R2   every mpf_<c> is def_mpf_constant(<c>_fixed) of the like-named fixed
         function, and every *_fixed function goes through constant_memo
  K-R3   the context constants are wired to the like-named kernels and pass
         (prec, rounding); interval constants evaluate with floor and ceiling
  K-R4   closed-form term counts (e, pi, acot) against the convergence rates
  K-R5   no floor-divided series quantity is multiplied by a coefficient growing
         with the loop counter under a constant number of guard bits
  K-R6   def_mpf_constant decides the rounding only when the discarded bits are
         beyond a margin from every rounding boundary, else retries with more
Not decided: that each *_fixed returns a true floor to the last bit.
"""
import ast

from ..index import AnalysisError, norm
from ..prec_effect import _walk_own
from ..report import Finding
from .c33 import check_constant_memo
from .kernel_rules import check_mode_tables

LIBELE = 'mpmath/libmp/libelefun.py'
GZ = 'mpmath/libmp/gammazeta.py'


def run(run, ix, tier):
    run.explanation = (
        'History independence of the constants is a cache-discipline fact (gate, shift and '
        'store order of constant_memo); direction safety is the agreement between the '
        '"+1" bump in def_mpf_constant and the shifts_down table plus a single final '
        'rounding with the caller\'s mode; the rest is wiring (like-named fixed functions, '
        'memoisation applied to each, context and interval constants).  Digit-level '
        'correctness of the series in the *_fixed functions is not decided.')
    run.assumptions = ['each *_fixed(prec) returns floor(c * 2^prec) or that minus at most a few '
                       'units far below the guard bits']
    run.trusted = []
    run.rule('D-R2', floor=4)
    run.rule('B-R3', floor=3)
    run.rule('K-R1', floor=4, desc='directed evaluation of a constant')
    run.rule('K-R2', floor=20, desc='pairing of mpf_<c> with <c>_fixed and memoisation')
    run.rule('K-R3', floor=25, desc='context / interval wiring')
    run.rule('K-R6', floor=1, desc='rounding of a constant decided only away from the boundaries (retry)')
    run.rule('K-R5', floor=2, desc='no growing multiplier on a floor-divided series quantity under constant guard bits')
    check_constant_memo(run, ix)
    check_mode_tables(run, ix)
    check_def_mpf_constant(run, ix)
    check_boundary_retry(run, ix)
    pairs = check_pairing(run, ix)
    check_context_wiring(run, ix, pairs)
    check_e_terms(run, ix)
    # K-R7: a constant handed to the interval context (or to another mp context) is evaluated there, with floor and
    # ceiling for the two endpoints: rule X-R13 of the C38 module
    from . import c38
    run.rule('K-R7', floor=3, desc='constants of another context are evaluated at the receiving context (X-R13)')
    c38.check_foreign_constants(run, ix, rule='K-R7')
    run.rule('K-R8', floor=4, desc='eps, defined by its context\'s precision, is not evaluated at the receiver\'s (X-R14)')
    c38.check_contextual_constants(run, ix, rule='K-R8')
    run.rule('K-R9', floor=4, desc='operators, comparisons and fsum do not read the _mpf_ of a constant of another context (X-R15)')
    c38.check_foreign_constants_in_operators(run, ix, rule='K-R9')
    check_more_term_counts(run, ix)
    check_series_amplification(run, ix)


def check_def_mpf_constant(run, ix):
    from .c10 import get_round_engine
    from ..round_flow import describe
    from .kernel_rules import bad_mode, bad_single, bad_bound
    f = ix.func(LIBELE, 'def_mpf_constant.f')
    outer = ix.func(LIBELE, 'def_mpf_constant')
    fixed = outer.params[0]
    prec, rnd = f.params[:2]
    # (a) every return is ONE rounding to the requested precision in the caller's mode
    eng = get_round_engine(ix)
    ka = eng.analyse_detail(f, prec, frozenset())
    if not ka.returns:
        raise AnalysisError('def_mpf_constant.f: no return classified')
    main = None
    for node, classes, w in ka.returns:
        bad = [c for c in classes if bad_bound(c) or bad_mode(c) or bad_single(c)]
        if bad:
            run.fail(Finding('K-R1', LIBELE, f.qualname, norm(node),
                             'a constant is returned that is not one rounding of the evaluated value '
                             'to the requested precision in the requested mode: %s'
                             % '; '.join(sorted(set(describe(c) for c in bad))), line=node.lineno))
        else:
            run.ok('K-R1', 'return at line %d: %s' % (node.lineno, sorted(describe(c) for c in classes)))
        v = node.value
        if isinstance(v, ast.Call) and norm(v.func) == 'normalize' and len(v.args) == 6:
            main = v
    if main is None:
        run.fail(Finding('K-R1', LIBELE, f.qualname, 'return', 'no return of the form normalize(sign, man, '
                         'exp, bc, prec, rnd)', line=f.lineno))
        return
    sign, man, exp, bc = main.args[:4]
    problems = []
    if not (isinstance(sign, ast.Constant) and sign.value == 0):
        problems.append('sign is not 0')
    if not isinstance(man, ast.Name):
        problems.append('mantissa is not a variable')
        mv = None
    else:
        mv = man.id
    if not (isinstance(exp, ast.UnaryOp) and isinstance(exp.op, ast.USub) and isinstance(exp.operand, ast.Name)):
        problems.append('exponent is not -<working precision>')
        wpv = None
    else:
        wpv = exp.operand.id
    if mv and norm(bc) != 'bitcount(%s)' % mv:
        problems.append('bit count is not bitcount(%s)' % mv)
    src = {}
    for st in _walk_own(f.node):
        if isinstance(st, ast.Assign) and isinstance(st.targets[0], ast.Name):
            src.setdefault(st.targets[0].id, []).append(st)
    # the working precision may only be RAISED after its definition (retry with more bits)
    for st in _walk_own(f.node):
        if isinstance(st, ast.AugAssign) and isinstance(st.target, ast.Name) and st.target.id == wpv:
            if not (isinstance(st.op, ast.Add) and isinstance(st.value, ast.Constant) and
                    isinstance(st.value.value, int) and st.value.value > 0):
                problems.append('working precision is changed by `%s`' % norm(st))
    guard = None
    if wpv:
        d = src.get(wpv, [])
        if len(d) == 1 and isinstance(d[0].value, ast.BinOp) and isinstance(d[0].value.op, ast.Add):
            l, r = d[0].value.left, d[0].value.right
            if isinstance(l, ast.Constant):
                l, r = r, l
            if norm(l) == prec and isinstance(r, ast.Constant) and isinstance(r.value, int):
                guard = r.value
        if guard is None or guard < 10:
            problems.append('working precision is not prec + (>= 10 guard bits)')
    if mv and wpv:
        d = src.get(mv, [])
        if not (len(d) == 1 and norm(d[0].value) == '%s(%s)' % (fixed, wpv)):
            problems.append('mantissa is not %s(%s)' % (fixed, wpv))
    if problems:
        run.fail(Finding('K-R1', LIBELE, f.qualname, norm(main), '; '.join(problems), line=main.lineno))
        return
    run.ok('K-R1', '%s = %s(%s + %d) -> normalize(0, %s, -%s, ...)' % (mv, fixed, prec, guard, mv, wpv))
    # (b) the bump: `mv += 1` exactly for the modes where truncating a positive value
    # is the wrong direction (shifts_down[m][0] == 0)
    bumps = []
    for st in _walk_own(f.node):
        if isinstance(st, ast.AugAssign) and norm(st.target) == mv:
            bumps.append(st)
        if isinstance(st, ast.Assign) and norm(st.targets[0]) == mv and st not in src.get(mv, []):
            bumps.append(st)
    m = ix.module('mpmath/libmp/libmpf.py')
    need = set()
    for n, value, st, g in m.toplevel_assigns:
        if n == 'shifts_down' and isinstance(value, ast.Dict):
            for k, val in zip(value.keys, value.values):
                if isinstance(val, ast.Tuple) and isinstance(val.elts[0], ast.Constant) and \
                        val.elts[0].value == 0:
                    need.add(norm(k))
    if not need:
        raise AnalysisError('shifts_down table not found')
    good = None
    if len(bumps) == 1 and isinstance(bumps[0], ast.AugAssign) and isinstance(bumps[0].op, ast.Add) and \
            isinstance(bumps[0].value, ast.Constant) and bumps[0].value.value == 1:
        par = bumps[0]._parent
        if isinstance(par, ast.If) and par._parent is f.node and bumps[0] in par.body and not par.orelse:
            t = par.test
            modes = None
            if isinstance(t, ast.Compare) and len(t.ops) == 1 and isinstance(t.ops[0], ast.In) and \
                    norm(t.left) == rnd and isinstance(t.comparators[0], (ast.Tuple, ast.List, ast.Set)):
                modes = set(norm(e) for e in t.comparators[0].elts)
            elif isinstance(t, ast.BoolOp) and isinstance(t.op, ast.Or) and all(
                    isinstance(c, ast.Compare) and len(c.ops) == 1 and isinstance(c.ops[0], (ast.Eq, ast.Is))
                    and norm(c.left) == rnd for c in t.values):
                modes = set(norm(c.comparators[0]) for c in t.values)
            good = (par, modes)
    if good is None:
        run.fail(Finding('K-R1', LIBELE, f.qualname, norm(bumps[0]) if bumps else '%s += 1' % mv,
                         'the floor value must be bumped by exactly one unit under one test of the '
                         'rounding mode (found %d other updates of %s)' % (len(bumps), mv),
                         line=f.lineno))
        return
    par, modes = good
    if modes == need:
        run.ok('K-R1', 'floor value bumped exactly for %s (= modes with shifts_down[m][0] == 0)' % sorted(need))
    else:
        run.fail(Finding('K-R1', LIBELE, f.qualname, norm(par),
                         'the floor value of a positive constant is bumped for %s, but truncation '
                         'goes the wrong way exactly for %s: %s'
                         % (sorted(modes) if modes is not None else norm(par.test), sorted(need),
                            'a ceiling/up request can return a value below the constant'
                            if modes is None or (need - modes) else
                            'a floor/down/nearest request is pushed above the constant'),
                         line=par.lineno))
    # (c) order: evaluation < bump < rounding (top-level statements of f)
    body = f.node.body
    def pos(st):
        while st._parent is not f.node:
            st = st._parent
        return body.index(st)
    ret_st = main
    while not isinstance(ret_st, ast.stmt):
        ret_st = ret_st._parent
    if pos(src[mv][0]) < pos(par) < pos(ret_st):
        run.ok('K-R1', 'evaluate -> bump -> round')
    else:
        run.fail(Finding('K-R1', LIBELE, f.qualname, norm(par),
                         'bump does not sit between evaluation and rounding', line=par.lineno))


def check_boundary_retry(run, ix):
    """K-R6.  A constant is irrational: its fixed-point value, cut after prec + g bits, decides the
    rounding only if the g discarded bits are not (within the few units of error of the fixed-point
    routine) all zeros, all ones, or a one followed by zeros.  With a fixed g and no look at those
    bits, some precision always exists at which the wrong neighbour is returned (degree at 144489
    bits, where only 15 of the 20 bits survive its magnitude; apery at 17438 after 16598).  So the
    evaluation must sit in a loop that is left only when the discarded bits -- a value obtained
    from the mantissa by masking -- are farther than a positive margin from the boundaries, and
    that otherwise raises the working precision."""
    f = ix.func(LIBELE, 'def_mpf_constant.f')
    fixed = ix.func(LIBELE, 'def_mpf_constant').params[0]
    ev = [x for x in _walk_own(f.node) if isinstance(x, ast.Assign) and isinstance(x.value, ast.Call) and
          norm(x.value.func) == fixed]
    if len(ev) != 1:
        raise AnalysisError('def_mpf_constant.f: evaluation of the fixed-point function not found')
    ev = ev[0]
    mv = ev.targets[0].id
    wpv = norm(ev.value.args[0])
    lp = ev
    while lp is not f.node and not isinstance(lp, ast.While):
        lp = lp._parent
    if lp is f.node:
        run.fail(Finding('K-R6', LIBELE, f.qualname, norm(ev),
                         'the fixed-point value is evaluated once with a fixed number of guard bits and '
                         'rounded whatever the discarded bits are: when they lie within the error of the '
                         'fixed-point routine of a rounding boundary the wrong neighbour is returned',
                         line=ev.lineno))
        return
    # names derived from the discarded bits of the mantissa
    low = set()
    changed = True
    while changed:
        changed = False
        for x in ast.walk(lp):
            if isinstance(x, ast.Assign) and isinstance(x.targets[0], ast.Name) and x.targets[0].id not in low:
                mask = any(isinstance(b, ast.BinOp) and isinstance(b.op, ast.BitAnd) and
                           mv in (norm(b.left), norm(b.right)) for b in ast.walk(x.value))
                dep = any(isinstance(nm, ast.Name) and nm.id in low for nm in ast.walk(x.value))
                if (mask or dep) and x.targets[0].id != mv:
                    low.add(x.targets[0].id)
                    changed = True
    breaks = [x for x in ast.walk(lp) if isinstance(x, ast.Break)]
    problems = []
    if not breaks:
        problems.append('the retry loop is never left')
    for b in breaks:
        par = b._parent
        ok = False
        if isinstance(par, ast.If) and b in par.body and isinstance(par.test, ast.Compare) and \
                len(par.test.ops) == 1 and isinstance(par.test.ops[0], (ast.Gt, ast.GtE)):
            l, r = par.test.left, par.test.comparators[0]
            if isinstance(l, ast.Name) and l.id in low and isinstance(r, ast.Constant) and \
                    isinstance(r.value, int) and r.value >= 1:
                ok = True
        if not ok:
            problems.append('the loop is left by `%s` without a margin test on the discarded bits'
                            % norm(par if isinstance(par, ast.If) else b, 70))
    raises = [x for x in ast.walk(lp) if isinstance(x, ast.AugAssign) and norm(x.target) == wpv and
              isinstance(x.op, ast.Add) and isinstance(x.value, ast.Constant) and x.value.value > 0]
    if not raises:
        problems.append('a retry does not raise the working precision %s' % wpv)
    if problems:
        run.fail(Finding('K-R6', LIBELE, f.qualname, norm(ev), '; '.join(problems), line=lp.lineno))
    else:
        run.ok('K-R6', 'retry loop: left only when the discarded bits (%s) are beyond a margin from the '
               'rounding boundaries, else %s grows' % (', '.join(sorted(low)), wpv))


def check_pairing(run, ix):
    pairs = {}
    for rel in (LIBELE, GZ):
        m = ix.module(rel)
        for name, value, st, g in m.toplevel_assigns:
            if isinstance(value, ast.Call) and norm(value.func) == 'def_mpf_constant' and \
                    len(value.args) >= 1 and isinstance(value.args[0], ast.Name):
                fixed = value.args[0].id
                pairs[name] = fixed
                if name.startswith('mpf_') and fixed == name[4:] + '_fixed':
                    run.ok('K-R2', '%s = def_mpf_constant(%s)' % (name, fixed))
                else:
                    run.fail(Finding('K-R2', rel, '<module>', norm(st),
                                     'constant %s is built from %s (expected %s_fixed)'
                                     % (name, fixed, name[4:]), line=st.lineno))
                # memoised?
                ff = None
                for r2 in (LIBELE, GZ):
                    ff = ff or ix.find_func(r2, fixed)
                if ff is None:
                    raise AnalysisError('fixed-point function %s not found' % fixed)
                if 'constant_memo' in ff.decorators:
                    run.ok('K-R2', '%s is memoised by constant_memo' % fixed)
                else:
                    # allowed: a thin arithmetic wrapper around a memoised fixed function
                    calls = [norm(x.func) for x in _walk_own(ff.node) if isinstance(x, ast.Call)]
                    inner = [c for c in calls if c.endswith('_fixed')]
                    ok = inner and all('constant_memo' in (ix.find_func(LIBELE, c) or ix.find_func(GZ, c)).decorators
                                       for c in inner if (ix.find_func(LIBELE, c) or ix.find_func(GZ, c)))
                    if ok:
                        run.ok('K-R2', '%s derives from memoised %s' % (fixed, inner))
                    else:
                        run.fail(Finding('K-R2', ff.file, fixed, 'def %s' % fixed,
                                         'fixed-point function is not memoised through constant_memo '
                                         '(history independence is only checked for that memo)',
                                         line=ff.lineno))
    need = {'mpf_pi', 'mpf_e', 'mpf_ln2', 'mpf_ln10', 'mpf_phi', 'mpf_degree', 'mpf_euler',
            'mpf_catalan', 'mpf_apery', 'mpf_khinchin', 'mpf_glaisher', 'mpf_mertens'}
    missing = need - set(pairs)
    for name in sorted(missing):
        # defined in some other way (a hand-written function)?  Then it bypasses the directed evaluation that
        # K-R1 / K-R6 verify in def_mpf_constant (floor value, +1 bump for upward modes, boundary retry).
        other = ix.find_func(LIBELE, name) or ix.find_func(GZ, name)
        if other is not None:
            run.fail(Finding('K-R2', other.file, other.qualname, 'def %s' % name,
                             'the constant %s is not built by def_mpf_constant(<fixed-point function>): its directed '
                             'rounding (floor value, bump for the upward modes, retry near a rounding boundary) is '
                             'whatever this function does by hand -- e.g. a rounded division of another constant returns '
                             'a value on the wrong side when the quotient happens to be representable' % name,
                             line=other.lineno))
            pairs[name] = None
        else:
            raise AnalysisError('constant %s not found' % name)
    return pairs


def check_context_wiring(run, ix, pairs):
    want = {'pi': 'mpf_pi', 'ln2': 'mpf_ln2', 'ln10': 'mpf_ln10', 'phi': 'mpf_phi', 'e': 'mpf_e',
            'euler': 'mpf_euler', 'catalan': 'mpf_catalan', 'khinchin': 'mpf_khinchin',
            'glaisher': 'mpf_glaisher', 'apery': 'mpf_apery', 'degree': 'mpf_degree',
            'twinprime': 'mpf_twinprime', 'mertens': 'mpf_mertens'}
    f = ix.func('mpmath/ctx_mp.py', 'MPContext.init_builtins')
    seen = set()
    for st in f.node.body:
        if isinstance(st, ast.Assign) and isinstance(st.value, ast.Call) and \
                norm(st.value.func) == 'ctx.constant' and isinstance(st.targets[0], ast.Attribute):
            name = st.targets[0].attr
            if name in want:
                seen.add(name)
                got = norm(st.value.args[0])
                if got == want[name]:
                    run.ok('K-R3', 'mp.%s -> %s' % (name, got))
                else:
                    run.fail(Finding('K-R3', f.file, f.qualname, norm(st),
                                     'constant %s is wired to %s, expected %s' % (name, got, want[name]),
                                     line=st.lineno))
    if set(want) - seen:
        raise AnalysisError('mp constants not found: %s' % sorted(set(want) - seen))
    g = ix.func('mpmath/ctx_iv.py', 'MPIntervalContext._init_builtins')
    seen = set()
    for st in g.node.body:
        if isinstance(st, ast.Assign) and isinstance(st.value, ast.Call) and \
                norm(st.value.func) == 'ctx._constant' and isinstance(st.targets[0], ast.Attribute):
            name = st.targets[0].attr
            if name in want:
                seen.add(name)
                got = norm(st.value.args[0]).split('.')[-1]
                if got == want[name]:
                    run.ok('K-R3', 'iv.%s -> %s' % (name, got))
                else:
                    run.fail(Finding('K-R3', g.file, g.qualname, norm(st),
                                     'interval constant %s is wired to %s, expected %s'
                                     % (name, got, want[name]), line=st.lineno))
    if len(seen) < 8:
        raise AnalysisError('iv constants not found')
    # _constant passes the context's (prec, rounding)
    for qn in ('_constant.__call__', '_constant._mpf_'):
        h = ix.func('mpmath/ctx_mp_python.py', qn)
        unpack = None
        for x in _walk_own(h.node):
            if isinstance(x, ast.Assign) and isinstance(x.targets[0], ast.Tuple) and \
                    norm(x.value).endswith('._prec_rounding') and len(x.targets[0].elts) == 2:
                unpack = [norm(e) for e in x.targets[0].elts]
        calls = [x for x in _walk_own(h.node) if isinstance(x, ast.Call) and norm(x.func) == 'self.func']
        problems = []
        if unpack is None:
            problems.append('the context precision pair is not read')
        if len(calls) != 1 or len(calls[0].args) != 2 or not all(isinstance(a, ast.Name) for a in calls[0].args):
            problems.append('self.func is not called once with (prec, rounding) variables')
        else:
            for i, a in enumerate(calls[0].args):
                if a.id == unpack[i] if unpack else False:
                    continue
                # a parameter that falls back to the context value
                fills = [x for x in _walk_own(h.node) if isinstance(x, ast.If) and
                         norm(x.test) == 'not %s' % a.id and len(x.body) == 1 and
                         unpack and norm(x.body[0]) == '%s = %s' % (a.id, unpack[i])]
                if a.id in h.params and fills:
                    continue
                problems.append('argument %d of self.func (%s) is not the context\'s %s'
                                % (i + 1, a.id, ('precision', 'rounding mode')[i]))
        if problems:
            run.fail(Finding('K-R3', h.file, qn, norm(calls[0]) if calls else 'self.func(...)',
                             '; '.join(problems), line=h.lineno))
        else:
            run.ok('K-R3', '%s evaluates %s' % (qn, norm(calls[0])))
    c = ix.func('mpmath/ctx_iv.py', 'ivmpf_constant._get_mpi_')
    rets = [x for x in _walk_own(c.node) if isinstance(x, ast.Return)]
    ok = False
    why = 'no single return of a pair'
    if len(rets) == 1 and isinstance(rets[0].value, ast.Tuple) and len(rets[0].value.elts) == 2:
        defs = {}
        for x in _walk_own(c.node):
            if isinstance(x, ast.Assign) and isinstance(x.targets[0], ast.Name):
                defs.setdefault(x.targets[0].id, []).append(x.value)
        sides = []
        for e in rets[0].value.elts:
            v = e
            if isinstance(e, ast.Name) and len(defs.get(e.id, [])) == 1:
                v = defs[e.id][0]
            if isinstance(v, ast.Call) and norm(v.func) == 'self._f' and len(v.args) == 2:
                sides.append((norm(v.args[0]), norm(v.args[1])))
            else:
                sides.append(None)
        if None in sides:
            why = 'an endpoint is not self._f(prec, <mode>)'
        elif sides[0][1] != 'round_floor' or sides[1][1] != 'round_ceiling':
            why = 'endpoints are rounded (%s, %s); an enclosure needs (round_floor, round_ceiling)' % (
                sides[0][1], sides[1][1])
        elif sides[0][0] != sides[1][0]:
            why = 'endpoints are evaluated at different precisions'
        else:
            ok = True
    if ok:
        run.ok('K-R3', 'interval constants: (f(prec, floor), f(prec, ceiling))')
    else:
        run.fail(Finding('K-R3', c.file, c.qualname, norm(rets[0]) if rets else 'def _get_mpi_',
                         why, line=c.lineno))


def check_e_terms(run, ix):
    """K-R4.  e_fixed sums 1/1! + ... + 1/N! exactly (binary splitting) and N is a closed-form
    expression of the precision.  The neglected tail is below 2**-prec iff (N+1)! > 2**prec.  The
    expression is evaluated from its syntax tree for every precision in 1..4000 and on a geometric
    grid up to 10**6 and log2((N+1)!) >= prec is checked with lgamma.  (The other series of this file
    choose their length inside loops that test the term size; this is the one closed-form count.)"""
    import math
    from ..formula import Evaluator
    LIBELE = 'mpmath/libmp/libelefun.py'
    run.rule('K-R4', floor=4, desc='closed-form term counts of the series for e, pi, acot[h] cover the precision')
    f = ix.func(LIBELE, 'e_fixed')
    pname = f.params[0]
    ndef = None
    call = None
    for x in _walk_own(f.node):
        if isinstance(x, ast.Call) and norm(x.func) == 'bspe' and len(x.args) == 2:
            call = x
    if call is None or norm(call.args[0]) != '0' or not isinstance(call.args[1], ast.Name):
        raise AnalysisError('e_fixed: bspe(0, N) not found')
    nname = call.args[1].id
    for x in _walk_own(f.node):
        if isinstance(x, ast.Assign) and norm(x.targets[0]) == nname:
            ndef = x
    if ndef is None:
        raise AnalysisError('e_fixed: term count %s is not a closed form' % nname)
    ev = Evaluator()
    grid = list(range(2, 4001)) + [int(4000 * 1.07 ** k) for k in range(1, 82)]
    worst = None
    for p_ in grid:
        n = ev.ev(ndef.value, {pname: p_})
        have = math.lgamma(n + 2) / math.log(2)
        if have < p_ and worst is None:
            worst = (p_, n, have)
    if worst is None:
        run.ok('K-R4', 'e_fixed: (N+1)! > 2**prec for N = %s at all %d precisions tried (2..%d)'
               % (norm(ndef.value, 50), len(grid), grid[-1]))
    else:
        p_, n, have = worst
        run.fail(Finding('K-R4', LIBELE, 'e_fixed', norm(ndef),
                         'at prec = %d the series is cut after N = %d terms, where the tail 1/(N+1)! is about '
                         '2**-%d: only %d of the %d requested bits of e have converged (the shortfall grows with '
                         'the precision)' % (p_, n, int(have), int(have), p_), line=ndef.lineno))
    # the sum is used as  (p + q) << prec // q : 1 + p/q
    rets = [norm(r.value) for r in _walk_own(f.node) if isinstance(r, ast.Return)]
    if rets == ['(p + q << prec) // q'.replace('prec', pname)]:
        run.ok('K-R4', 'e = 1 + p/q, floored at 2**-prec')
    else:
        run.fail(Finding('K-R4', LIBELE, 'e_fixed', 'return ' + (rets[0] if rets else '?'),
                         'the fixed-point value is not floor((p + q) * 2**prec / q)', line=f.lineno))


def _count_def(f, helper):
    """(name node of the count, its defining assignment) for `helper(.., N, ..)` in f"""
    for x in _walk_own(f.node):
        if isinstance(x, ast.Call) and norm(x.func) == helper:
            for a in x.args:
                if isinstance(a, ast.Name):
                    for y in _walk_own(f.node):
                        if isinstance(y, ast.Assign) and norm(y.targets[0]) == a.id and \
                                not isinstance(y.value, ast.Name):
                            return a.id, y
    return None, None


def check_more_term_counts(run, ix):
    """K-R4 for the other two closed-form counts of the constant kernels:
    pi_fixed  -- Chudnovsky series, each term contributes log2(53360**3) = 47.11 bits;
    acot_fixed(a) -- sum of (+-1)**k / ((2k+1) a**(2k+1)): N terms leave a tail below a**-(2N+1),
    for every integer a the Machin-type formulas of this file use."""
    import math
    from ..formula import Evaluator
    LIBELE = 'mpmath/libmp/libelefun.py'
    ev = Evaluator()
    grid = list(range(2, 3001)) + [int(3000 * 1.07 ** k) for k in range(1, 90)]
    # ---- pi
    f = ix.func(LIBELE, 'pi_fixed')
    nname, ndef = _count_def(f, 'bs_chudnovsky')
    if ndef is None:
        raise AnalysisError('pi_fixed: closed-form term count not found')
    per_term = 3 * math.log(53360, 2)
    worst = None
    for p_ in grid:
        n = ev.ev(ndef.value, {f.params[0]: p_})
        if n * per_term < p_ and worst is None:
            worst = (p_, n)
    if worst is None:
        run.ok('K-R4', 'pi_fixed: N = %s terms x 47.11 bits >= prec at all %d precisions tried' % (norm(ndef.value, 50), len(grid)))
    else:
        run.fail(Finding('K-R4', LIBELE, 'pi_fixed', norm(ndef), 'at prec = %d only N = %d Chudnovsky terms are '
                         'summed: %d bits of pi have converged' % (worst[0], worst[1], int(worst[1] * per_term)),
                         line=ndef.lineno))
    # ---- acot / acoth with the arguments used in this file
    g = ix.func(LIBELE, 'acot_fixed')
    nname, ndef = _count_def(g, 'bsp_acot')
    if ndef is None:
        raise AnalysisError('acot_fixed: closed-form term count not found')
    args = set()
    m = ix.module(LIBELE)
    for x in ast.walk(m.tree):
        if isinstance(x, ast.Call) and norm(x.func) == 'machin' and x.args and isinstance(x.args[0], ast.List):
            for t in x.args[0].elts:
                if isinstance(t, ast.Tuple) and len(t.elts) == 2 and isinstance(t.elts[1], ast.Constant):
                    args.add(t.elts[1].value)
    if len(args) < 5:
        raise AnalysisError('Machin-type formulas not found')
    worst = None
    for a in sorted(args):
        for p_ in grid:
            n = ev.ev(ndef.value, {g.params[0]: a, g.params[1]: p_})
            if (2 * n + 1) * math.log(a, 2) < p_ and worst is None:
                worst = (a, p_, n)
    if worst is None:
        run.ok('K-R4', 'acot_fixed: a**(2N+1) > 2**prec for N = %s, a in %s' % (norm(ndef.value, 40), sorted(args)))
    else:
        a, p_, n = worst
        run.fail(Finding('K-R4', LIBELE, 'acot_fixed', norm(ndef), 'for a = %d at prec = %d the series is cut after '
                         'N = %d terms, where the tail is about 2**-%d' % (a, p_, n, int((2 * n + 1) * math.log(a, 2))),
                         line=ndef.lineno))


# ---------------------------------------------------------------------------------------------
# K-R5  error amplification in fixed-point series.  In a series loop a running quantity X is kept
# by floor division (X //= ...): it carries an error of up to about one unit.  If the term is then
# formed by multiplying X with a coefficient that GROWS with the loop counter (and is not divided
# back in the same expression), the unit error of every one of the O(prec) terms is multiplied by
# that coefficient: the total error grows like a power of the precision and overruns any CONSTANT
# number of guard bits (apery_fixed: 205 n^2 + 250 n + 77, error +100 units at 17458 bits, +3233
# at 100000).  Rule: net degree in the loop counter of (multipliers / divisors) applied to a
# floor-divided variable is <= 0, or the guard bits of the function depend on the precision.
def _degree(e, counter):
    """polynomial degree of e in the loop counter (None = not a polynomial we understand)"""
    if isinstance(e, ast.Constant) and isinstance(e.value, (int, float)):
        return 0
    if isinstance(e, ast.Name):
        return 1 if e.id == counter else 0
    if isinstance(e, ast.UnaryOp):
        return _degree(e.operand, counter)
    if isinstance(e, ast.BinOp):
        a, b = _degree(e.left, counter), _degree(e.right, counter)
        if isinstance(e.op, ast.Pow):
            if isinstance(e.right, ast.Constant) and isinstance(e.right.value, int) and a is not None:
                return a * e.right.value
            if a == 0:
                return 0            # (-1)**n and the like: bounded
            return None
        if a is None or b is None:
            return None
        if isinstance(e.op, ast.Mult):
            return a + b
        if isinstance(e.op, (ast.Add, ast.Sub)):
            return max(a, b)
        if isinstance(e.op, (ast.FloorDiv, ast.Div)):
            return a - b
        if isinstance(e.op, (ast.LShift, ast.RShift)):
            return a
    if isinstance(e, ast.Call) and norm(e.func) in ('MPZ', 'int', 'abs'):
        return _degree(e.args[0], counter) if e.args else 0
    return None


def check_series_amplification(run, ix):
    n = 0
    for rel in (LIBELE, GZ):
        m = ix.module(rel)
        for f in m.funcs.values():
            if f.parent is not None or not f.name.endswith('_fixed'):
                continue
            loops = [x for x in _walk_own(f.node) if isinstance(x, ast.While)]
            for lp in loops:
                body = [x for x in ast.walk(lp) if isinstance(x, ast.stmt)]
                counters = [x.target.id for x in body if isinstance(x, ast.AugAssign) and
                            isinstance(x.op, ast.Add) and isinstance(x.target, ast.Name) and
                            isinstance(x.value, ast.Constant) and x.value.value == 1]
                if len(counters) != 1:
                    continue
                c = counters[0]
                # floor-divided running quantities
                trunc = set()
                for x in body:
                    if isinstance(x, ast.AugAssign) and isinstance(x.op, ast.FloorDiv) and \
                            isinstance(x.target, ast.Name):
                        trunc.add(x.target.id)
                    if isinstance(x, ast.Assign) and isinstance(x.targets[0], ast.Name) and \
                            any(isinstance(b, ast.BinOp) and isinstance(b.op, ast.FloorDiv)
                                for b in ast.walk(x.value)) and \
                            x.targets[0].id in {nm.id for nm in ast.walk(x.value) if isinstance(nm, ast.Name)}:
                        trunc.add(x.targets[0].id)
                if not trunc:
                    continue
                guard_const = _guard_is_constant(f)
                for x in body:
                    if not (isinstance(x, ast.Assign) and isinstance(x.targets[0], ast.Name)):
                        continue
                    tgt = x.targets[0].id
                    used = {nm.id for nm in ast.walk(x.value) if isinstance(nm, ast.Name)} & trunc
                    if not used or tgt in trunc:
                        continue
                    # degree of everything that multiplies the truncated variable(s): replace them by 1
                    d = _degree(x.value, c)
                    n += 1
                    if d is None:
                        raise AnalysisError('K-R5: cannot take the degree of `%s` in %s' % (norm(x), f.qualname))
                    if d <= 0:
                        run.ok('K-R5', '%s: `%s` net degree %d in %s' % (f.qualname, norm(x, 60), d, c))
                    elif not guard_const:
                        run.ok('K-R5', '%s: `%s` degree %d, guard bits grow with the precision'
                               % (f.qualname, norm(x, 50), d))
                    else:
                        run.fail(Finding('K-R5', rel, f.qualname, norm(x),
                                         'the floor-divided quantity %s (error up to a unit) is multiplied by a '
                                         'coefficient of degree %d in the loop counter %s in each of O(prec) terms, '
                                         'while the function keeps a CONSTANT number of guard bits: the accumulated '
                                         'error grows like prec^%d and overruns them at high precision (wrong-side '
                                         'directed values, history-dependent results)'
                                         % (sorted(used), d, c, d + 1), line=x.lineno))
    if n < 2:
        raise AnalysisError('K-R5: only %d series terms built from floor-divided quantities found' % n)


def _guard_is_constant(f):
    """True if every assignment that raises the working precision adds a constant"""
    prec = f.params[0]
    seen = False
    const = True
    names_const = {}
    for x in _walk_own(f.node):
        if isinstance(x, ast.Assign) and isinstance(x.targets[0], ast.Name):
            names_const[x.targets[0].id] = not any(
                isinstance(nm, ast.Name) and nm.id == prec for nm in ast.walk(x.value)) and \
                all(names_const.get(nm.id, True) for nm in ast.walk(x.value) if isinstance(nm, ast.Name))
    for x in _walk_own(f.node):
        v = None
        if isinstance(x, ast.AugAssign) and isinstance(x.target, ast.Name) and x.target.id == prec and \
                isinstance(x.op, ast.Add):
            v = x.value
        elif isinstance(x, ast.Assign) and isinstance(x.targets[0], ast.Name) and \
                isinstance(x.value, ast.BinOp) and isinstance(x.value.op, ast.Add) and \
                any(isinstance(nm, ast.Name) and nm.id == prec for nm in ast.walk(x.value)):
            l, r = x.value.left, x.value.right
            v = r if norm(l) == prec else l if norm(r) == prec else None
            if v is None:
                const = False
                seen = True
                continue
        if v is None:
            continue
        seen = True
        if isinstance(v, ast.Constant):
            continue
        if isinstance(v, ast.Name) and names_const.get(v.id, False):
            continue
        const = False
    return const if seen else True
