"""C09 -- conversion to and from machine floats is exact or correctly rounded.

That `from_man_exp`/`normalize1` round correctly is C02's clause; the bit-level
behaviour of `math.frexp`/`math.ldexp` is CPython's.  Decided here: the
constants and wiring that make the conversion exact,

  V-R1  from_float decomposes x = m * 2**e and rebuilds it as an integer
        mantissa with the SAME power in both places: int(m * 2**K) with
        exponent e - K, K >= 53 (a double has 53 significant bits, so m*2**K is
        an integer exactly when K >= 53); its default precision equals K, so a
        call without precision is exact; nan and the two infinities are mapped
        to fnan/finf/fninf before the decomposition.  Same for from_npfloat
        (K = 113)
  V-R2  every conversion of a Python float in the context layer (mpf(f),
        mpmathify, comparison operands, complex parts) calls from_float with
        NO precision argument (exact), leaving rounding to the one place that
        rounds to the working precision
  V-R3  to_float rounds to exactly 53 bits (threshold and target agree, the
        caller's mode is passed), maps zero/inf/-inf/nan to the float specials,
        and on OverflowError returns the infinity of the number's own sign for
        large magnitudes and 0.0 for small ones (or re-raises under strict)
  V-R4  float(x) and complex(z) go through to_float / mpc_to_complex with the
        context's rounding mode (round-half-even by default); mpc_to_complex
        converts both parts with the same (strict, rnd)
"""
import ast

from ..index import AnalysisError, norm
from ..prec_effect import _walk_own
from ..report import Finding

LIBMPF = 'mpmath/libmp/libmpf.py'
LIBMPC = 'mpmath/libmp/libmpc.py'
CTXPY = 'mpmath/ctx_mp_python.py'
CTXMP = 'mpmath/ctx_mp.py'


def F(rule, file, qn, node_or_text, reason, line=None):
    site = node_or_text if isinstance(node_or_text, str) else norm(node_or_text)
    if line is None and not isinstance(node_or_text, str):
        line = getattr(node_or_text, 'lineno', None)
    return Finding(rule, file, qn, site, reason, line=line)


def power_of_two(e):
    """K for expressions 1 << K, 2 ** K, 2.0 ** K with constant K; else None"""
    if isinstance(e, ast.BinOp) and isinstance(e.right, ast.Constant) and isinstance(e.right.value, int):
        if isinstance(e.op, ast.LShift) and isinstance(e.left, ast.Constant) and e.left.value == 1:
            return e.right.value
        if isinstance(e.op, ast.Pow) and isinstance(e.left, ast.Constant) and e.left.value in (2, 2.0):
            return e.right.value
    return None


def check_from_float(run, ix, name, K, minK):
    f = ix.func(LIBMPF, name)
    fn = f.node
    d = f.defaults()
    calls = [x for x in _walk_own(fn) if isinstance(x, ast.Call) and norm(x.func) == 'from_man_exp']
    if not calls:
        raise AnalysisError('%s: from_man_exp call not found' % name)
    for c in calls:
        if len(c.args) < 4:
            run.fail(F('V-R1', LIBMPF, name, c, 'the mantissa/exponent pair is not rounded with the caller\'s '
                       '(prec, rnd)'))
            continue
        man, exp, p, r = c.args[:4]
        if [norm(p), norm(r)] != [f.params[1], f.params[2]]:
            run.fail(F('V-R1', LIBMPF, name, c, 'from_man_exp does not receive the caller\'s (prec, rnd)'))
        else:
            run.ok('V-R1', '%s: from_man_exp(..., %s, %s)' % (name, norm(p), norm(r)))
        # scale in the mantissa
        ks = [power_of_two(x) for x in ast.walk(man)]
        ks = [k for k in ks if k is not None]
        # ldexp(m, K) form
        for x in ast.walk(man):
            if isinstance(x, ast.Call) and norm(x.func).endswith('ldexp') and len(x.args) == 2 and \
                    isinstance(x.args[1], ast.Constant):
                ks.append(x.args[1].value)
        off = None
        for x in ast.walk(exp):
            if isinstance(x, ast.BinOp) and isinstance(x.op, ast.Sub) and isinstance(x.right, ast.Constant):
                off = x.right.value
        if len(ks) == 1 and off == ks[0] and ks[0] >= minK:
            run.ok('V-R1', '%s: mantissa scaled by 2**%d, exponent reduced by %d' % (name, ks[0], off))
        else:
            run.fail(F('V-R1', LIBMPF, name, c, 'the mantissa is scaled by 2**%s but the exponent is reduced by %s '
                       '(they must be the same K >= %d for m*2**K to be the exact integer mantissa)'
                       % (ks, off, minK)))
        dk = d.get(f.params[1])
        if dk is not None and isinstance(dk, ast.Constant) and ks and dk.value >= minK and ks[0] >= minK:
            run.ok('V-R1', '%s: default precision %s keeps all %d significant bits' % (name, dk.value, minK))
        else:
            run.fail(F('V-R1', LIBMPF, name, 'def %s(%s)' % (name, norm(fn.args)), 'the default precision is below '
                       'the number of mantissa bits: a conversion without precision argument is not exact',
                       line=fn.lineno))
    if name == 'from_float':
        # specials before the decomposition
        rets = [norm(r.value) for r in _walk_own(fn) if isinstance(r, ast.Return)]
        for need in ('fnan', 'finf', 'fninf'):
            if need in rets:
                run.ok('V-R1', 'from_float maps the float special to %s' % need)
            else:
                run.fail(F('V-R1', LIBMPF, name, 'return %s' % need, 'special float values are not mapped to %s' % need,
                           line=fn.lineno))
        # the pairing of sign and infinity
        for st in _walk_own(fn):
            if isinstance(st, ast.If) and isinstance(st.test, ast.Compare) and len(st.body) == 1 and \
                    isinstance(st.body[0], ast.Return):
                t = norm(st.test)
                r = norm(st.body[0].value)
                if 'math_float_inf' in t and r in ('finf', 'fninf'):
                    neg = '-math_float_inf' in t
                    if neg == (r == 'fninf'):
                        run.ok('V-R1', '`%s` -> %s' % (t, r))
                    else:
                        run.fail(F('V-R1', LIBMPF, name, st, 'the infinity of the wrong sign is returned'))


def check_call_sites(run, ix):
    n = 0
    for rel in (CTXPY, CTXMP, 'mpmath/ctx_base.py', 'mpmath/ctx_iv.py'):
        m = ix.modules.get(rel)
        if m is None:
            continue
        for f in list(m.funcs.values()) + list(ix.generated if rel == CTXPY else []):
            for x in _walk_own(f.node):
                if isinstance(x, ast.Call) and isinstance(x.func, ast.Name) and \
                        x.func.id in ('from_float', 'from_npfloat'):
                    n += 1
                    if len(x.args) == 1 and not x.keywords:
                        run.ok('V-R2', '%s: %s' % (f.qualname, norm(x)) if n < 8 else None)
                    elif f.name in ('mpf_convert_arg', '__new__') and \
                            [norm(a) for a in x.args[1:]] == ['prec', 'rounding']:
                        # constructor path: one rounding of the exact float to the working precision
                        run.ok('V-R2', '%s: %s (single rounding in the constructor)' % (f.qualname, norm(x)))
                    elif rel == 'mpmath/ctx_iv.py':
                        # interval endpoints are deliberately rounded outward (C14)
                        run.ok('V-R2')
                    else:
                        st = x
                        while not isinstance(st, ast.stmt):
                            st = st._parent
                        run.fail(F('V-R2', rel, f.qualname, st, 'a Python float is converted with a precision '
                                   'argument (`%s`): the conversion itself rounds, so mpf(f) / comparisons no longer '
                                   'see the exact value of the float' % norm(x)))
    return n


def check_to_float(run, ix):
    f = ix.func(LIBMPF, 'to_float')
    fn = f.node
    rnd = 'rnd' if 'rnd' in f.params else None
    # rounding to 53 bits
    gates = [x for x in _walk_own(fn) if isinstance(x, ast.If) and isinstance(x.test, ast.Compare) and
             norm(x.test.left) == 'bc' and isinstance(x.test.comparators[0], ast.Constant)]
    done = False
    for g in gates:
        thr = g.test.comparators[0].value
        calls = [c for st in g.body for c in ast.walk(st) if isinstance(c, ast.Call) and
                 norm(c.func) in ('normalize1', 'normalize')]
        for c in calls:
            done = True
            tgt = c.args[4].value if len(c.args) > 4 and isinstance(c.args[4], ast.Constant) else None
            mode = norm(c.args[5]) if len(c.args) > 5 else None
            if thr == 53 and tgt == 53 and isinstance(g.test.ops[0], ast.Gt):
                run.ok('V-R3', 'mantissas longer than 53 bits are rounded to 53 bits')
            else:
                run.fail(F('V-R3', LIBMPF, 'to_float', g, 'threshold %s / target %s of the rounding step are not both '
                           '53 (the mantissa width of a double): ldexp would round a second time or bits are lost'
                           % (thr, tgt)))
            if mode == rnd:
                run.ok('V-R3', 'the rounding step uses the caller\'s mode')
            else:
                run.fail(F('V-R3', LIBMPF, 'to_float', c, 'the 53-bit rounding ignores the requested mode (uses %s)' % mode))
    if not done:
        run.fail(F('V-R3', LIBMPF, 'to_float', 'if bc > 53: normalize1(..., 53, rnd)', 'no rounding to 53 bits before '
                   'ldexp', line=fn.lineno))
    # specials
    want = {'fzero': '0.0', 'finf': 'math_float_inf', 'fninf': '-math_float_inf'}
    for st in _walk_own(fn):
        if isinstance(st, ast.If) and isinstance(st.test, ast.Compare) and norm(st.test.left) == f.params[0] and \
                len(st.body) == 1 and isinstance(st.body[0], ast.Return):
            k = norm(st.test.comparators[0])
            if k in want:
                if norm(st.body[0].value) == want[k]:
                    run.ok('V-R3', '%s -> %s' % (k, want[k]))
                else:
                    run.fail(F('V-R3', LIBMPF, 'to_float', st, '%s is converted to %s' % (k, norm(st.body[0].value))))
                want.pop(k)
    for k in want:
        run.fail(F('V-R3', LIBMPF, 'to_float', 'if s == %s' % k, 'special value %s is not mapped' % k, line=fn.lineno))
    # overflow handler
    hs = [h for t in _walk_own(fn) if isinstance(t, ast.Try) for h in t.handlers if norm(h.type) == 'OverflowError']
    if len(hs) != 1:
        run.fail(F('V-R3', LIBMPF, 'to_float', 'except OverflowError', 'overflow of ldexp is not handled', line=fn.lineno))
        return
    h = hs[0]
    infs = []
    zero = False
    strict = False
    for st in ast.walk(h):
        if isinstance(st, ast.If) and norm(st.test) == 'strict' and any(isinstance(b, ast.Raise) for b in st.body):
            strict = True
        if isinstance(st, ast.If) and norm(st.test) == 'sign':
            a = [norm(r.value) for b in st.body for r in ast.walk(b) if isinstance(r, ast.Return)]
            o = [norm(r.value) for b in st.orelse for r in ast.walk(b) if isinstance(r, ast.Return)]
            infs.append((a, o))
        if isinstance(st, ast.Return) and norm(st.value) == '0.0':
            zero = True
    if strict:
        run.ok('V-R3', 'strict re-raises the overflow')
    else:
        run.fail(F('V-R3', LIBMPF, 'to_float', h, 'strict=True does not re-raise'))
    if infs == [(['-math_float_inf'], ['math_float_inf'])]:
        run.ok('V-R3', 'overflow returns the infinity of the number\'s sign')
    else:
        run.fail(F('V-R3', LIBMPF, 'to_float', h, 'on overflow the returned infinity does not follow the sign '
                   '(%s)' % infs))
    big = [st for st in ast.walk(h) if isinstance(st, ast.If) and norm(st.test) in ('exp + bc > 0', 'exp + bc >= 0')]
    if big and zero:
        run.ok('V-R3', 'large magnitude -> inf, small magnitude -> 0.0')
    else:
        run.fail(F('V-R3', LIBMPF, 'to_float', h, 'the overflow handler does not separate huge from tiny magnitudes'))


def check_wiring(run, ix):
    m = ix.module(CTXPY)
    f = m.funcs.get('_mpf.__float__')
    if f is None:
        raise AnalysisError('_mpf.__float__ vanished')
    r = [x for x in _walk_own(f.node) if isinstance(x, ast.Return)]
    if len(r) == 1 and norm(r[0].value).replace(' ', '') == 'to_float(s._mpf_,rnd=s.context._prec_rounding[1])':
        run.ok('V-R4', 'float(x) = to_float(x._mpf_, rnd=context rounding)')
    else:
        run.fail(F('V-R4', CTXPY, '_mpf.__float__', r[0] if r else f.node, 'float(x) does not convert the stored value '
                   'with the context\'s rounding mode'))
    f = m.funcs.get('_mpc.__complex__')
    if f is None:
        raise AnalysisError('_mpc.__complex__ vanished')
    r = [x for x in _walk_own(f.node) if isinstance(x, ast.Return)]
    if len(r) == 1 and norm(r[0].value).replace(' ', '') == 'mpc_to_complex(s._mpc_,rnd=s.context._prec_rounding[1])':
        run.ok('V-R4', 'complex(z) = mpc_to_complex(z._mpc_, rnd=context rounding)')
    else:
        run.fail(F('V-R4', CTXPY, '_mpc.__complex__', r[0] if r else f.node, 'complex(z) does not convert the stored '
                   'value with the context\'s rounding mode'))
    g = ix.func(LIBMPC, 'mpc_to_complex')
    r = [x for x in _walk_own(g.node) if isinstance(x, ast.Return)]
    p = g.params
    want = 'complex(to_float(re, %s, %s), to_float(im, %s, %s))' % (p[1], p[2], p[1], p[2])
    un = [x for x in _walk_own(g.node) if isinstance(x, ast.Assign) and norm(x.value) == p[0]]
    if len(r) == 1 and norm(r[0].value) == want and un and norm(un[0].targets[0]) in ('(re, im)', 're, im'):
        run.ok('V-R4', 'mpc_to_complex converts (re, im) in order with the same (strict, rnd)')
    else:
        run.fail(F('V-R4', LIBMPC, 'mpc_to_complex', r[0] if r else g.node, 'the two parts are not converted in order '
                   'with the same arguments'))


def check_more_wiring(run, ix):
    """V-R6 / V-R7 (second C09 hunt; repairs f660b9b, 0ab9321).  V-R6: `to_float` defaults to round_fast, which truncates
    toward zero; every __float__ / __complex__ method of the package that reaches it passes a rounding mode (the
    interval numbers did not: float(iv.mpf(2**60+129)) was 2**60).  V-R7: in the operand conversion `mpf_convert_rhs` a
    Python complex goes through `convert` (exact), not through the constructor `mpc(...)`, which rounds both parts to
    the working precision before the operation (complex(1025, 0) - mpf(1) at 10 bits was 1023)."""
    n = 0
    for rel in (CTXPY, 'mpmath/ctx_iv.py'):
        m = ix.module(rel)
        for f in m.funcs.values():
            if f.name not in ('__float__', '__complex__'):
                continue
            for c in ast.walk(f.node):
                if isinstance(c, ast.Call) and norm(c.func).split('.')[-1] in ('to_float', 'mpc_to_complex'):
                    n += 1
                    if any(k.arg == 'rnd' for k in c.keywords) or len(c.args) >= 3:
                        run.ok('V-R6', '%s: `%s` passes a rounding mode' % (f.qualname, norm(c, 60)))
                    else:
                        run.fail(F('V-R6', rel, f.qualname, c, 'to_float is called without a rounding mode and truncates '
                                   'toward zero: the result is not the nearest double'))
            # the conversion function handed to a helper (self.cast(float, libmp.to_float))
            for c in ast.walk(f.node):
                if isinstance(c, ast.Call):
                    for a in c.args:
                        if isinstance(a, (ast.Attribute, ast.Name)) and norm(a).split('.')[-1] in ('to_float', 'mpc_to_complex'):
                            n += 1
                            run.fail(F('V-R6', rel, f.qualname, c, '`%s` is handed on as a conversion function and will be '
                                       'called with its default mode round_fast, which truncates toward zero: '
                                       'float(iv.mpf(2**60 + 129)) is 2**60 instead of 2**60 + 256' % norm(a)))
    if n < 4:
        raise AnalysisError('V-R6: only %d float conversions found in __float__ / __complex__ methods' % n)
    f = ix.func(CTXPY, '_mpf.mpf_convert_rhs')
    hit = False
    for i in _walk_own(f.node):
        if isinstance(i, ast.If) and 'complex_types' in norm(i.test):
            hit = True
            rets = [r for b in i.body for r in ast.walk(b) if isinstance(r, ast.Return)]
            if rets and all(isinstance(r.value, ast.Call) and norm(r.value.func).endswith('.convert') for r in rets):
                run.ok('V-R7', 'a complex operand is converted exactly: `%s`' % norm(rets[0]))
            else:
                run.fail(F('V-R7', CTXPY, f.qualname, rets[0] if rets else i,
                           'a Python complex operand goes through the rounding constructor: at mp.prec = 10, '
                           'complex(1025, 0) - mpf(1) is 1023 although 1024 is exact and representable'))
    if not hit:
        raise AnalysisError('mpf_convert_rhs: complex branch not found')


def run(run, ix, tier):
    run.explanation = (
        'The float conversions are exact because of a handful of agreeing constants and because rounding is left '
        'to one place: from_float rebuilds m*2**e with the same power K >= 53 in mantissa and exponent and defaults '
        'to a precision that keeps all bits; every conversion site in the context layer calls it without a '
        'precision; to_float rounds to exactly 53 bits in the requested mode before ldexp and maps specials and '
        'overflow by sign; float()/complex() use the context mode (half-even by default).  Correct rounding inside '
        'normalize1 is C02\'s clause; frexp/ldexp are CPython\'s.')
    run.assumptions = ['math.frexp/ldexp are exact (CPython)', 'normalize1 rounds correctly (C01/C02)']
    run.trusted = []
    run.rule('V-R1', floor=10)
    run.rule('V-R2', floor=8)
    run.rule('V-R3', floor=8)
    run.rule('V-R4', floor=3)
    run.rule('V-R5', floor=3, desc='the float conversion kernels keep no state')
    check_from_float(run, ix, 'from_float', 53, 53)
    check_from_float(run, ix, 'from_npfloat', 113, 113)
    n = check_call_sites(run, ix)
    run.stats['from_float_call_sites'] = n
    check_to_float(run, ix)
    check_wiring(run, ix)
    check_pure(run, ix)
    run.rule('V-R6', floor=4, desc='every __float__ / __complex__ passes a rounding mode to to_float')
    run.rule('V-R7', floor=1, desc='a Python complex operand of an mpf is converted exactly')
    check_more_wiring(run, ix)
    run.rule('V-R8', floor=3, desc='to_float rounds once: no bits of the mantissa are dropped outside the rounding call')
    check_single_rounding(run, ix)


LOSSY = (ast.RShift, ast.FloorDiv, ast.BitAnd, ast.Mod, ast.Div)


def check_single_rounding(run, ix):
    """V-R8 (seed C09-7).  The only place where `to_float` may lose bits of the stored number is the one
    normalize1/normalize call that rounds to 53 bits with the caller's mode.  Any other statement that
    rebinds one of the unpacked fields (sign, man, exp, bc) through a lossy operator (>>, //, &, %, /) or
    through a call drops the low ("sticky") bits first: a value just above the midpoint of two doubles
    is then put exactly on the tie and rounded to even, and a directed mode sees an exact value."""
    f = ix.func(LIBMPF, 'to_float')
    fn = f.node
    fields = None
    for st in _walk_own(fn):
        if isinstance(st, ast.Assign) and isinstance(st.targets[0], ast.Tuple) and \
                isinstance(st.value, ast.Name) and st.value.id == f.params[0]:
            fields = [norm(e) for e in st.targets[0].elts]
            break
    if not fields or len(fields) != 4:
        raise AnalysisError('V-R8: to_float does not unpack its argument into four fields')
    run.ok('V-R8', 'fields unpacked once from the argument: %s' % ', '.join(fields))
    n = 0
    for st in _walk_own(fn):
        tgts, val, aug = [], None, None
        if isinstance(st, ast.Assign):
            for t in st.targets:
                tgts += [norm(e) for e in (t.elts if isinstance(t, ast.Tuple) else [t])]
            val = st.value
        elif isinstance(st, ast.AugAssign):
            tgts, val, aug = [norm(st.target)], st.value, st.op
        else:
            continue
        if not set(tgts) & set(fields):
            continue
        n += 1
        if isinstance(val, ast.Name) and val.id == f.params[0]:
            continue
        if isinstance(val, ast.Call) and norm(val.func) in ('normalize1', 'normalize') and \
                [norm(a) for a in val.args[:4]] == fields:
            run.ok('V-R8', '`%s`: the rounding call receives the fields as unpacked' % norm(st, 70))
            continue
        lossy = [x for x in ast.walk(val) if (isinstance(x, ast.BinOp) and isinstance(x.op, LOSSY)) or
                 isinstance(x, ast.Call)]
        if aug is not None and isinstance(aug, LOSSY):
            lossy.append(st)
        if lossy:
            run.fail(F('V-R8', LIBMPF, 'to_float', st, 'a field of the number is shortened or recomputed (`%s`) outside '
                       'the 53-bit rounding call: the dropped low bits no longer take part in the rounding, so values '
                       'just above a midpoint (or any inexact value under a directed mode) go to the wrong double'
                       % norm(lossy[0], 50)))
        else:
            run.ok('V-R8', '`%s` is exact' % norm(st, 60))
    if n < 3:
        raise AnalysisError('V-R8: only %d assignments to the fields in to_float' % n)


def check_pure(run, ix):
    """V-R5: from_float / from_npfloat / to_float are pure functions of their arguments: they neither
    read nor write a module-level container.  A memo keyed by the float alone would hand a value
    rounded for one precision to a later exact request."""
    m = ix.module(LIBMPF)
    containers = set()
    for name, value, st, g in m.toplevel_assigns:
        if isinstance(value, (ast.Dict, ast.List, ast.Set, ast.ListComp, ast.DictComp)) or \
                (isinstance(value, ast.Call) and norm(value.func) in ('dict', 'list', 'set')):
            containers.add(name)
    for name in ('from_float', 'from_npfloat', 'to_float'):
        f = ix.func(LIBMPF, name)
        local = set(f.all_params()) | set(x.id for x in _walk_own(f.node)
                                          if isinstance(x, ast.Name) and isinstance(x.ctx, ast.Store))
        used = sorted(set(x.id for x in _walk_own(f.node) if isinstance(x, ast.Name) and
                          x.id in containers and x.id not in local))
        glob = [x for x in _walk_own(f.node) if isinstance(x, ast.Global)]
        if used or glob:
            run.fail(F('V-R5', LIBMPF, name, 'def %s' % name, 'the conversion consults module-level state (%s): its '
                       'result then depends on earlier calls (a value rounded at a low precision can be served to '
                       'an exact conversion)' % ', '.join(used or [norm(glob[0])]), line=f.lineno))
        else:
            run.ok('V-R5', '%s touches no module-level container' % name)
