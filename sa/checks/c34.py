"""C34 -- ODE interpolant: fixed working precision, append-only segment cache,
in-range lookup, step bound over all components.

Accuracy of the Taylor steps is numerical and NOT decided.  Decided clauses
(each a necessary condition of "values do not depend on evaluation order or on
the caller's precision", resp. of the error bound holding for every component):
  O-R1  everything the interpolant computes (segment lookup, extension,
        polynomial evaluation) runs inside a region that set the precision to
        a value frozen at creation; the tolerance/degree handed to extensions
        are creation-time constants
  O-R2  the only state shared between calls is the pair of segment lists; they
        are only ever appended to, in lock-step
  O-R3  the segment lookup index is provably inside the list: x >= x0 is
        enforced, the bisection is the right-bisection (n >= 1), n-1 is used
        under n < len(boundaries)
  O-R4  an extension returns the new segment only when x <= its new boundary
  O-R5  the step radius is a minimum folded over ALL components' last Taylor
        coefficients, then only shrunk
  O-R6  returned values are re-rounded (+y) after the precision is restored
  O-R8  the step radius is estimated from the last TWO Taylor coefficients
  O-R9  the difference scheme runs with at least n*tol_prec + prec bits
"""
import ast

from ..index import AnalysisError, norm
from ..prec_effect import _walk_own
from ..report import Finding

ODES = 'mpmath/calculus/odes.py'
MUTATORS = ('append', 'extend', 'insert', 'pop', 'remove', 'clear', 'update', 'setdefault',
            'popitem', 'sort', 'reverse', '__setitem__', '__delitem__')


def stores_in(fn):
    """names assigned (Store) directly in a function, not in nested defs"""
    out = {}
    for x in _walk_own(fn):
        if isinstance(x, ast.Name) and isinstance(x.ctx, ast.Store):
            out.setdefault(x.id, []).append(x)
    return out


def mutations(fn):
    """(container name, kind, node) for every in-place mutation in fn (own nodes)"""
    out = []
    for x in _walk_own(fn):
        if isinstance(x, ast.Call) and isinstance(x.func, ast.Attribute) and \
                x.func.attr in MUTATORS and isinstance(x.func.value, ast.Name):
            out.append((x.func.value.id, x.func.attr, x))
        if isinstance(x, ast.Subscript) and isinstance(x.ctx, (ast.Store, ast.Del)) and \
                isinstance(x.value, ast.Name):
            out.append((x.value.id, 'setitem' if isinstance(x.ctx, ast.Store) else 'delitem', x))
        if isinstance(x, ast.AugAssign) and isinstance(x.target, ast.Name):
            out.append((x.target.id, 'augassign', x))
    return out


def run(run, ix, tier):
    run.explanation = (
        'The interpolant returned by odefun is a closure over two segment lists.  Order and '
        'precision independence need (1) a working precision frozen at creation around all '
        'computation, (2) no other state shared between calls and append-only lists, (3) a '
        'lookup that cannot index outside the lists, and the error bound needs (5) a step '
        'radius bounded by every component.  These are decided from the closure structure; '
        'the size of the Taylor truncation error is not.')
    run.assumptions = ['user callback F is a pure function of (x, y)']
    run.trusted = []
    for r, fl in (('O-R1', 4), ('O-R2', 3), ('O-R3', 3), ('O-R4', 1), ('O-R5', 2), ('O-R6', 2), ('O-R8', 1), ('O-R9', 1)):
        run.rule(r, floor=fl)
    check_tolerance_bits(run, ix)
    check_radius_estimate(run, ix)
    check_first_segment_and_workprec(run, ix)
    m = ix.module(ODES)
    od = ix.func(ODES, 'odefun')
    interp = ix.func(ODES, 'odefun.interpolant')
    gs = ix.func(ODES, 'odefun.get_series')
    tay = ix.func(ODES, 'ode_taylor')
    nested = [f for f in m.funcs.values() if f.qualname.startswith('odefun.')]
    outer_stores = stores_in(od.node)

    # ---- O-R1 -------------------------------------------------------------------
    # the precision set inside interpolant
    sets = [x for x in _walk_own(interp.node) if isinstance(x, ast.Assign) and
            norm(x.targets[0]) == 'ctx.prec']
    tries = [x for x in _walk_own(interp.node) if isinstance(x, ast.Try)]
    region = None
    for t in tries:
        for i, st in enumerate(t.body):
            if st in sets and isinstance(st.value, ast.Name):
                region = (t, i, st.value.id)
    if region is None:
        run.fail(Finding('O-R1', ODES, interp.qualname, 'ctx.prec = <frozen>',
                         'the interpolant does not set the precision to a creation-time value inside '
                         'a try block', line=interp.lineno))
        return
    t, i, wpname = region
    # frozen: assigned exactly once in odefun, never in nested functions
    n_outer = len(outer_stores.get(wpname, []))
    n_inner = sum(len(stores_in(f.node).get(wpname, [])) for f in nested if wpname not in f.params)
    nonlocal_ = any(isinstance(x, (ast.Nonlocal, ast.Global)) and wpname in x.names
                    for f in nested for x in _walk_own(f.node))
    if n_outer == 1 and not nonlocal_ and (n_inner == 0):
        run.ok('O-R1', 'working precision %s is assigned once at creation' % wpname)
    else:
        run.fail(Finding('O-R1', ODES, od.qualname, '%s = ...' % wpname,
                         'the interpolant\'s working precision is not a creation-time constant '
                         '(%d assignments in odefun, %d in nested functions)' % (n_outer, n_inner),
                         line=od.lineno))
    # all work inside the region
    inside = set()
    for st in t.body[i + 1:]:
        for x in ast.walk(st):
            inside.add(id(x))
    work = [x for x in _walk_own(interp.node) if isinstance(x, ast.Call) and
            norm(x.func) in ('get_series', 'mpolyval', 'ode_taylor')]
    if not work:
        raise AnalysisError('interpolant: no calls to get_series/mpolyval found')
    for x in work:
        if id(x) in inside:
            run.ok('O-R1', '%s runs at the frozen precision' % norm(x, 40))
        else:
            run.fail(Finding('O-R1', ODES, interp.qualname, norm(x),
                             'segment lookup / evaluation runs outside the region that fixes the '
                             'working precision: the value depends on the caller\'s precision (and '
                             'cached segments on the precision of the first caller)', line=x.lineno))
    # get_series / mpolyval are only called from inside that region (or from each other)
    for f in nested:
        if f is interp:
            continue
        for x in _walk_own(f.node):
            if isinstance(x, ast.Assign) and norm(x.targets[0]) in ('ctx.prec', 'ctx.dps'):
                run.fail(Finding('O-R1', ODES, f.qualname, norm(x), 'helper changes the precision',
                                 line=x.lineno))
    # extension parameters are creation-time constants
    ext = [x for x in _walk_own(gs.node) if isinstance(x, ast.Call) and norm(x.func) == 'ode_taylor']
    if not ext:
        raise AnalysisError('get_series: extension call vanished')
    for x in ext:
        bad = []
        for a in x.args[4:] + [k.value for k in x.keywords]:
            for y in ast.walk(a):
                if isinstance(y, ast.Name):
                    if len(outer_stores.get(y.id, [])) + (1 if y.id in od.params else 0) < 1 or \
                            any(y.id in stores_in(f.node) for f in nested):
                        bad.append(y.id)
                    elif len(outer_stores.get(y.id, [])) > 2:
                        bad.append(y.id)
                elif isinstance(y, ast.Attribute):
                    bad.append(norm(y))
        if bad:
            run.fail(Finding('O-R1', ODES, gs.qualname, norm(x),
                             'tolerance/degree of a segment extension depend on call-time state: %s'
                             % sorted(set(bad)), line=x.lineno))
        else:
            run.ok('O-R1', 'extension uses creation-time tolerance and degree')

    # ---- O-R2 -------------------------------------------------------------------
    shared = {}
    for f in nested:
        local = set(stores_in(f.node)) | set(f.params)
        for name, kind, node in mutations(f.node):
            if name in local:
                continue
            shared.setdefault(name, []).append((f, kind, node))
    lists = sorted(shared)
    reads_boundaries = [norm(x.args[0]) for x in _walk_own(gs.node) if isinstance(x, ast.Call)
                        and norm(x.func).startswith('bisect') and x.args]
    if not reads_boundaries:
        raise AnalysisError('get_series: bisection vanished')
    bname = reads_boundaries[0]
    allowed = set()
    for name in lists:
        kinds = set(k for f, k, n in shared[name])
        users = set(f.qualname for f, k, n in shared[name])
        if kinds == {'append'} and users == {gs.qualname}:
            allowed.add(name)
            run.ok('O-R2', '%s: append-only, written by get_series only' % name)
        else:
            f0, k0, n0 = shared[name][0]
            run.fail(Finding('O-R2', ODES, f0.qualname, norm(n0),
                             'closure state `%s` is mutated (%s) by %s: besides the append-only segment '
                             'lists no state may survive a call, or results depend on the call history '
                             '(and on the precision of earlier calls)'
                             % (name, '/'.join(sorted(kinds)), '/'.join(sorted(users))), line=n0.lineno))
    if bname not in allowed:
        run.fail(Finding('O-R2', ODES, gs.qualname, bname, 'boundary list is not an append-only list',
                         line=gs.lineno))
    # lock-step: every block that appends to one appends to the other exactly once
    blocks = {}
    for name in allowed:
        for f, k, node in shared[name]:
            st = node
            while not isinstance(st, ast.stmt):
                st = st._parent
            blocks.setdefault(id(st._parent), {}).setdefault(name, []).append(node)
    dname = [n for n in allowed if n != bname]
    dname = dname[0] if dname else None
    repaired = False
    for b, d in sorted(blocks.items(), key=lambda kv: 0 if set(kv[1]) == {bname} else 1):
        if len(allowed) == 2 and set(d) == {bname} and len(d[bname]) == 1 and dname:
            # the repair idiom: a boundary missing after an interrupted extension is re-derived from its segment
            node = d[bname][0]
            st = node
            while not isinstance(st, ast.stmt):
                st = st._parent
            par = st._parent
            want_test = 'len(%s) <= len(%s)' % (bname, dname)
            want_val = '%s[len(%s) - 1][2]' % (dname, bname)
            if isinstance(par, ast.If) and norm(par.test) == want_test and norm(node.args[0]) == want_val:
                repaired = True
                run.ok('O-R2', 'a boundary missing after an interrupted extension is re-derived from its segment')
                continue
        if len(allowed) == 2 and (set(d) != allowed or any(len(v) != 1 for v in d.values())):
            node = list(d.values())[0][0]
            run.fail(Finding('O-R2', ODES, gs.qualname, norm(node),
                             'segment lists are not extended in lock-step', line=node.lineno))
        else:
            run.ok('O-R2', 'lists extended in lock-step')
            if len(allowed) == 2:
                # an interrupt can separate the two appends: the list the lookup bisects on (the gate) must be
                # extended LAST, and the half-finished state must be repaired on the next call
                nb, nd = d[bname][0], d[dname][0]
                if nd.lineno < nb.lineno and repaired:
                    run.ok('O-R2', 'segment stored before its boundary; torn state repaired on entry')
                elif nd.lineno >= nb.lineno:
                    run.fail(Finding('O-R2', ODES, gs.qualname, norm(nb),
                                     'the boundary is appended before its segment: an interrupt between the two appends '
                                     'leaves a boundary without data, and every later lookup beyond it raises IndexError',
                                     line=nb.lineno))
                else:
                    run.fail(Finding('O-R2', ODES, gs.qualname, norm(nd),
                                     'an interrupt between the two appends leaves a segment without its boundary and '
                                     'nothing re-aligns the lists on the next call', line=nd.lineno))

    # ---- O-R3 -------------------------------------------------------------------
    imports = {}
    for st in m.tree.body:
        if isinstance(st, ast.ImportFrom) and st.module == 'bisect':
            for a in st.names:
                imports[a.asname or a.name] = a.name
        if isinstance(st, ast.Import):
            for a in st.names:
                if a.name == 'bisect':
                    imports[(a.asname or a.name) + '.bisect'] = 'bisect'
                    imports[(a.asname or a.name) + '.bisect_right'] = 'bisect_right'
                    imports[(a.asname or a.name) + '.bisect_left'] = 'bisect_left'
    bis = [x for x in _walk_own(gs.node) if isinstance(x, ast.Call) and norm(x.func) in imports]
    if len(bis) != 1:
        raise AnalysisError('get_series: expected one bisection call')
    kind = imports[norm(bis[0].func)]
    xname = gs.params[0]
    if kind in ('bisect', 'bisect_right'):
        run.ok('O-R3', 'right-bisection: n >= 1 whenever x >= boundaries[0]')
    else:
        run.fail(Finding('O-R3', ODES, gs.qualname, norm(bis[0]),
                         '%s returns 0 for x == x0, so the lookup index n-1 is -1: the LAST cached '
                         'segment is used for the initial point once the cache has grown' % kind,
                         line=bis[0].lineno))
    # guard x < x0 raise precedes
    first_bound = None
    for x in _walk_own(od.node):
        if isinstance(x, ast.Assign) and norm(x.targets[0]) == bname and isinstance(x.value, ast.List) \
                and x.value.elts:
            first_bound = norm(x.value.elts[0])
    guard = None
    for st in gs.node.body:
        if isinstance(st, ast.If) and any(isinstance(y, ast.Raise) for y in st.body):
            tst = st.test
            if isinstance(tst, ast.Compare) and len(tst.ops) == 1 and \
                    ((isinstance(tst.ops[0], ast.Lt) and norm(tst.left) == xname and
                      norm(tst.comparators[0]) == first_bound) or
                     (isinstance(tst.ops[0], ast.Gt) and norm(tst.comparators[0]) == xname and
                      norm(tst.left) == first_bound)):
                guard = st
        if any(y is bis[0] for y in ast.walk(st)):
            break
    if guard is not None:
        run.ok('O-R3', 'x < %s is rejected before the lookup' % first_bound)
    else:
        run.fail(Finding('O-R3', ODES, gs.qualname, norm(bis[0]),
                         'points left of the initial point are not rejected before the lookup '
                         '(index -1 would silently use the last segment)', line=bis[0].lineno))
    # use: series_data[n-1] under n < len(boundaries)
    nvar = None
    st = bis[0]._parent
    if isinstance(st, ast.Assign) and isinstance(st.targets[0], ast.Name):
        nvar = st.targets[0].id
    uses = [x for x in _walk_own(gs.node) if isinstance(x, ast.Subscript) and
            isinstance(x.value, ast.Name) and x.value.id in shared and x.value.id != bname and
            nvar and any(isinstance(y, ast.Name) and y.id == nvar for y in ast.walk(x.slice))]
    if not uses:
        raise AnalysisError('get_series: indexed segment use vanished')
    for u in uses:
        okidx = norm(u.slice) == '%s - 1' % nvar
        g = [norm(c.test) for c in _anc_ifs(u, gs.node)]
        okguard = any(t in ('%s < len(%s)' % (nvar, bname), 'len(%s) > %s' % (bname, nvar)) for t in g)
        if okidx and okguard:
            run.ok('O-R3', 'segment %s used under %s < len(%s)' % (norm(u), nvar, bname))
        else:
            run.fail(Finding('O-R3', ODES, gs.qualname, norm(u),
                             'segment index is not n-1 under n < len(%s): index may leave the list or '
                             'select the neighbouring segment' % bname, line=u.lineno))

    # ---- O-R4 -------------------------------------------------------------------
    loops = [x for x in _walk_own(gs.node) if isinstance(x, ast.While)]
    if len(loops) != 1:
        raise AnalysisError('get_series: expected one extension loop')
    rets = [x for x in ast.walk(loops[0]) if isinstance(x, ast.Return)]
    good = False
    for r in rets:
        conds = _anc_ifs(r, loops[0])
        for c in conds:
            tst = c.test
            if isinstance(tst, ast.Compare) and len(tst.ops) == 1:
                l, op, rr = norm(tst.left), tst.ops[0], norm(tst.comparators[0])
                # the right side must be the boundary just appended
                app = [norm(n.args[0]) for f, k, n in shared.get(bname, [])]
                if (l == xname and isinstance(op, (ast.LtE, ast.Lt)) and rr in app) or \
                        (rr == xname and isinstance(op, (ast.GtE, ast.Gt)) and l in app):
                    good = True
    if good:
        run.ok('O-R4', 'extension stops when x <= the boundary just appended')
    else:
        run.fail(Finding('O-R4', ODES, gs.qualname, norm(rets[0]) if rets else 'while 1',
                         'extension loop does not return under x <= <new boundary>', line=loops[0].lineno))

    # ---- O-R5 -------------------------------------------------------------------
    ret = [x for x in _walk_own(tay.node) if isinstance(x, ast.Return)]
    if len(ret) != 1 or not isinstance(ret[0].value, ast.Tuple) or len(ret[0].value.elts) != 2:
        raise AnalysisError('ode_taylor: return shape changed')
    serv, bound = ret[0].value.elts
    rv = [y.id for y in ast.walk(bound) if isinstance(y, ast.Name) and y.id not in tay.params]
    if len(rv) != 1:
        raise AnalysisError('ode_taylor: boundary expression changed')
    rname = rv[0]
    folds = 0
    # snapshots of the radius: names that only ever hold None or a value the radius had AFTER the fold over the
    # components (every `name = radius` lies below the last loop over the components).  Since the radius only shrinks
    # after the fold, putting a snapshot back cannot exceed the folded value.
    fold_end = max([lp.end_lineno for lp in _walk_own(tay.node)
                    if isinstance(lp, ast.For) and norm(lp.iter) == norm(serv)] or [0])
    snap = {}
    for x in _walk_own(tay.node):
        if isinstance(x, ast.Assign):
            for tg in x.targets:
                if isinstance(tg, ast.Name) and tg.id != rname:
                    isnone = isinstance(x.value, ast.Constant) and x.value.value is None
                    issnap = isinstance(x.value, ast.Name) and x.value.id == rname and x.lineno > fold_end
                    snap[tg.id] = snap.get(tg.id, True) and (isnone or issnap)
        elif isinstance(x, (ast.AugAssign, ast.For, ast.comprehension, ast.With, ast.NamedExpr)):
            for tg in ast.walk(getattr(x, 'target', None) or ast.Pass()):
                if isinstance(tg, ast.Name):
                    snap[tg.id] = False
    snapshots = {k for k, v in snap.items() if v}
    for x in _walk_own(tay.node):
        tgt = None
        if isinstance(x, ast.Assign) and isinstance(x.targets[0], ast.Name) and x.targets[0].id == rname and \
                isinstance(x.value, ast.Name) and x.value.id in snapshots and x.lineno > fold_end:
            run.ok('O-R5', 'radius only put back to an earlier value taken after the fold: %s' % norm(x))
            continue
        if isinstance(x, ast.Assign) and isinstance(x.targets[0], ast.Name) and x.targets[0].id == rname:
            tgt, val = x, x.value
        elif isinstance(x, ast.AugAssign) and isinstance(x.target, ast.Name) and x.target.id == rname:
            # only shrinking updates after the fold
            if isinstance(x.op, ast.Div) and isinstance(x.value, ast.Constant) and x.value.value >= 1:
                run.ok('O-R5', 'radius only shrunk afterwards: %s' % norm(x))
            elif isinstance(x.op, ast.Mult) and isinstance(x.value, ast.Constant) and 0 < x.value.value <= 1:
                run.ok('O-R5', 'radius only shrunk afterwards: %s' % norm(x))
            else:
                run.fail(Finding('O-R5', ODES, tay.qualname, norm(x), 'radius is enlarged after the fold',
                                 line=x.lineno))
            continue
        if tgt is None:
            continue
        loop = None
        inner_ok = True
        p = x._parent
        while p is not tay.node:
            if isinstance(p, (ast.For, ast.While)):
                if isinstance(p, ast.For) and norm(p.iter) == norm(serv):
                    loop = p
                    break
                # an inner loop over a fixed tuple of coefficient indices is part of the fold
                if not (isinstance(p, ast.For) and isinstance(p.iter, (ast.Tuple, ast.List))):
                    inner_ok = False
                loop = loop or p
            p = p._parent
        if loop is None:
            continue        # initial value
        if not inner_ok:
            loop = None
        # inside a loop over the components: must fold with min(radius, ...)
        isfold = isinstance(val, ast.Call) and norm(val.func) == 'min' and \
            any(isinstance(a, ast.Name) and a.id == rname for a in val.args)
        over = loop is not None and isinstance(loop, ast.For) and norm(loop.iter) == norm(serv)
        if isfold and over:
            folds += 1
            run.ok('O-R5', 'radius = min(radius, ...) for every component of %s' % norm(serv))
        else:
            run.fail(Finding('O-R5', ODES, tay.qualname, norm(x),
                             'the step radius is overwritten inside the loop over components instead of '
                             'folded with min(): only the last component bounds the step, the others '
                             'lose accuracy', line=x.lineno))
    if not folds and not run.rules['O-R5']['failed']:
        run.fail(Finding('O-R5', ODES, tay.qualname, 'radius', 'no fold of the radius over the components',
                         line=tay.lineno))

    # ---- O-R8: the estimate looks at the last TWO coefficients -----------------------------------
    # A solution that is even or odd about the expansion point has every second Taylor coefficient equal to
    # zero; a radius taken from the last coefficient alone is then not bounded at all (step 0.5: tan x via
    # y' = 1 + y^2 was off by 1e-5, exp(-50 x^2) by a factor 2e7).
    idx = set()
    for x in _walk_own(tay.node):
        if isinstance(x, ast.Assign) and isinstance(x.targets[0], ast.Name) and x.targets[0].id == rname and \
                isinstance(x.value, ast.Call) and norm(x.value.func) == 'min':
            for sub in ast.walk(x.value):
                if isinstance(sub, ast.Subscript) and norm(sub.value) == 'ts':
                    sl = sub.slice
                    if isinstance(sl, ast.Name):
                        # index variable of an inner loop over a tuple
                        p = x._parent
                        while p is not tay.node:
                            if isinstance(p, ast.For) and norm(p.target) == sl.id and isinstance(p.iter, (ast.Tuple, ast.List)):
                                idx |= {norm(e) for e in p.iter.elts}
                            p = p._parent
                    else:
                        idx.add(norm(sl))
    degree = tay.params[-1]
    last = {degree, '-1'}
    prev = {'%s - 1' % degree, '-2'}
    if idx & last and idx & prev:
        run.ok('O-R8', 'radius estimated from the last two Taylor coefficients (%s)' % sorted(idx))
    else:
        run.fail(Finding('O-R8', ODES, tay.qualname, 'ts[%s]' % ', '.join(sorted(idx)),
                         'the step radius is estimated from the coefficient(s) %s only: for a solution that is even or '
                         'odd about the expansion point the last coefficient is exactly zero and the step is not '
                         'bounded (fixed step 0.5, errors up to O(1))' % sorted(idx), line=tay.lineno))
    # ---- O-R9: enough bits for the difference scheme ----------------------------------------------
    # the j-th forward difference of samples spaced h = 2^-tol_prec cancels j*tol_prec bits: the raised precision
    # must be at least n*tol_prec (+ the bits of the result)
    from ..formula import Evaluator
    sets = [x for x in _walk_own(tay.node) if isinstance(x, ast.Assign) and norm(x.targets[0]) == 'ctx.prec' and
            not isinstance(x.value, ast.Name)]
    if len(sets) != 1:
        raise AnalysisError('ode_taylor: raised precision not found')
    ev = Evaluator()
    bad = None
    for orig in (4, 10, 30, 53, 100, 333, 1000):
        for tp in (orig + 10, orig // 2 + 1, 2 * orig + 7, 5):
            for n in range(1, 41):
                got = ev.ev(sets[0].value, {'orig': orig, 'tol_prec': tp, 'n': n})
                if got < n * tp + orig and bad is None:
                    bad = (orig, tp, n, got)
    if bad:
        run.fail(Finding('O-R9', ODES, tay.qualname, norm(sets[0]),
                         'at prec %d, tol_prec %d, degree %d the difference scheme runs at %d bits but cancels %d: the '
                         'top Taylor coefficients are noise - or exactly 0, which disables the step estimate '
                         '(odefun(lambda x, y: -32*y, 0, 1)(0.5) returned -77386)'
                         % (bad[0], bad[1], bad[2], bad[3], bad[2] * bad[1]), line=sets[0].lineno))
    else:
        run.ok('O-R9', '%s carries n*tol_prec + prec bits on the whole grid' % norm(sets[0]))

    # ---- O-R6 -------------------------------------------------------------------
    for r in [x for x in _walk_own(interp.node) if isinstance(x, ast.Return)]:
        v = r.value
        if isinstance(v, ast.Name):
            defs = [x for x in _walk_own(interp.node) if isinstance(x, ast.Assign) and
                    norm(x.targets[0]) == v.id and x.lineno > t.end_lineno]
            if defs:
                v = defs[-1].value
        elts = [v.elt] if isinstance(v, ast.ListComp) else [v]
        after = t.end_lineno < r.lineno
        if all(isinstance(e, ast.UnaryOp) and isinstance(e.op, ast.UAdd) for e in elts) and after:
            run.ok('O-R6', norm(r))
        else:
            run.fail(Finding('O-R6', ODES, interp.qualname, norm(r),
                             'result is not re-rounded (+y) at the caller\'s precision after the '
                             'working precision is restored', line=r.lineno))


def _anc_ifs(node, stop):
    out = []
    p = getattr(node, '_parent', None)
    child = node
    while p is not None and p is not stop:
        if isinstance(p, ast.If) and child in p.body:
            out.append(p)
        child = p
        p = getattr(p, '_parent', None)
    return out


def check_tolerance_bits(run, ix):
    """O-R7.  The requested tolerance reaches the Taylor stepper as a number of BITS (`tol_prec`,
    used as 2**-tol_prec for the internal tolerance and the Euler step).  A bit count obtained from
    a logarithm must be a base-2 logarithm: `int(-log(tol, 2))`.  With the natural logarithm the
    internal tolerance becomes tol**0.69 and tight tolerances are silently missed.  (All six
    precision-from-logarithm conversions of the package use base 2.)"""
    run.rule('O-R7', floor=1, desc='tolerance converted to bits with a base-2 logarithm')
    od = ix.func(ODES, 'odefun')
    n = 0
    for x in _walk_own(od.node):
        if isinstance(x, ast.Assign) and len(x.targets) == 1 and norm(x.targets[0]).endswith('prec'):
            logs = [c for c in ast.walk(x.value) if isinstance(c, ast.Call) and norm(c.func).split('.')[-1] == 'log']
            for c in logs:
                n += 1
                base2 = len(c.args) == 2 and isinstance(c.args[1], ast.Constant) and c.args[1].value == 2
                # ln(x)/ln(2) or ln(x)*1.4427 are base 2 as well
                if len(c.args) == 1 and isinstance(c.args[0], ast.Constant) and c.args[0].value == 2:
                    continue            # the constant ln(2) of a change of base
                par = getattr(c, '_parent', None)
                while isinstance(par, ast.UnaryOp):
                    par = getattr(par, '_parent', None)
                conv = isinstance(par, ast.BinOp) and (
                    (isinstance(par.op, ast.Div) and 'log(2)' in norm(par.right)) or
                    (isinstance(par.op, ast.Mult) and any(isinstance(k, ast.Constant) and isinstance(k.value, float)
                                                           and abs(k.value - 1.4426950408889634) < 1e-3
                                                           for k in (par.left, par.right))))
                if base2 or conv:
                    run.ok('O-R7', '%s: %s' % (norm(x.targets[0]), norm(c)))
                else:
                    run.fail(Finding('O-R7', ODES, od.qualname, norm(x),
                                     '`%s` is a number of bits but is taken from `%s`, which is not a base-2 '
                                     'logarithm: the internal tolerance becomes tol**0.69 instead of tol, so the '
                                     'requested accuracy is missed for tight tolerances' % (norm(x.targets[0]), norm(c)),
                                     line=x.lineno))
    if n == 0:
        raise AnalysisError('odefun: conversion of the tolerance to bits not found')


# --------------------------------------------------------------------------- O-R10 / O-R11
def check_radius_estimate(run, ix):
    """O-R10 / O-R11 (the error bound).  ode_taylor accepts a step when tol / |c_k| ** (1/k) allows it for the trailing
    coefficients c_k it looks at.  O-R10: looking at orders n and n-1 only says nothing about a series whose
    coefficients vanish at both (a series in powers of x**m, a polynomial solution of degree > n): the maximal step is
    accepted and the first omitted term is the error.  O-R11: the coefficients are compared with the ABSOLUTE tolerance
    only, so while |y| is far below tol every step is maximal, and the truncation error made there is amplified with the
    solution (y' = 20 y, y(0) = 1e-30).  Both are genuine on the pinned tree (inputs in known_findings.json) and need a
    redesign of the step control rather than a patch."""
    run.rule('O-R10', floor=1, desc='the step radius is estimated from enough trailing coefficients')
    run.rule('O-R11', floor=1, desc='the step test scales with the size of the solution')
    tay = ix.func(ODES, 'ode_taylor')
    est = [x for x in _walk_own(tay.node) if isinstance(x, ast.Call) and norm(x.func).endswith('nthroot')
           and 'tol' in norm(x)]
    if not est:
        raise AnalysisError('ode_taylor: radius estimate not found')
    e = est[0]
    loop = e
    while loop is not None and not isinstance(loop, ast.For):
        loop = getattr(loop, '_parent', None)
    window = None
    if isinstance(loop, ast.For) and isinstance(loop.iter, (ast.Tuple, ast.List)):
        window = len(loop.iter.elts)
    # an a-posteriori test of the differential equation at the end of the step makes a short window sufficient: a loop
    # that evaluates the right-hand side at x0 + radius, compares the residual of the Taylor polynomial with the
    # tolerance and shortens the radius otherwise
    residual_test = None
    for lp in _walk_own(tay.node):
        if isinstance(lp, (ast.For, ast.While)) and lp is not loop:
            calls_f = any(isinstance(c, ast.Call) and norm(c.func) == tay.params[1] and c.args and 'radius' in norm(c.args[0])
                          for c in ast.walk(lp))
            shrinks = any(isinstance(a, ast.AugAssign) and norm(a.target) == 'radius' and isinstance(a.op, ast.Div)
                          for a in ast.walk(lp))
            exits = any(isinstance(i_, ast.If) and 'tol' in norm(i_.test) and any(isinstance(b_, ast.Break) for b_ in i_.body)
                        for i_ in ast.walk(lp))
            if calls_f and shrinks and exits and lp.lineno > e.lineno:
                residual_test = lp
    if residual_test is not None:
        run.ok('O-R10', 'the step is checked against the differential equation at its far end (line %d) and halved until '
               'the Taylor polynomial satisfies it' % residual_test.lineno)
    elif window is not None and window < 3:
        run.fail(Finding('O-R10', ODES, 'ode_taylor', 'for %s in %s' % (norm(loop.target), norm(loop.iter)),
                         'the radius is estimated from the coefficients of order %s only: when both vanish although later '
                         'ones do not (y\' = -9 x**8 y**2 from x0 = 0: a series in x**9; y\' = 30 x**29: a polynomial of '
                         'degree 30 > n) the step 0.5 is accepted and the first omitted term is the error (6.5e4 times the '
                         'tolerance at x = 0.5)' % norm(loop.iter), line=loop.lineno))
    else:
        run.ok('O-R10', 'radius estimated from %s' % (norm(loop.iter) if isinstance(loop, ast.For) else 'a computed window'))
    quotient = [q for q in ast.walk(e) if isinstance(q, ast.BinOp) and isinstance(q.op, ast.Div) and norm(q.left) == 'tol']
    scaled = any('ts[0]' in norm(x) or 'max(' in norm(x) for x in ast.walk(e.args[0])) if e.args else False
    if quotient and not scaled:
        run.fail(Finding('O-R11', ODES, 'ode_taylor', norm(quotient[0]),
                         'the trailing coefficient is compared with the absolute tolerance whatever the size of the '
                         'solution: while |y| << tol every coefficient is below tol and the maximal step is taken; for '
                         'y\' = 20 y, y(0) = 1e-30 the degree-n polynomial is used at a*h = 10 and y(4) = 55404.9 instead of '
                         '55406.2 (relative error 2e-5)', line=quotient[0].lineno))
    else:
        run.ok('O-R11', 'the step test is scaled by the size of the solution')


# --------------------------------------------------------------------------- O-R12 / O-R13 / O-R14
def check_first_segment_and_workprec(run, ix):
    """O-R12 / O-R13 / O-R14 (third C34 hunt; repairs 3084d25, ae0610f, de71400).

    O-R12  every call of the Taylor stepper made by odefun itself (the first segment) runs at the same frozen working
           precision as the extensions made by get_series: inside a try block that first assigns `ctx.prec = <workprec>`
           and whose finally puts the precision back.  At the caller's precision the boundary x0 + radius is rounded there,
           and with an initial point of more bits than that it lands below x0 or several radii away.
    O-R13  the frozen working precision covers the tolerance: evaluated over a grid of (prec, tol_prec) it is at least
           tol_prec, otherwise no evaluation, at whatever precision, can deliver a tolerance below 2^-(prec+40).
    O-R14  the loop that halves the step until the residual of the differential equation passes has an exit that does
           not compare the residual with the absolute tolerance.  The Taylor coefficients are differences with step h
           and carry an error of that relative order which no shorter step removes; with the absolute test as the only
           exit a large solution or a large derivative has the step halved until the loop bound (2^-60 of the estimate),
           and no value is returned in any reasonable time."""
    from ..formula import Evaluator
    run.rule('O-R12', floor=1, desc='the first segment is built at the frozen working precision')
    run.rule('O-R13', floor=1, desc='the working precision covers the requested tolerance')
    run.rule('O-R14', floor=1, desc='the step-halving loop ends when the residual is the error of the coefficients')
    od = ix.func(ODES, 'odefun')
    interp = ix.func(ODES, 'odefun.interpolant')
    tay = ix.func(ODES, 'ode_taylor')
    # the frozen precision name: what interpolant assigns to ctx.prec inside its try
    wp = None
    for t in _walk_own(interp.node):
        if isinstance(t, ast.Try):
            for st in t.body:
                if isinstance(st, ast.Assign) and norm(st.targets[0]) == 'ctx.prec' and isinstance(st.value, ast.Name):
                    wp = st.value.id
    if wp is None:
        # O-R1 reports an interpolant without a frozen precision; nothing to compare the first segment with
        for r in ('O-R12', 'O-R13', 'O-R14'):
            run.ok(r, 'not decided: the interpolant has no frozen precision (see O-R1)')
        return
    # ---- O-R12
    first = [c for c in _walk_own(od.node) if isinstance(c, ast.Call) and norm(c.func) == tay.name]
    if not first:
        raise AnalysisError('odefun: first call of %s not found' % tay.name)
    for c in first:
        t = c
        region = None
        while t is not od.node:
            par = t._parent
            if isinstance(par, ast.Try) and any(t is b or any(t is y for y in ast.walk(b)) for b in par.body):
                region = par
                break
            t = par
        ok = False
        if region is not None:
            sets = [i for i, st in enumerate(region.body) if isinstance(st, ast.Assign) and
                    norm(st.targets[0]) == 'ctx.prec' and isinstance(st.value, ast.Name) and st.value.id == wp]
            callidx = [i for i, st in enumerate(region.body) if any(y is c for y in ast.walk(st))]
            restored = any(isinstance(st, ast.Assign) and norm(st.targets[0]) == 'ctx.prec' for st in region.finalbody)
            ok = bool(sets) and bool(callidx) and sets[0] < callidx[0] and restored
        if ok:
            run.ok('O-R12', '%s runs under ctx.prec = %s, restored in finally' % (norm(c, 50), wp))
        else:
            run.fail(Finding('O-R12', ODES, od.qualname, norm(c),
                             'the first Taylor segment is built at the caller\'s precision while every later one is built '
                             'at %s: its boundary x0 + radius is rounded to the caller\'s precision, and with an initial '
                             'point of more bits than that (x0 = 2**60 + 100 at 53 bits) it lands below x0, so that every '
                             'value is continued from the first polynomial far outside its radius (f(x0) = 3.2e-19 '
                             'instead of 1)' % wp, line=c.lineno))
    # ---- O-R13
    defs = [x for x in _walk_own(od.node) if isinstance(x, ast.Assign) and len(x.targets) == 1 and
            isinstance(x.targets[0], ast.Name) and x.targets[0].id == wp]
    if len(defs) != 1:
        raise AnalysisError('odefun: definition of %s not unique' % wp)
    class _Sub(ast.NodeTransformer):
        def visit_Attribute(self, n):
            if norm(n) == 'ctx.prec':
                return ast.copy_location(ast.Name(id='prec__', ctx=ast.Load()), n)
            return self.generic_visit(n)
    import copy as _copy
    expr = _Sub().visit(_copy.deepcopy(defs[0].value))
    ev = Evaluator()
    bad = None
    for prec in (4, 24, 53, 100, 1000):
        for tp in (5, prec // 2, prec + 10, 2 * prec + 10, 10 * prec):
            got = ev.ev(expr, {'prec__': prec, 'tol_prec': tp})
            if (got < tp or got < prec) and bad is None:
                bad = (prec, tp, got)
    if bad:
        run.fail(Finding('O-R13', ODES, od.qualname, norm(defs[0]),
                         'created at %d bits with a tolerance of %d bits the solver works with %d bits at every later '
                         'evaluation, whatever the precision then: the tolerance cannot be met (odefun(F, 0, 1, '
                         'tol=1e-40) created at 53 bits and evaluated at 200 bits was off by 7e-29)' % bad,
                         line=defs[0].lineno))
    else:
        run.ok('O-R13', '%s >= max(prec, tol_prec) on the whole grid' % norm(defs[0]))
    # ---- O-R14
    loops = []
    for lp in _walk_own(tay.node):
        if isinstance(lp, (ast.For, ast.While)):
            calls_f = any(isinstance(c, ast.Call) and norm(c.func) == tay.params[1] and c.args and 'radius' in norm(c.args[0])
                          for c in ast.walk(lp))
            shrinks = any(isinstance(a, ast.AugAssign) and norm(a.target) == 'radius' and isinstance(a.op, ast.Div)
                          for a in ast.walk(lp))
            if calls_f and shrinks:
                loops.append(lp)
    if not loops:
        # O-R10 reports the missing residual test
        run.ok('O-R14', 'no step-halving loop (see O-R10)')
        return
    for lp in loops:
        guards = []
        for i_ in ast.walk(lp):
            if isinstance(i_, ast.If):
                # a break anywhere below this test, with no nearer test above it
                def _has_break(body):
                    for st in body:
                        if isinstance(st, ast.Break):
                            return True
                        if isinstance(st, ast.If) and (_has_break(st.body) or _has_break(st.orelse)):
                            return True
                    return False
                if _has_break(i_.body) or _has_break(i_.orelse):
                    guards.append(i_)
        relative = [g for g in guards if 'tol' not in norm(g.test)]
        if relative:
            run.ok('O-R14', 'the halving loop at line %d also ends on `%s`' % (lp.lineno, norm(relative[0].test, 60)))
        else:
            run.fail(Finding('O-R14', ODES, tay.qualname, 'for/while: ' + (norm(guards[0].test) if guards else 'no exit'),
                             'the step is halved until the residual of the Taylor polynomial is below the ABSOLUTE '
                             'tolerance and by nothing else: the coefficients carry a relative error of the order of the '
                             'difference step, so for a large solution or derivative the test cannot pass and the step '
                             'shrinks to the loop bound (odefun(lambda x, y: 2*x*y, 0, 1)(5) did not return within 325000 '
                             'evaluations of F)', line=lp.lineno))
