"""C40 -- pickling and copying preserve values exactly.

Exactness of a round trip is a statement about the PAIRING of writer and reader,
which is visible in the source:
  P-R1  to_pickable / from_pickable move each of the four fields to the same
        position unchanged; only the mantissa is transcoded, with the same base
        on both sides (hex <-> MPZ(., 16)); nothing is recomputed on load
  P-R2  every class with __getstate__ has __setstate__; the state is
        to_pickable of a slot and __setstate__ stores from_pickable of the same
        component back into the SAME slot, directly (no constructor, no
        rounding)
  P-R3  the number classes define no other pickling/copy hook that rebuilds the
        value through a constructor (which rounds to the current precision)
  P-R4  every value class of the property that is created dynamically with
        type(name, bases, {}) is registered under that name in the module that
        created it (pickle finds classes by module + name)
  P-R5  matrix.copy returns a new matrix of the same context class and shape
        whose element storage is fresh -- or, if storage is shared, every
        in-place mutation of the storage in the class is preceded by a detach;
        __copy__ is that method
"""
import ast

from ..index import AnalysisError, norm
from ..prec_effect import _walk_own
from ..report import Finding

LIBMPF = 'mpmath/libmp/libmpf.py'
CTXPY = 'mpmath/ctx_mp_python.py'
MAT = 'mpmath/matrices/matrices.py'
INIT = 'mpmath/__init__.py'
HOOKS = ('__reduce__', '__reduce_ex__', '__getnewargs__', '__getnewargs_ex__', '__copy__',
         '__deepcopy__')
INPLACE = ('pop', 'popitem', 'clear', 'update', 'setdefault', '__setitem__', '__delitem__')


def unpack4(f):
    """names of the 4-unpack of the parameter"""
    for st in f.node.body:
        if isinstance(st, ast.Assign) and isinstance(st.targets[0], ast.Tuple) and \
                len(st.targets[0].elts) == 4 and isinstance(st.value, ast.Name) and \
                st.value.id == f.params[0]:
            return [norm(e) for e in st.targets[0].elts]
    return None


def check_codec(run, ix):
    m = ix.module(LIBMPF)
    writers = [f for f in m.funcs.values() if f.qualname == 'to_pickable']
    # the index keeps the last definition; collect all by walking the tree
    writers = [n for n in ast.walk(m.tree) if isinstance(n, ast.FunctionDef) and n.name == 'to_pickable']
    readers = [n for n in ast.walk(m.tree) if isinstance(n, ast.FunctionDef) and n.name == 'from_pickable']
    if not writers or len(readers) != 1:
        raise AnalysisError('to_pickable/from_pickable vanished')

    def fields(fn):
        p = fn.args.args[0].arg
        names = None
        for st in fn.body:
            if isinstance(st, ast.Assign) and isinstance(st.targets[0], ast.Tuple) and \
                    len(st.targets[0].elts) == 4 and norm(st.value) == p:
                names = [norm(e) for e in st.targets[0].elts]
        rets = [x for x in ast.walk(fn) if isinstance(x, ast.Return)]
        if names is None or len(rets) != 1 or not isinstance(rets[0].value, ast.Tuple) or \
                len(rets[0].value.elts) != 4:
            return None, None, rets[0] if rets else fn
        # resolve single-assignment temporaries
        defs = {}
        for st in fn.body:
            if isinstance(st, ast.Assign) and isinstance(st.targets[0], ast.Name):
                defs.setdefault(st.targets[0].id, []).append(st.value)
        return names, list(rets[0].value.elts), rets[0]

    bases = set()
    for w in writers:
        names, elts, ret = fields(w)
        if names is None:
            run.fail(Finding('P-R1', LIBMPF, 'to_pickable', norm(ret, 80),
                             'writer is not a field-by-field image of the 4-tuple', line=w.lineno))
            continue
        for i in (0, 2, 3):
            if norm(elts[i]) == names[i]:
                run.ok('P-R1', 'to_pickable field %d (%s) written unchanged' % (i, names[i]))
            else:
                run.fail(Finding('P-R1', LIBMPF, 'to_pickable', norm(ret),
                                 'field %d of the pickled state is %s, not the value\'s own %s'
                                 % (i, norm(elts[i]), names[i]), line=ret.lineno))
        e = elts[1]
        core = e.value if isinstance(e, ast.Subscript) else e
        if isinstance(core, ast.Call) and norm(core.func) == 'hex' and norm(core.args[0]) == names[1] and \
                (not isinstance(e, ast.Subscript) or norm(e.slice) == '2:'):
            bases.add(16)
            run.ok('P-R1', 'mantissa written as hex digits')
        else:
            run.fail(Finding('P-R1', LIBMPF, 'to_pickable', norm(ret),
                             'mantissa is not written as hex(man) / hex(man)[2:]: %s' % norm(e),
                             line=ret.lineno))
    r = readers[0]
    names, elts, ret = fields(r)
    if names is None:
        run.fail(Finding('P-R1', LIBMPF, 'from_pickable', norm(ret, 80),
                         'reader is not a field-by-field image of the state', line=r.lineno))
        return
    defs = {}
    for st in r.body:
        if isinstance(st, ast.Assign) and isinstance(st.targets[0], ast.Name):
            defs.setdefault(st.targets[0].id, []).append(st.value)
    for i in (0, 2, 3):
        if norm(elts[i]) == names[i] and names[i] not in defs:
            run.ok('P-R1', 'from_pickable field %d (%s) read unchanged' % (i, names[i]))
        else:
            run.fail(Finding('P-R1', LIBMPF, 'from_pickable', norm(ret),
                             'field %d is rebuilt on load (%s) instead of taken from the state: special '
                             'values and their comparisons rely on the stored field'
                             % (i, norm(elts[i]) if names[i] not in defs else norm(defs[names[i]][0])),
                             line=ret.lineno))
    e = elts[1]
    if isinstance(e, ast.Name) and e.id in defs and len(defs[e.id]) == 1:
        e = defs[e.id][0]
    if isinstance(e, ast.Call) and norm(e.func) == 'MPZ' and len(e.args) == 2 and \
            norm(e.args[0]) == names[1] and isinstance(e.args[1], ast.Constant) and e.args[1].value in bases:
        run.ok('P-R1', 'mantissa read with MPZ(., 16): same base as the writer')
    else:
        run.fail(Finding('P-R1', LIBMPF, 'from_pickable', norm(ret),
                         'mantissa is not read back as MPZ(man, 16): %s' % norm(e), line=ret.lineno))


def slot_of(expr):
    """'self._mpc_[0]' -> ('_mpc_', 0); 'self._mpf_' -> ('_mpf_', None)"""
    if isinstance(expr, ast.Subscript) and isinstance(expr.slice, ast.Constant):
        s = slot_of(expr.value)
        if s and s[1] is None:
            return (s[0], expr.slice.value)
        return None
    if isinstance(expr, ast.Attribute) and isinstance(expr.value, ast.Name):
        return (expr.attr, None)
    return None


def check_state_pairs(run, ix):
    n = 0
    for rel, m in sorted(ix.modules.items()):
        for c in m.classes.values():
            has_g, has_s = '__getstate__' in c.methods, '__setstate__' in c.methods
            if not (has_g or has_s):
                continue
            n += 1
            if has_g != has_s:
                f = c.methods.get('__getstate__') or c.methods.get('__setstate__')
                run.fail(Finding('P-R2', rel, c.qualname, 'def %s' % f.node.name,
                                 'class defines only one of __getstate__/__setstate__', line=f.lineno))
                continue
            g, s = c.methods['__getstate__'], c.methods['__setstate__']
            gr = [x for x in _walk_own(g.node) if isinstance(x, ast.Return)]
            if len(gr) != 1:
                run.fail(Finding('P-R2', rel, g.qualname, 'return', 'no single return', line=g.lineno))
                continue
            parts = gr[0].value.elts if isinstance(gr[0].value, ast.Tuple) else [gr[0].value]
            written = []
            for p in parts:
                if isinstance(p, ast.Call) and norm(p.func) == 'to_pickable' and len(p.args) == 1 and \
                        slot_of(p.args[0]):
                    written.append(slot_of(p.args[0]))
                else:
                    written.append(None)
            if None in written:
                run.fail(Finding('P-R2', rel, g.qualname, norm(gr[0]),
                                 'state is not to_pickable(<slot>) of the raw value', line=gr[0].lineno))
                continue
            # reader: a single store  self.<slot> = from_pickable(val) | (from_pickable(val[0]), ...)
            sval = s.params[1]
            stores = [x for x in _walk_own(s.node) if isinstance(x, ast.Assign)]
            if len(stores) != 1 or not slot_of(stores[0].targets[0]):
                run.fail(Finding('P-R2', rel, s.qualname, 'def __setstate__',
                                 'state is not stored directly into the value slot', line=s.lineno))
                continue
            tslot = slot_of(stores[0].targets[0])
            rparts = stores[0].value.elts if isinstance(stores[0].value, ast.Tuple) else [stores[0].value]
            read = []
            for i, p in enumerate(rparts):
                if isinstance(p, ast.Call) and norm(p.func) == 'from_pickable' and len(p.args) == 1:
                    a = p.args[0]
                    if isinstance(a, ast.Name) and a.id == sval:
                        read.append((tslot[0], None))
                    elif isinstance(a, ast.Subscript) and norm(a.value) == sval and \
                            isinstance(a.slice, ast.Constant):
                        read.append((tslot[0], a.slice.value) if a.slice.value == i else ('?', a.slice.value))
                    else:
                        read.append(None)
                else:
                    read.append(None)
            if read == written and tslot[1] is None:
                run.ok('P-R2', '%s: %s <-> %s' % (c.qualname, norm(gr[0], 60), norm(stores[0], 70)))
            else:
                run.fail(Finding('P-R2', rel, s.qualname, norm(stores[0]),
                                 '__setstate__ does not put each pickled component back into the slot '
                                 'position it was taken from, unrounded (written %s, read %s)'
                                 % (written, read), line=stores[0].lineno))
    return n


def check_hooks(run, ix):
    m = ix.module(CTXPY)
    for cname in ('mpnumeric', '_mpf', '_mpc', '_constant'):
        c = m.classes.get(cname)
        if c is None:
            raise AnalysisError('class %s vanished' % cname)
        bad = False
        for h in HOOKS:
            f = c.methods.get(h)
            if f is None and h not in c.assigns:
                continue
            if f is None:
                run.fail(Finding('P-R3', CTXPY, cname, h, 'copy/pickle hook assigned in the class body '
                                 'is not classified', line=c.node.lineno))
                bad = True
                continue
            rets = [x for x in _walk_own(f.node) if isinstance(x, ast.Return)]
            exact = all(isinstance(r.value, ast.Name) and r.value.id == f.params[0] for r in rets) and rets
            if not exact and cname == '_constant' and h == '__reduce__':
                why = constant_reduce_problem(ix, m, f, rets)
                if why is None:
                    run.ok('P-R3', '_constant.__reduce__ names the registered object itself (lookup by name, no '
                           'constructor)')
                    continue
                bad = True
                run.fail(Finding('P-R3', CTXPY, f.qualname, norm(rets[0]) if rets else 'def %s' % h, why,
                                 line=f.lineno))
                continue
            if exact:
                run.ok('P-R3', '%s.%s returns the (immutable) object itself' % (cname, h))
            else:
                bad = True
                run.fail(Finding('P-R3', CTXPY, f.qualname, norm(rets[0]) if rets else 'def %s' % h,
                                 'the value is rebuilt through a constructor / custom hook instead of the '
                                 'exact __getstate__/__setstate__ pair: the constructor rounds to the '
                                 'current working precision, so values carrying more bits change',
                                 line=f.lineno))
        if not bad:
            run.ok('P-R3', '%s: no pickling/copy hook besides the state pair' % cname)


def constant_reduce_problem(ix, m, f, rets):
    """A lazy constant holds no value of its own (it is evaluated at the precision of each use), so it is pickled as
    a REFERENCE: __reduce__ may return (lookup, (self.name,)) where `lookup` is a module-level function returning
    REGISTRY[name] -- the object itself, nothing is constructed or rounded -- provided (a) it refuses (raises) unless
    REGISTRY.get(self.name) is self, so that an object that would not come back as itself is never written, and
    (b) the package initialisation fills REGISTRY with the global context's constants under their .name."""
    me = f.params[0]
    if len(rets) != 1 or not (isinstance(rets[0].value, ast.Tuple) and len(rets[0].value.elts) == 2):
        return 'the hook does not return (lookup function, (name,))'
    fn, args = rets[0].value.elts
    if not (isinstance(fn, ast.Name) and isinstance(args, ast.Tuple) and len(args.elts) == 1 and
            norm(args.elts[0]) == '%s.name' % me):
        return 'the hook does not name the object by its .name'
    look = m.funcs.get(fn.id)
    if look is None:
        return 'the lookup function %s is not a module-level function' % fn.id
    lrets = [x for x in _walk_own(look.node) if isinstance(x, ast.Return)]
    if not (len(lrets) == 1 and isinstance(lrets[0].value, ast.Subscript) and
            isinstance(lrets[0].value.value, ast.Name) and norm(lrets[0].value.slice) == look.params[0]):
        return 'the lookup function builds a value instead of returning REGISTRY[name]'
    reg = lrets[0].value.value.id
    guard = [x for x in _walk_own(f.node) if isinstance(x, ast.If) and
             any(isinstance(b, ast.Raise) for b in ast.walk(x)) and
             norm(x.test).replace(' ', '') in ('%s.get(%s.name)isnot%s' % (reg, me, me),
                                               'not%s.get(%s.name)is%s' % (reg, me, me))]
    if not guard:
        return 'an object that is not the registered one under its name is written all the same: it would come ' \
               'back as a different object'
    init = ix.module(INIT)
    filled = [x for x in ast.walk(init.tree) if isinstance(x, ast.Call) and isinstance(x.func, ast.Attribute) and
              x.func.attr == 'update' and norm(x.func.value).endswith('.' + reg)]
    if not filled or '.name' not in norm(filled[0], 300):
        return 'the registry %s is not filled by the package initialisation' % reg
    return None


def check_constant_entries(run, ix):
    """P-R6.  "Matrices of mixed entries": convert() keeps a lazy constant (pi, e, eps, ...) as a matrix entry, so
    copying or pickling such a matrix copies or pickles the constant object.  Its class is created per context
    with type() and its __new__ needs arguments, so the default protocol fails: the class must define __copy__ and
    __deepcopy__ (returning the immutable object itself) and a __reduce__ (checked by P-R3)."""
    c = ix.module(CTXPY).classes.get('_constant')
    if c is None:
        raise AnalysisError('class _constant vanished')
    for h in ('__copy__', '__deepcopy__', '__reduce__'):
        if c.methods.get(h) is not None:
            run.ok('P-R6', '_constant defines %s' % h)
        else:
            run.fail(Finding('P-R6', CTXPY, '_constant', 'def %s' % h, 'the class of the lazy constants has no %s: '
                             'copy.copy / copy.deepcopy / pickle of a constant, and of a matrix holding one '
                             '(matrix([[pi, 1], [0, 2]])), fail' % h, line=c.node.lineno))


def check_dynamic_classes(run, ix):
    """value classes created with type(name, ...) are registered by name"""
    want = {'mpf': (CTXPY, 'PythonMPContext.__init__'), 'mpc': (CTXPY, 'PythonMPContext.__init__'),
            'matrix': (MAT, 'MatrixMethods.__init__')}
    created = {}
    for attr, (rel, qn) in want.items():
        f = ix.func(rel, qn)
        for x in _walk_own(f.node):
            if isinstance(x, ast.Assign) and isinstance(x.targets[0], ast.Attribute) and \
                    x.targets[0].attr == attr and isinstance(x.value, ast.Call) and \
                    norm(x.value.func) == 'type' and len(x.value.args) == 3 and \
                    isinstance(x.value.args[0], ast.Constant):
                created[attr] = (rel, x.value.args[0].value, x)
    top_classes = {}
    for attr, (rel, qn) in want.items():
        if attr not in created:
            # a normal module-level class of that name is fine as well
            m = ix.module(rel)
            if attr in m.classes:
                run.ok('P-R4', '%s is a module-level class' % attr)
                continue
            raise AnalysisError('creation of value class %s not found' % attr)
    init = ix.module(INIT)
    # module aliases in __init__: name -> module relpath
    alias = {}
    for st in init.tree.body:
        if isinstance(st, ast.ImportFrom):
            for a in st.names:
                base = (st.module or '')
                alias[a.asname or a.name] = ('mpmath/' + (base + '/' if base else '').replace('.', '/')
                                             + a.name.replace('.', '/')).replace('//', '/')
    ctxmp = ix.module('mpmath/ctx_mp.py')
    for n in ast.walk(ctxmp.tree):
        if isinstance(n, ast.ImportFrom) and n.level == 1 and not n.module:
            for a in n.names:
                if a.asname:
                    alias['%s.%s' % ('_ctx_mp', a.asname)] = 'mpmath/' + a.name
    regs = {}
    for st in init.tree.body:
        if isinstance(st, ast.Assign) and isinstance(st.targets[0], ast.Attribute) and \
                isinstance(st.value, ast.Attribute) and norm(st.value.value) == 'mp':
            modexpr = norm(st.targets[0].value)
            modrel = alias.get(modexpr)
            if modrel:
                regs[(modrel + '.py', st.targets[0].attr)] = (st.value.attr, st)
    for attr, (rel, cname, node) in sorted(created.items()):
        r = regs.get((rel, cname))
        if r and r[0] == attr:
            run.ok('P-R4', 'mp.%s (type(%r) in %s) is registered as %s.%s' % (attr, cname, rel, rel, cname))
        else:
            run.fail(Finding('P-R4', rel, want[attr][1], norm(node),
                             'class %r is created dynamically and not registered under that name in its '
                             'defining module: pickle cannot find it (PicklingError on dumps) -- found '
                             'registration: %s' % (cname, r[0] if r else None), line=node.lineno))


def check_context_rebuild(run, ix):
    """P-R7 (third C40 hunt; repairs 769f5ee, cc67087).  The classes of numbers and matrices are created per context with
    type(name, (base,), {}); pickle finds a class by module and name, and only the classes of the global mp context are
    registered under their names (P-R4).  The matrix class is created by code that the fp and iv contexts run too, and
    the interval classes belong to iv alone: their instances can be pickled only if the BASE class reduces them to a
    module-level function that rebuilds the value through its global context.  Decided: `_matrix` defines
    `__reduce_ex__`, `ivmpf` and `ivmpc` define `__reduce__`, each returning (directly or through one module-level
    helper) a tuple whose first element is a function defined at module level; `ivmpf_constant` defines `__copy__` and
    `__deepcopy__` returning the object itself (its constructor needs an argument: the default copy raises)."""
    IV = 'mpmath/ctx_iv.py'

    def rebuilds(m, fn, depth=0):
        """a Return of fn yields (module-level function, ...) -- directly or through one helper"""
        for r in _walk_own(fn.node):
            if not (isinstance(r, ast.Return) and r.value is not None):
                continue
            v = r.value
            if isinstance(v, ast.Tuple) and v.elts and isinstance(v.elts[0], ast.Name) and \
                    v.elts[0].id in m.funcs and m.funcs[v.elts[0].id].parent is None:
                return v.elts[0].id
            if isinstance(v, ast.Call) and isinstance(v.func, ast.Name) and v.func.id in m.funcs and depth < 1:
                got = rebuilds(m, m.funcs[v.func.id], depth + 1)
                if got:
                    return got
        return None
    for rel, cname, hooks in ((MAT, '_matrix', ('__reduce_ex__', '__reduce__')),
                              (IV, 'ivmpf', ('__reduce__', '__reduce_ex__')),
                              (IV, 'ivmpc', ('__reduce__', '__reduce_ex__'))):
        m = ix.module(rel)
        ci = m.classes.get(cname)
        if ci is None:
            raise AnalysisError('class %s vanished' % cname)
        fn = None
        for h in hooks:
            fn = fn or ci.methods.get(h)
        target = rebuilds(m, fn) if fn is not None else None
        if target:
            run.ok('P-R7', '%s.%s rebuilds through the module-level function %s' % (cname, fn.name, target))
        else:
            run.fail(Finding('P-R7', rel, cname, 'class %s' % cname,
                             'instances of the per-context class made from %s are pickled by the default protocol, which '
                             'looks the class up by name and finds the base class (or the class of the mp context): '
                             'pickle.dumps(%s) raises PicklingError under every protocol'
                             % (cname, 'fp.matrix([[1.5, 2]])' if cname == '_matrix' else 'iv.mpf([1, 2])'),
                             line=ci.node.lineno))
    m = ix.module(IV)
    ci = m.classes.get('ivmpf_constant')
    if ci is None:
        raise AnalysisError('class ivmpf_constant vanished')
    for h in ('__copy__', '__deepcopy__'):
        fn = ci.methods.get(h)
        me = fn.params[0] if fn is not None and fn.params else None
        rets = [r for r in _walk_own(fn.node) if isinstance(r, ast.Return)] if fn is not None else []
        if rets and all(isinstance(r.value, ast.Name) and r.value.id == me for r in rets):
            run.ok('P-R7', 'ivmpf_constant.%s returns the constant itself' % h)
        else:
            run.fail(Finding('P-R7', IV, 'ivmpf_constant', 'def %s' % h,
                             'an interval constant has no %s: the default copy calls the class without its argument and '
                             'copy.copy(iv.pi) raises TypeError (so does deepcopy of any structure holding one)' % h,
                             line=ci.node.lineno))


def check_matrix_copy(run, ix):
    m = ix.module(MAT)
    c = m.classes['_matrix']
    f = c.methods.get('copy')
    if f is None:
        raise AnalysisError('_matrix.copy vanished')
    # __copy__ is copy
    cp = c.assigns.get('__copy__')
    if cp is not None and norm(cp) == 'copy':
        run.ok('P-R5', '__copy__ = copy')
    elif '__copy__' in c.methods:
        g = c.methods['__copy__']
        calls = [norm(x.func) for x in _walk_own(g.node) if isinstance(x, ast.Call)]
        if any(k.endswith('.copy') for k in calls):
            run.ok('P-R5', '__copy__ delegates to copy')
        else:
            run.fail(Finding('P-R5', MAT, g.qualname, 'def __copy__', 'copy.copy does not use matrix.copy',
                             line=g.lineno))
    else:
        run.fail(Finding('P-R5', MAT, '_matrix', '__copy__', 'copy.copy() falls back to the default '
                         'shallow copy, which shares the element dict', line=c.node.lineno))
    self_ = f.params[0]
    rets = [x for x in _walk_own(f.node) if isinstance(x, ast.Return)]
    if len(rets) != 1 or not isinstance(rets[0].value, ast.Name):
        raise AnalysisError('_matrix.copy: return shape changed')
    new = rets[0].value.id
    mk = [x for x in _walk_own(f.node) if isinstance(x, ast.Assign) and norm(x.targets[0]) == new]
    okmk = len(mk) == 1 and isinstance(mk[0].value, ast.Call) and \
        norm(mk[0].value.func) in ('%s.ctx.matrix' % self_, 'type(%s)' % self_, '%s.__class__' % self_) and \
        [norm(a) for a in mk[0].value.args] in (['%s.__rows' % self_, '%s.__cols' % self_],
                                                ['%s.rows' % self_, '%s.cols' % self_])
    if okmk:
        run.ok('P-R5', 'copy is a new matrix of the same context class and shape')
    else:
        run.fail(Finding('P-R5', MAT, f.qualname, norm(mk[0]) if mk else 'new = ...',
                         'the copy is not a new matrix(rows, cols) of the same context class',
                         line=f.lineno))
    st = [x for x in _walk_own(f.node) if isinstance(x, ast.Assign) and
          norm(x.targets[0]) == '%s.__data' % new]
    if len(st) != 1:
        run.fail(Finding('P-R5', MAT, f.qualname, '%s.__data = ...' % new,
                         'element storage of the copy is not assigned exactly once', line=f.lineno))
        return
    v = st[0].value
    fresh = (isinstance(v, ast.Call) and norm(v.func) in ('%s.__data.copy' % self_, 'dict') and
             (norm(v.func) != 'dict' or (v.args and norm(v.args[0]) == '%s.__data' % self_)))
    if fresh:
        run.ok('P-R5', 'storage of the copy is a fresh dict (%s)' % norm(v))
        return
    if norm(v) != '%s.__data' % self_:
        run.fail(Finding('P-R5', MAT, f.qualname, norm(st[0]), 'storage of the copy is neither a fresh '
                         'copy nor the original dict', line=st[0].lineno))
        return
    # shared storage: every in-place mutation must be preceded by a detach in the same method
    missing = []
    for g in c.methods.values():
        s2 = g.params[0] if g.params else 'self'
        muts = []
        for x in _walk_own(g.node):
            if isinstance(x, ast.Subscript) and isinstance(x.ctx, (ast.Store, ast.Del)) and \
                    norm(x.value) == '%s.__data' % s2:
                muts.append(x)
            if isinstance(x, ast.Call) and isinstance(x.func, ast.Attribute) and x.func.attr in INPLACE \
                    and norm(x.func.value) == '%s.__data' % s2:
                muts.append(x)
        if not muts:
            continue
        det = [x.lineno for x in _walk_own(g.node) if isinstance(x, ast.Assign) and
               norm(x.targets[0]) == '%s.__data' % s2 and isinstance(x.value, ast.Call) and
               norm(x.value.func) in ('%s.__data.copy' % s2, 'dict')]
        first = min(x.lineno for x in muts)
        if not det or min(det) > first:
            missing.append((g, [x for x in muts if x.lineno == first][0]))
    # a private helper is covered when every caller inside the class detaches before the call
    def detached_before(g, line):
        s2 = g.params[0] if g.params else 'self'
        det = [x.lineno for x in _walk_own(g.node) if isinstance(x, ast.Assign) and
               norm(x.targets[0]) == '%s.__data' % s2 and isinstance(x.value, ast.Call) and
               norm(x.value.func) in ('%s.__data.copy' % s2, 'dict')]
        return bool(det) and min(det) < line
    still = []
    for g, x in missing:
        name = g.node.name
        if name.startswith('_') and not name.endswith('__'):
            sites = []
            for h in c.methods.values():
                for y in _walk_own(h.node):
                    if isinstance(y, ast.Call) and isinstance(y.func, ast.Attribute) and \
                            y.func.attr == name and isinstance(y.func.value, ast.Name):
                        sites.append((h, y))
            if sites and all(detached_before(h, y.lineno) for h, y in sites):
                continue
        still.append((g, x))
    missing = still
    if missing:
        for g, x in missing:
            run.fail(Finding('P-R5', MAT, g.qualname, norm(x),
                             'copy() shares the element dict with the original, and this method mutates '
                             'the dict in place without detaching first: a change to one matrix shows '
                             'up in its copy', line=x.lineno))
    else:
        run.ok('P-R5', 'shared storage, every in-place mutation is preceded by a detach')


def run(run, ix, tier):
    run.explanation = (
        'A round trip is exact iff writer and reader agree field by field and nothing on the way '
        'rounds or recomputes.  The check pairs to_pickable with from_pickable, __getstate__ with '
        '__setstate__ (same slot, same component, no constructor), forbids hooks that rebuild numbers '
        'through the rounding constructor, requires dynamically created value classes to be '
        'registered by name (pickle looks classes up by module and name), and requires matrix.copy '
        'to give independent storage.')
    run.assumptions = ['MPZ(hexstring, 16) inverts hex() for non-negative integers (CPython int / gmpy2 mpz)',
                       'pickle/copy use __getstate__/__setstate__ via object.__reduce_ex__ when no '
                       'other hook is defined']
    run.trusted = []
    run.rule('P-R1', floor=8)
    run.rule('P-R2', floor=2)
    run.rule('P-R3', floor=4)
    run.rule('P-R4', floor=3)
    run.rule('P-R5', floor=3)
    run.rule('P-R6', floor=3, desc='lazy constants (possible matrix entries) can be copied and pickled')
    check_codec(run, ix)
    n = check_state_pairs(run, ix)
    if n < 2:
        raise AnalysisError('fewer than two classes with __getstate__/__setstate__ found')
    check_hooks(run, ix)
    check_dynamic_classes(run, ix)
    check_matrix_copy(run, ix)
    check_constant_entries(run, ix)
    run.rule('P-R7', floor=5, desc='matrices of fp / iv and interval numbers are rebuilt through their global context')
    check_context_rebuild(run, ix)
