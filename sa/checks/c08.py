"""C08 -- printed numbers round-trip and are nearest decimal approximations.

That bin_to_radix / numeral produce the right digits of a fixed-point number is
numerical and NOT decided.
Decided: the necessary conditions of the round trip that are visible in the
source,

  W-R1  digit count: repr prints repr_dps(prec) significant digits; a p-bit
        number is determined by d decimal digits only if 10**(d-1) > 2**p, i.e.
        d >= p*log10(2) + 1 (Matula).  The formulas prec_to_dps / repr_dps are
        evaluated from their syntax tree for every p in 1..20000 and must give
        at least ceil(p*log10(2)) + 1 digits (this is a statement about the
        closed-form expression in the source, checked exhaustively over the
        range)
  W-R2  freshness: the digit counts used by repr/str are recomputed from the
        CURRENT precision on every use (properties over ctx._prec / ctx._dps,
        not values cached at construction), and repr/str pass them to to_str;
        mpc's repr is composed of the reprs of its parts
  W-R3  special values: to_str writes '+inf', '-inf', 'nan' (and '0.0') and
        from_str's table of special literals maps exactly these strings back to
        the same values (writer/reader agreement)
  W-R4  decimal rounding step of to_str: it asks to_digits_exp for guard digits
        beyond dps, rounds on the first dropped digit, propagates the carry
        through trailing 9s, and in the all-nines case bumps the decimal exponent
  W-R5  exactness discipline of digit generation: digits that depend on an
        inexact operation (a rounding kernel at finite precision, to_fixed
        cutting mantissa bits) are returned only when certified by a
        floor/ceiling enclosure left under equality, a neighbour probe or an
        exactness guard (see the comment above DigitFlow)
"""
import ast
import math

from ..index import AnalysisError, norm
from ..prec_effect import _walk_own
from ..report import Finding

LIBMPF = 'mpmath/libmp/libmpf.py'
CTXPY = 'mpmath/ctx_mp_python.py'
CTXMP = 'mpmath/ctx_mp.py'
RANGE = 20000


def F(rule, file, qn, node_or_text, reason, line=None):
    site = node_or_text if isinstance(node_or_text, str) else norm(node_or_text)
    if line is None and not isinstance(node_or_text, str):
        line = getattr(node_or_text, 'lineno', None)
    return Finding(rule, file, qn, site, reason, line=line)


class Formula(object):
    """evaluator for the tiny pure functions prec_to_dps / repr_dps (straight-line code with
    if/return over int/float arithmetic, max, min, int, round and calls to each other)"""

    def __init__(self, ix):
        self.funcs = {}
        m = ix.module(LIBMPF)
        for name in ('prec_to_dps', 'dps_to_prec', 'repr_dps'):
            f = m.funcs.get(name)
            if f is None:
                raise AnalysisError('%s vanished' % name)
            self.funcs[name] = f

    def call(self, name, arg):
        f = self.funcs[name]
        env = {f.params[0]: arg}
        return self.block(f.node.body, env)

    def block(self, body, env):
        for st in body:
            if isinstance(st, ast.Expr) and isinstance(st.value, ast.Constant):
                continue
            if isinstance(st, ast.Return):
                return self.ev(st.value, env)
            if isinstance(st, ast.Assign) and len(st.targets) == 1 and isinstance(st.targets[0], ast.Name):
                env[st.targets[0].id] = self.ev(st.value, env)
                continue
            if isinstance(st, ast.If):
                r = self.block(st.body if self.ev(st.test, env) else st.orelse, env)
                if r is not None:
                    return r
                continue
            raise AnalysisError('digit-count formula: unmodelled statement %s' % norm(st))
        return None

    def ev(self, e, env):
        if isinstance(e, ast.Constant):
            return e.value
        if isinstance(e, ast.Name):
            if e.id in env:
                return env[e.id]
            raise AnalysisError('digit-count formula: unknown name %s' % e.id)
        if isinstance(e, ast.BinOp):
            a, b = self.ev(e.left, env), self.ev(e.right, env)
            ops = {ast.Add: lambda: a + b, ast.Sub: lambda: a - b, ast.Mult: lambda: a * b,
                   ast.Div: lambda: a / b, ast.FloorDiv: lambda: a // b}
            if type(e.op) in ops:
                return ops[type(e.op)]()
        if isinstance(e, ast.UnaryOp) and isinstance(e.op, ast.USub):
            return -self.ev(e.operand, env)
        if isinstance(e, ast.Compare) and len(e.ops) == 1:
            a, b = self.ev(e.left, env), self.ev(e.comparators[0], env)
            ops = {ast.Eq: a == b, ast.NotEq: a != b, ast.Lt: a < b, ast.LtE: a <= b, ast.Gt: a > b, ast.GtE: a >= b}
            if type(e.ops[0]) in ops:
                return ops[type(e.ops[0])]
        if isinstance(e, ast.BoolOp):
            if isinstance(e.op, ast.And):
                v = True
                for x in e.values:
                    v = self.ev(x, env)
                    if not v:
                        return v
                return v
            v = False
            for x in e.values:
                v = self.ev(x, env)
                if v:
                    return v
            return v
        if isinstance(e, ast.UnaryOp) and isinstance(e.op, ast.Not):
            return not self.ev(e.operand, env)
        if isinstance(e, ast.IfExp):
            return self.ev(e.body if self.ev(e.test, env) else e.orelse, env)
        if isinstance(e, ast.Call) and isinstance(e.func, ast.Name):
            args = [self.ev(a, env) for a in e.args]
            if e.func.id in ('max', 'min', 'int', 'round', 'abs'):
                return {'max': max, 'min': min, 'int': int, 'round': round, 'abs': abs}[e.func.id](*args)
            if e.func.id in self.funcs:
                return self.call(e.func.id, args[0])
        raise AnalysisError('digit-count formula: unmodelled expression %s' % norm(e))


def check_digit_count(run, ix):
    fm = Formula(ix)
    log10_2 = math.log10(2)
    worst = None
    for p in range(1, RANGE + 1):
        d = fm.call('repr_dps', p)
        need = math.ceil(p * log10_2) + 1
        if d < need and worst is None:
            worst = (p, d, need)
    if worst is None:
        run.ok('W-R1', 'repr_dps(p) >= ceil(p*log10 2) + 1 for every p in 1..%d' % RANGE)
    else:
        p, d, need = worst
        f = fm.funcs['repr_dps']
        run.fail(F('W-R1', LIBMPF, 'repr_dps', 'def repr_dps', 'repr prints %d digits at %d bits; %d are needed to '
                   'determine a %d-bit number uniquely (10**(d-1) > 2**p): some values do not survive repr -> parse'
                   % (d, p, need, p), line=f.lineno))
    # dps -> prec -> dps is consistent enough for str: prec_to_dps(dps_to_prec(n)) >= n
    bad = None
    for n in range(1, 3000):
        if fm.call('prec_to_dps', fm.call('dps_to_prec', n)) < n and bad is None:
            bad = n
    if bad is None:
        run.ok('W-R1', 'prec_to_dps(dps_to_prec(n)) >= n for n in 1..2999')
    else:
        run.fail(F('W-R1', LIBMPF, 'dps_to_prec', 'def dps_to_prec', 'setting dps = %d gives a precision whose '
                   'digit count is smaller than %d' % (bad, bad), line=fm.funcs['dps_to_prec'].lineno))


def check_wiring(run, ix):
    m = ix.module(CTXMP)
    for prop, want in (('_repr_digits', 'repr_dps(ctx._prec)'), ('_str_digits', 'ctx._dps')):
        f = m.funcs.get('MPContext.%s' % prop)
        if f is None:
            raise AnalysisError('MPContext.%s vanished' % prop)
        rets = [norm(r.value) for r in _walk_own(f.node) if isinstance(r, ast.Return)]
        if 'property' in ' '.join(f.decorators) and rets == [want]:
            run.ok('W-R2', '%s is a property computing %s on every use' % (prop, want))
        else:
            run.fail(F('W-R2', CTXMP, f.qualname, f.node, 'the digit count is not recomputed from the current '
                       'precision on every use (expected a property returning %s)' % want))
    # nobody assigns these attributes (a cached value would go stale on a precision change)
    for mm in ix.modules.values():
        for x in ast.walk(mm.tree):
            if isinstance(x, ast.Attribute) and isinstance(x.ctx, ast.Store) and x.attr in ('_repr_digits', '_str_digits'):
                run.fail(F('W-R2', mm.relpath, '<module>', x, 'the digit count is stored as an attribute: it goes '
                           'stale when the precision changes'))
    mp = ix.module(CTXPY)
    want = {'_mpf.__repr__': "to_str(s._mpf_, s.context._repr_digits)",
            '_mpf.__str__': "to_str(s._mpf_, s.context._str_digits)",
            '_mpc.__str__': "mpc_to_str(s._mpc_, s.context._str_digits)"}
    for qn, call in want.items():
        f = mp.funcs.get(qn)
        if f is None:
            raise AnalysisError('%s vanished' % qn)
        calls = [norm(c) for c in ast.walk(f.node) if isinstance(c, ast.Call) and
                 norm(c.func) in ('to_str', 'mpc_to_str')]
        if calls == [call]:
            run.ok('W-R2', '%s: %s' % (qn, call))
        else:
            run.fail(F('W-R2', CTXPY, qn, f.node, 'printing does not use the context\'s current digit count '
                       '(found %s)' % calls))
    f = mp.funcs.get('_mpc.__repr__')
    src = ' '.join(norm(s) for s in f.node.body)
    defs = dict((x.targets[0].id, norm(x.value)) for x in _walk_own(f.node)
                if isinstance(x, ast.Assign) and isinstance(x.targets[0], ast.Name))
    order_ok = False
    for r in _walk_own(f.node):
        if isinstance(r, ast.Return) and isinstance(r.value, ast.BinOp) and isinstance(r.value.op, ast.Mod) and \
                isinstance(r.value.right, ast.Tuple) and len(r.value.right.elts) == 3:
            a, b = [defs.get(norm(e), norm(e)) for e in r.value.right.elts[1:]]
            order_ok = ('.real' in a and 'repr(' in a and '.imag' not in a and
                        '.imag' in b and 'repr(' in b and '.real' not in b)
    if order_ok and 'real=%s, imag=%s' in src:
        run.ok('W-R2', '_mpc.__repr__ is composed of the reprs of its parts in (real, imag) order')
    else:
        run.fail(F('W-R2', CTXPY, '_mpc.__repr__', f.node, 'the repr of a complex number is not built from the '
                   'round-trip reprs of real and imaginary part in that order'))
    # the repr literal form mpf('...') is what the constructor parses
    f = mp.funcs.get('_mpf.__repr__')
    if any(isinstance(c, ast.Constant) and c.value == "mpf('%s')" for c in ast.walk(f.node)):
        run.ok('W-R2', "repr form is mpf('<digits>')")
    else:
        run.fail(F('W-R2', CTXPY, '_mpf.__repr__', f.node, "repr is not of the form mpf('<digits>')"))


def check_mpc_parts(run, ix):
    """the real and imaginary parts of an mpc are printed by the same to_str call shape: same digit
    count, same formatting options (sibling agreement)"""
    rel = 'mpmath/libmp/libmpc.py'
    f = ix.func(rel, 'mpc_to_str')
    calls = [c for c in _walk_own(f.node) if isinstance(c, ast.Call) and norm(c.func) == 'to_str']
    if len(calls) < 2:
        raise AnalysisError('mpc_to_str: to_str calls not found')
    shapes = {}
    for c in calls:
        shape = (tuple(norm(a) for a in c.args[1:]),
                 tuple(sorted((k.arg or '**', norm(k.value)) for k in c.keywords)))
        shapes.setdefault(shape, []).append(c)
    if len(shapes) == 1:
        run.ok('W-R2', 'mpc_to_str prints both parts with the same digit count and options')
    else:
        major = max(shapes.values(), key=len)
        for sh, cs in shapes.items():
            if cs is not major:
                run.fail(F('W-R2', rel, 'mpc_to_str', cs[0], 'this part is printed with other arguments than the '
                           'other part (%s): digit count or formatting options are not applied to it'
                           % norm(major[0])))


def check_specials(run, ix):
    m = ix.module(LIBMPF)
    f = ix.func(LIBMPF, 'to_str')
    written = {}
    for st in _walk_own(f.node):
        if isinstance(st, ast.If) and isinstance(st.test, ast.Compare) and len(st.body) == 1 and \
                isinstance(st.body[0], ast.Return) and isinstance(st.body[0].value, ast.Constant):
            written[norm(st.test.comparators[0])] = st.body[0].value.value
    table = None
    for name, value, st, g in m.toplevel_assigns:
        if name == 'special_str' and isinstance(value, ast.Dict):
            table = dict((k.value, norm(v)) for k, v in zip(value.keys, value.values))
    if table is None:
        raise AnalysisError('special_str table vanished')
    for const, text in (('finf', '+inf'), ('fninf', '-inf'), ('fnan', 'nan')):
        if written.get(const) == text:
            run.ok('W-R3', 'to_str writes %s as %r' % (const, text))
        else:
            run.fail(F('W-R3', LIBMPF, 'to_str', 'if s == %s: return %r' % (const, written.get(const)),
                       '%s is printed as %r, expected %r' % (const, written.get(const), text), line=f.lineno))
        if table.get(text) == const:
            run.ok('W-R3', 'from_str reads %r back as %s' % (text, const))
        else:
            run.fail(F('W-R3', LIBMPF, '<module>', 'special_str[%r] = %s' % (text, table.get(text)),
                       'the literal %r written by to_str is parsed as %s, not as %s' % (text, table.get(text), const)))
    if table.get('inf') == 'finf':
        run.ok('W-R3', "'inf' is read as +inf")
    else:
        run.fail(F('W-R3', LIBMPF, '<module>', "special_str['inf']", "'inf' is not read as +inf"))
    # the table is consulted before numeric parsing, on the stripped lower-cased text
    g = ix.func(LIBMPF, 'from_str')
    first = [norm(s) for s in g.node.body if not (isinstance(s, ast.Expr) and isinstance(s.value, ast.Constant))][:2]
    if first and 'lower()' in first[0] and len(first) > 1 and first[1].startswith('if x in special_str'):
        run.ok('W-R3', 'from_str looks the literal up before numeric parsing')
    else:
        run.fail(F('W-R3', LIBMPF, 'from_str', first[0] if first else 'def from_str', 'special literals are not '
                   'looked up first on the normalised text'))


def check_rounding_step(run, ix):
    f = ix.func(LIBMPF, 'to_str')
    fn = f.node
    calls = [c for c in _walk_own(fn) if isinstance(c, ast.Call) and norm(c.func) == 'to_digits_exp']
    if len(calls) != 1:
        raise AnalysisError('to_str: to_digits_exp call not found')
    a = calls[0].args[1]
    k = None
    if isinstance(a, ast.BinOp) and isinstance(a.op, ast.Add) and norm(a.left) == 'dps' and isinstance(a.right, ast.Constant):
        k = a.right.value
    if k is not None and k >= 1:
        run.ok('W-R4', 'to_digits_exp is asked for dps+%d digits (guard digits for the decimal rounding)' % k)
    else:
        run.fail(F('W-R4', LIBMPF, 'to_str', calls[0], 'no guard digit is requested beyond dps: the decimal rounding '
                   'step has nothing to round on'))
    gate = [x for x in _walk_own(fn) if isinstance(x, ast.If) and 'digits[dps] in' in norm(x.test)]
    if len(gate) != 1:
        run.fail(F('W-R4', LIBMPF, 'to_str', 'if digits[dps] in "56789"', 'the decimal rounding step (round on the '
                   'first dropped digit) was not found', line=fn.lineno))
        return
    g = gate[0]
    t = g.test
    digs = [c.value for c in ast.walk(t) if isinstance(c, ast.Constant) and isinstance(c.value, str)]
    if digs and set(digs[0]) == set('56789'):
        run.ok('W-R4', 'rounds up exactly when the first dropped digit is 5..9')
    else:
        run.fail(F('W-R4', LIBMPF, 'to_str', g, 'the set of digits that round up is %r, not 5..9' % (digs[:1],)))
    body = [norm(s) for s in ast.walk(ast.Module(body=g.body, type_ignores=[])) if isinstance(s, ast.stmt)]
    if any(s.startswith("while i >= 0 and digits[i] == '9'") for s in body):
        run.ok('W-R4', 'carry propagates through trailing 9s')
    else:
        run.fail(F('W-R4', LIBMPF, 'to_str', g, 'the carry of the decimal rounding is not propagated through 9s'))
    inner = [x for x in ast.walk(ast.Module(body=g.body, type_ignores=[])) if isinstance(x, ast.If) and norm(x.test) == 'i >= 0']
    ok = False
    if inner:
        els = [norm(s) for s in inner[0].orelse]
        ok = 'exponent += 1' in els and any(s.startswith("digits = '1' + '0' *") for s in els)
    if ok:
        run.ok('W-R4', 'all-nines case: digits become 10..0 and the exponent is incremented')
    else:
        run.fail(F('W-R4', LIBMPF, 'to_str', inner[0] if inner else g, 'when every kept digit is 9 the result must '
                   'become 1 followed by zeros WITH the decimal exponent incremented'))
    # the else branch truncates to dps digits
    els = [norm(s) for s in g.orelse]
    if els == ['digits = digits[:dps]']:
        run.ok('W-R4', 'otherwise the guard digits are dropped')
    else:
        run.fail(F('W-R4', LIBMPF, 'to_str', g, 'without rounding up the digit string is not cut to dps digits (%s)' % els))


def run(run, ix, tier):
    run.explanation = (
        'Round trip needs enough digits, digit counts that follow the current precision, and agreeing literal '
        'forms for special values; nearest-decimal output needs the decimal rounding step of to_str to be intact.  '
        'The digit-count formula is evaluated from its syntax tree for all precisions 1..%d against Matula\'s '
        'bound; wiring, the special-value tables of writer and reader, and the shape of the rounding/carry step '
        'are checked structurally.  Digit generation itself (to_digits_exp) and from_str\'s rounding are '
        'numerical (C07 covers from_str).' % RANGE)
    run.assumptions = ['bin_to_radix and numeral give the exact floor digits of a fixed-point integer (not decided)']
    run.trusted = ['the Formula evaluator in sa/checks/c08.py (int/float arithmetic as in CPython)']
    run.rule('W-R1', floor=2)
    run.rule('W-R2', floor=8)
    run.rule('W-R3', floor=8)
    run.rule('W-R4', floor=5)
    run.rule('W-R5', floor=3)
    check_digit_count(run, ix)
    check_wiring(run, ix)
    check_mpc_parts(run, ix)
    check_specials(run, ix)
    check_rounding_step(run, ix)
    check_digit_exactness(run, ix)
    # L-R1 (shared with C07): repr at mp.dps > 4300 prints more digits than int() accepts in one piece
    from .c07 import check_literal_length, check_text_never_through_float
    check_literal_length(run, ix)
    check_text_never_through_float(run, ix)
    check_numeral_size_hint(run, ix)
    # W-R6 (= B-R5 of C07, seed C08-6): the read-back half of the round trip.  repr prints enough digits to identify the
    # number, which only helps if from_str derives the value from the exact digits: for |exponent| > 400 the mantissa
    # of the literal stays exact until the one product with the power of ten
    check_exponent_text(run, ix)
    from .c07 import check_from_str_exact
    run.rule('W-R6', floor=5, desc='from_str derives the value from the exact digits of the literal (B-R5 of C07)')
    check_from_str_exact(run, ix, rule='W-R6')


# ---------------------------------------------------------------------------------------------
# W-R5  exactness discipline of digit generation
#
# to_str rounds on ONE decimal digit of the string to_digits_exp hands it.  That is correct only
# if those digits are the digits of the exact value rounded toward zero: a value a hair above a
# decimal boundary whose digits come out as ...4999 is rounded the wrong way.  Two operations in
# the digit path are inexact: rounding kernels called with a finite precision (the division by a
# power of ten for huge exponents) and to_fixed, which cuts mantissa bits off when the mantissa is
# longer than the working width.  The rule: digits that depend on such an operation reach a
# `return` only when CERTIFIED, by one of
#   * enclosure:  the value is computed twice with directed roundings that make a lower and an
#                 upper bound (division: floor with the divisor rounded up, ceiling with the
#                 divisor rounded down) and the digits are accepted under `lower == upper`;
#   * neighbour probe:  the digits of the truncated fixed-point number sf are accepted under
#                 equality with the digits of sf + 1;
#   * exactness guard:  a condition that implies no fractional bit was cut (evaluated on a grid
#                 of (exp, fixprec): it must imply  exp + fixprec >= 0  or  fixprec == 0).
# Abstract values: 'E' exact, 'L'/'U' lower/upper bound, 'N' inexact without a bound,
# 'T0'/'T1' truncated fixed-point number and its upper neighbour; digit strings carry the kind of
# the number they were made from.
ROUNDERS = ('mpf_div', 'mpf_mul', 'mpf_pow_int', 'mpf_add', 'mpf_sub', 'mpf_sqrt')
DIGIT_FUNCS = ('bin_to_radix', 'numeral')


class DigitFlow(object):
    def __init__(self, run, ix):
        self.run = run
        self.ix = ix
        self.mod = ix.module(LIBMPF)
        self.summaries = {}

    # -- helper summary: does the function return exact floor digits of its (exact) argument?
    def helper_certified(self, name):
        if name in self.summaries:
            return self.summaries[name]
        self.summaries[name] = False
        f = self.mod.funcs.get(name)
        if f is None:
            return False
        ok, why = self.analyse(f, top=False)
        self.summaries[name] = ok
        self.helper_why = why
        return ok

    def kind_of_call(self, c, env):
        fn = norm(c.func)
        args = c.args
        if fn in ROUNDERS:
            sig = self.mod.funcs.get(fn)
            params = sig.params if sig is not None else []
            pi = params.index('prec') if 'prec' in params else None
            ri = params.index('rnd') if 'rnd' in params else None
            if pi is None or len(args) <= pi or (isinstance(args[pi], ast.Constant) and args[pi].value == 0):
                return 'E'                       # no finite precision: exact operation
            rnd = norm(args[ri]) if ri is not None and len(args) > ri else None
            kinds = [self.kind(a, env) for a in args[:pi]]
            if fn == 'mpf_div' and len(kinds) == 2 and kinds[0] == 'E':
                if rnd == 'round_floor' and kinds[1] in ('E', 'U'):
                    return 'L'
                if rnd == 'round_ceiling' and kinds[1] in ('E', 'L'):
                    return 'U'
                return 'N'
            if all(k in ('E', 'I') for k in kinds):
                return {'round_floor': 'L', 'round_ceiling': 'U'}.get(rnd, 'N')
            return 'N'
        if fn == 'to_int':
            return 'I'              # an integer estimate: any integer scaling exponent is valid
        if fn in ('from_int', 'mpf_neg', 'bitcount', 'abs', 'int', 'len', 'max', 'min', 'str'):
            ks = [self.kind(a, env) for a in args]
            return 'N' if 'N' in ks else 'E'
        if fn in ('mpf_ln2', 'mpf_ln10'):
            return 'N'
        if fn == 'to_fixed':
            k = self.kind(args[0], env)
            return ('T0', k, 'bin')
        if fn in DIGIT_FUNCS:
            k = self.kind(args[0], env)
            if isinstance(k, tuple) and k[0] in ('T0', 'T1'):
                # from here on the number is a DECIMAL fixed-point number / a digit string: adding one unit to it
                # is not the neighbour of the binary fixed-point number any more
                return (k[0], k[1], 'dec')
            return k
        if fn in self.mod.funcs and fn not in ROUNDERS:
            # a helper of the digit path: certified helpers return the floor digits of their argument
            k = self.kind(args[0], env) if args else 'E'
            if self.helper_certified(fn):
                return ('PAIR', k, 'I')
            return ('PAIR', 'N', 'I')
        return 'E'

    def kind(self, e, env):
        if isinstance(e, ast.Name):
            return env.get(e.id, 'E')
        if isinstance(e, ast.Constant):
            return 'E'
        if isinstance(e, ast.Subscript):
            return self.kind(e.value, env)
        if isinstance(e, ast.Call):
            return self.kind_of_call(e, env)
        if isinstance(e, ast.BinOp):
            a, b = self.kind(e.left, env), self.kind(e.right, env)
            if isinstance(a, tuple) and a[0] == 'T0' and isinstance(e.op, ast.Add) and \
                    isinstance(e.right, ast.Constant) and e.right.value == 1:
                if len(a) > 2 and a[2] == 'bin':
                    return ('T1', a[1], 'bin')
                # one unit of the DECIMAL number is between 0.3 and 3.3 binary units: no bound on the true value
                return 'N'
            for k in (a, b):
                if k not in ('E', 'I'):
                    return k if isinstance(k, str) else 'N'
            return 'E'
        if isinstance(e, ast.Tuple):
            return ('TUPLE',) + tuple(self.kind(x, env) for x in e.elts)
        if isinstance(e, (ast.UnaryOp,)):
            return self.kind(e.operand, env)
        return 'E'

    @staticmethod
    def certifies(test, env, kindfn):
        """does `test` contain lower == upper  or  digits(sf) == digits(sf+1)?"""
        for c in ast.walk(test):
            if isinstance(c, ast.Compare) and len(c.ops) == 1 and isinstance(c.ops[0], ast.Eq):
                a, b = kindfn(c.left, env), kindfn(c.comparators[0], env)
                if {a, b} == {'L', 'U'}:
                    return 'enclosure'
                if isinstance(a, tuple) and isinstance(b, tuple) and {a[0], b[0]} == {'T0', 'T1'} \
                        and a[1] == b[1] == 'E':
                    return 'neighbour probe'
        return None

    def exactness_guard(self, test):
        from ..formula import Evaluator
        names = {n.id for n in ast.walk(test) if isinstance(n, ast.Name)}
        if not names <= {'exp', 'fixprec', 'bc', 'bitprec'} or 'fixprec' not in names:
            return False
        ev = Evaluator()
        try:
            for exp in range(-40, 41, 1):
                for fixprec in range(0, 60):
                    for bc in (1, 7, 53):
                        env = {'exp': exp, 'fixprec': fixprec, 'bc': bc, 'bitprec': fixprec + exp + bc}
                        if ev.ev(test, env) and not (exp + fixprec >= 0 or fixprec == 0):
                            return False
        except AnalysisError:
            return False
        return True

    @staticmethod
    def kind_is_bound(k):
        return k in ('L', 'U')

    def exact_choice(self, st, env):
        """`if <cap>: ...; if lhs >= rhs: digits, exponent = <upper digits>; break` -- the loop is left after an
        EXACT comparison of the value with the decimal the upper bound reached: every statement of the block is
        Python integer arithmetic (no rounding kernel, no to_fixed, no float), the comparison selects the upper
        candidate exactly when the value is not below it, and otherwise the lower bound's digits stay."""
        body = st.body
        if not body or not isinstance(body[-1], ast.Break):
            return None
        for x in ast.walk(ast.Module(body=body, type_ignores=[])):
            if isinstance(x, ast.Call):
                fn = norm(x.func)
                if fn in ROUNDERS or fn in ('to_fixed', 'float', 'math.log') or fn.startswith(('mpf_', 'from_')):
                    return None
            if isinstance(x, ast.BinOp) and isinstance(x.op, (ast.Div,)):
                return None
            if isinstance(x, ast.Constant) and isinstance(x.value, float):
                return None
        sel = [x for x in body if isinstance(x, ast.If) and not x.orelse and len(x.body) == 1
               and isinstance(x.body[0], ast.Assign) and isinstance(x.body[0].value, ast.Tuple)]
        if len(sel) != 1:
            return None
        t = sel[0].test
        if not (isinstance(t, ast.Compare) and len(t.ops) == 1 and isinstance(t.ops[0], (ast.GtE, ast.LtE))):
            return None
        asg = [a for a in sel[0].body if isinstance(a, ast.Assign)]
        if len(asg) != 1 or len(sel[0].body) != 1 or not isinstance(asg[0].value, ast.Tuple):
            return None
        srcs = [self.kind(e, env) for e in asg[0].value.elts]
        if 'U' not in [k if isinstance(k, str) else k[0] for k in srcs]:
            return None
        # the candidate that is compared must be made from the same upper digits
        names_in_block = {n.id for x in body for n in ast.walk(x) if isinstance(n, ast.Name)}
        upper = {n.id for e in asg[0].value.elts for n in ast.walk(e) if isinstance(n, ast.Name)}
        if not (upper & names_in_block):
            return None
        # direction: value >= candidate selects the upper digits
        val_side = t.left if isinstance(t.ops[0], ast.GtE) else t.comparators[0]
        cand_side = t.comparators[0] if isinstance(t.ops[0], ast.GtE) else t.left

        def mentions(e, what, depth=0):
            for n in ast.walk(e):
                if isinstance(n, ast.Name):
                    if n.id in what:
                        return True
                    if depth < 3:
                        for a in body:
                            if isinstance(a, (ast.Assign, ast.AugAssign)):
                                tg = a.targets[0] if isinstance(a, ast.Assign) else a.target
                                if isinstance(tg, ast.Name) and tg.id == n.id and a.value is not e and \
                                        mentions(a.value, what, depth + 1):
                                    return True
                            if isinstance(a, ast.If):
                                for b2 in a.body + a.orelse:
                                    if isinstance(b2, ast.AugAssign) and isinstance(b2.target, ast.Name) and \
                                            b2.target.id == n.id and mentions(b2.value, what, depth + 1):
                                        return True
            return False
        udigits = {n.id for n in ast.walk(asg[0].value.elts[0]) if isinstance(n, ast.Name)}
        if mentions(val_side, {'man'}) and mentions(cand_side, udigits) and not mentions(val_side, udigits):
            return 'exact comparison with the decimal that the upper bound reached'
        return None

    def analyse(self, f, top=True):
        """abstractly execute the body once (loops once); returns (certified, reason)"""
        env = {}
        problems = []
        nret = [0]

        def assign(t, k):
            if isinstance(t, ast.Name):
                env[t.id] = k
            elif isinstance(t, ast.Tuple):
                if isinstance(k, tuple) and k[0] in ('PAIR', 'TUPLE') and len(k) - 1 == len(t.elts):
                    for x, kk in zip(t.elts, k[1:]):
                        assign(x, kk)
                else:
                    for x in t.elts:
                        assign(x, k if isinstance(k, str) else 'E')

        def digits_ok(k):
            return k in ('E', 'I')

        def do_return(st, guards):
            nret[0] += 1
            v = st.value
            elts = v.elts if isinstance(v, ast.Tuple) else [v]
            for x in elts:
                k = self.kind(x, env)
                if digits_ok(k):
                    continue
                cert = None
                for g in guards:
                    cert = cert or self.certifies(g, env, self.kind)
                    if isinstance(k, tuple) and k[0] == 'T0' and k[1] == 'E' and self.exactness_guard(g):
                        cert = cert or 'exactness guard'
                if cert and (k in ('L', 'U') or (isinstance(k, tuple) and k[0] in ('T0',) and k[1] == 'E')):
                    continue
                problems.append((st, x, k))

        def block(body, guards):
            for st in body:
                if isinstance(st, ast.Assign) and len(st.targets) == 1:
                    assign(st.targets[0], self.kind(st.value, env))
                elif isinstance(st, ast.AugAssign) and isinstance(st.target, ast.Name):
                    k = self.kind(st.value, env)
                    if k not in ('E', 'I'):
                        env[st.target.id] = k
                elif isinstance(st, ast.If):
                    body_has_break = any(isinstance(x, ast.Break) for x in st.body)
                    if body_has_break:
                        c = self.certifies(st.test, env, self.kind) or self.exact_choice(st, env)
                        if c:
                            pending.append((c, st))
                        else:
                            pending.append((None, st))
                        continue
                    saved = dict(env)
                    block(st.body, guards + [st.test])
                    e1 = dict(env)
                    env.clear()
                    env.update(saved)
                    block(st.orelse, guards)
                    for nm, k in e1.items():      # join: the worse kind wins
                        if env.get(nm, 'E') in ('E', 'I') and k not in ('E', 'I'):
                            env[nm] = k
                elif isinstance(st, ast.While):
                    mark = len(pending)
                    block(st.body, guards)
                    mine = pending[mark:]
                    del pending[mark:]
                    if mine and all(c for c, _ in mine) and any(c == 'enclosure' for c, _ in mine) \
                            and isinstance(st.test, ast.Constant) and not any('exact comparison' in c for c, _ in mine) \
                            and any(self.kind_is_bound(k) for k in env.values()):
                        # an enclosure loop that can only be left when both ends agree never ends for a value that
                        # IS a decimal with fewer digits than requested (lower end ...999, upper end ...000 at
                        # every precision)
                        problems.append((mine[0][1], mine[0][1].test, 'enclosure loop without an exact exit'))
                    if mine and all(c for c, _ in mine):
                        # the loop is left only under lower == upper: the bounds ARE the value
                        for nm, k in list(env.items()):
                            if k in ('L', 'U'):
                                env[nm] = 'E'
                        self.run.ok('W-R5', '%s: loop left only under %s' % (f.qualname, mine[0][0]))
                    elif mine:
                        for c, node in mine:
                            if not c:
                                problems.append((node, node.test, 'uncertified loop exit'))
                elif isinstance(st, ast.Return):
                    do_return(st, guards)
                elif isinstance(st, (ast.Expr, ast.ImportFrom, ast.Import, ast.Pass, ast.Break)):
                    continue
                else:
                    raise AnalysisError('W-R5: unmodelled statement in %s: %s' % (f.qualname, norm(st)))

        pending = []
        block(f.node.body, [])
        if nret[0] == 0:
            raise AnalysisError('W-R5: %s has no return' % f.qualname)
        if problems:
            st, x, k = problems[0]
            return False, (st, x, k)
        return True, None


def check_digit_exactness(run, ix):
    df = DigitFlow(run, ix)
    f = ix.func(LIBMPF, 'to_digits_exp')
    ok, why = df.analyse(f)
    # report helper failures at the helper
    for name, good in sorted(df.summaries.items()):
        hf = ix.func(LIBMPF, name)
        if good:
            run.ok('W-R5', '%s: every return of digits is certified (neighbour probe / exactness guard)' % name)
        else:
            st, x, k = df.helper_why
            run.fail(F('W-R5', LIBMPF, hf.qualname, st,
                       'digits made from a %s value are returned uncertified: the mantissa bits cut off by '
                       'to_fixed (or an inexact scaling) can move the value across a decimal boundary, and to_str '
                       'then rounds the wrong way' % describe_kind(k)))
    if ok:
        run.ok('W-R5', 'to_digits_exp: the digits it returns are those of the exact value')
    elif all(df.summaries.values()) or not df.summaries:
        st, x, k = why
        if k == 'enclosure loop without an exact exit':
            run.fail(F('W-R5', LIBMPF, f.qualname, st,
                       'the enclosure loop can only be left when both ends of the enclosure give the same digits '
                       '(`%s`): for a value that IS a decimal with fewer digits than requested the lower end is '
                       'always just below it and the upper end on it, so the precision doubles forever and no '
                       'literal is produced (repr(mpf(2)**3600) at mp.dps = 1100); an exit that compares the value '
                       'exactly with the decimal reached is missing' % norm(x)))
            return
        run.fail(F('W-R5', LIBMPF, f.qualname, st,
                   '`%s` depends on %s and reaches the caller without an enclosure (floor/ceiling pair accepted '
                   'under equality), a neighbour probe or an exactness guard: to_str rounds on a digit that may '
                   'be wrong' % (norm(x), describe_kind(k))))


def describe_kind(k):
    if k == 'N':
        return 'a value rounded to a finite precision without a direction'
    if k in ('L', 'U'):
        return 'a one-sided bound (%s)' % ('lower' if k == 'L' else 'upper')
    if isinstance(k, tuple) and k[0] in ('T0', 'T1'):
        return 'a fixed-point number truncated by to_fixed' + ('' if k[1] == 'E' else ' of an inexact value')
    return str(k)


# --------------------------------------------------------------------------- W-R6
def check_numeral_size_hint(run, ix):
    """W-R6.  numeral_python converts short integers with str(), which the interpreter refuses beyond 4300 digits,
    and decides "short" from a size HINT supplied by the caller (to_str passes the number of digits it wants, not
    the length of the integer).  Before the small path is taken the hint must therefore be corrected from the bit
    length of n, with a threshold that keeps every integer reaching str() below the limit:
    `if bitcount(n) > B: size = max(size, ...)` with B * log10(2) < 4300."""
    run.rule('W-R6', floor=1, desc='numeral_python corrects its size hint from the bit length before using str()')
    rel = 'mpmath/libmp/libintmath.py'
    f = ix.func(rel, 'numeral_python')
    small = [x for x in f.node.body if isinstance(x, ast.If) and any(isinstance(c, ast.Call) and norm(c.func) == 'small_numeral'
                                                                    for c in ast.walk(x))]
    if not small:
        raise AnalysisError('numeral_python: small path not found')
    i = f.node.body.index(small[0])
    fix = None
    for st in f.node.body[:i]:
        if isinstance(st, ast.If) and isinstance(st.test, ast.Compare) and isinstance(st.test.ops[0], (ast.Gt, ast.GtE)) \
                and isinstance(st.test.comparators[0], ast.Constant):
            left = norm(st.test.left)
            defs = {norm(a.targets[0]): norm(a.value) for a in f.node.body[:i] if isinstance(a, ast.Assign)}
            if 'bitcount' in left or 'bitcount' in defs.get(left, ''):
                grows = any(isinstance(a, ast.Assign) and norm(a.targets[0]) == 'size' and 'max(size' in norm(a.value)
                            for a in st.body)
                if grows:
                    fix = st
    if fix is None:
        run.fail(F('W-R6', rel, 'numeral_python', small[0].test, 'the small path (str(n)) is chosen from the caller\'s size hint '
                   'alone: to_str passes the requested digit count, so an integer of more than 4300 digits announced as '
                   'short reaches str() and the interpreter raises ValueError (nstr(mpf(\'0.1\'), 6) at mp.dps = 5000)'))
        return
    bits = fix.test.comparators[0].value
    if bits * 0.30103 < 4300 - 250:
        run.ok('W-R6', 'numeral_python: size hint raised to the true length above %d bits (%d digits)' % (bits, bits * 0.30103))
    else:
        run.fail(F('W-R6', rel, 'numeral_python', fix.test, 'the size hint is corrected only above %d bits = %d digits, '
                   'beyond the 4300 digits str() accepts' % (bits, bits * 0.30103)))


# ---------------------------------------------------------------------------------------------
# W-R7  the decimal exponent is an unbounded integer too
#
def check_exponent_text(run, ix):
    """W-R7 (second C08 hunt; repair 8f543a9).  "Decimal exponents of any size": the interpreter refuses str() of an
    integer with more than sys.get_int_max_str_digits() (4300) digits, and the decimal exponent of ldexp(1, 34*10**4299)
    has more.  In to_str the exponent reaches the text through `numeral` (which converts in pieces), never through str(),
    repr() or a % / format conversion (the digit strings already do; L-R2 is the reading side)."""
    run.rule('W-R7', floor=2, desc='to_str converts the decimal exponent with numeral, not with str()')
    f = ix.func(LIBMPF, 'to_str')
    n = 0
    for r in _walk_own(f.node):
        if not (isinstance(r, ast.Return) and r.value is not None and 'exponent' in norm(r.value)):
            continue
        n += 1
        bad = None
        for c in ast.walk(r.value):
            if isinstance(c, ast.Call) and norm(c.func) in ('str', 'repr', 'format') and c.args and 'exponent' in norm(c.args[0]):
                bad = c
            if isinstance(c, ast.BinOp) and isinstance(c.op, ast.Mod) and isinstance(c.left, ast.Constant) and \
                    isinstance(c.left.value, str) and 'exponent' in norm(c.right):
                bad = c
            if isinstance(c, ast.JoinedStr) and 'exponent' in norm(c):
                bad = c
        if bad is None:
            run.ok('W-R7', '`%s`' % norm(r, 70))
        else:
            run.fail(F('W-R7', LIBMPF, 'to_str', r, 'the decimal exponent goes through `%s`: beyond 4300 digits the interpreter '
                       'raises ValueError, so str(), repr() and nstr() of ldexp(mpf(1), 34*10**4299) fail although the '
                       'literal with such an exponent parses' % norm(bad, 30)))
    if n < 2:
        raise AnalysisError('to_str: returns with the exponent not found')
