"""C08 -- printed numbers round-trip and are nearest decimal approximations.

That to_digits_exp produces the right digits is numerical and NOT decided.
Decided: the necessary conditions of the round trip that are visible in the
source,

  W-R1  digit count: repr prints repr_dps(prec) significant digits; a p-bit
        number is determined by d decimal digits only if 10**(d-1) > 2**p, i.e.
        d >= p*log10(2) + 1 (Matula).  The formulas prec_to_dps / repr_dps are
        evaluated from their syntax tree for every p in 1..20000 and must give
        at least ceil(p*log10(2)) + 1 digits (this is a statement about the
        closed-form expression in the source, checked exhaustively over the
        range)
  W-R2  freshness: the digit counts used by repr/str are recomputed from the
        CURRENT precision on every use (properties over ctx._prec / ctx._dps,
        not values cached at construction), and repr/str pass them to to_str;
        mpc's repr is composed of the reprs of its parts
  W-R3  special values: to_str writes '+inf', '-inf', 'nan' (and '0.0') and
        from_str's table of special literals maps exactly these strings back to
        the same values (writer/reader agreement)
  W-R4  decimal rounding step of to_str: it asks to_digits_exp for guard digits
        beyond dps, rounds on the first dropped digit, propagates the carry
        through trailing 9s, and in the all-nines case bumps the decimal exponent
"""
import ast
import math

from ..index import AnalysisError, norm
from ..prec_effect import _walk_own
from ..report import Finding

LIBMPF = 'mpmath/libmp/libmpf.py'
CTXPY = 'mpmath/ctx_mp_python.py'
CTXMP = 'mpmath/ctx_mp.py'
RANGE = 20000


def F(rule, file, qn, node_or_text, reason, line=None):
    site = node_or_text if isinstance(node_or_text, str) else norm(node_or_text)
    if line is None and not isinstance(node_or_text, str):
        line = getattr(node_or_text, 'lineno', None)
    return Finding(rule, file, qn, site, reason, line=line)


class Formula(object):
    """evaluator for the tiny pure functions prec_to_dps / repr_dps (straight-line code with
    if/return over int/float arithmetic, max, min, int, round and calls to each other)"""

    def __init__(self, ix):
        self.funcs = {}
        m = ix.module(LIBMPF)
        for name in ('prec_to_dps', 'dps_to_prec', 'repr_dps'):
            f = m.funcs.get(name)
            if f is None:
                raise AnalysisError('%s vanished' % name)
            self.funcs[name] = f

    def call(self, name, arg):
        f = self.funcs[name]
        env = {f.params[0]: arg}
        return self.block(f.node.body, env)

    def block(self, body, env):
        for st in body:
            if isinstance(st, ast.Expr) and isinstance(st.value, ast.Constant):
                continue
            if isinstance(st, ast.Return):
                return self.ev(st.value, env)
            if isinstance(st, ast.Assign) and len(st.targets) == 1 and isinstance(st.targets[0], ast.Name):
                env[st.targets[0].id] = self.ev(st.value, env)
                continue
            if isinstance(st, ast.If):
                r = self.block(st.body if self.ev(st.test, env) else st.orelse, env)
                if r is not None:
                    return r
                continue
            raise AnalysisError('digit-count formula: unmodelled statement %s' % norm(st))
        return None

    def ev(self, e, env):
        if isinstance(e, ast.Constant):
            return e.value
        if isinstance(e, ast.Name):
            if e.id in env:
                return env[e.id]
            raise AnalysisError('digit-count formula: unknown name %s' % e.id)
        if isinstance(e, ast.BinOp):
            a, b = self.ev(e.left, env), self.ev(e.right, env)
            ops = {ast.Add: lambda: a + b, ast.Sub: lambda: a - b, ast.Mult: lambda: a * b,
                   ast.Div: lambda: a / b, ast.FloorDiv: lambda: a // b}
            if type(e.op) in ops:
                return ops[type(e.op)]()
        if isinstance(e, ast.UnaryOp) and isinstance(e.op, ast.USub):
            return -self.ev(e.operand, env)
        if isinstance(e, ast.Compare) and len(e.ops) == 1:
            a, b = self.ev(e.left, env), self.ev(e.comparators[0], env)
            ops = {ast.Eq: a == b, ast.NotEq: a != b, ast.Lt: a < b, ast.LtE: a <= b, ast.Gt: a > b, ast.GtE: a >= b}
            if type(e.ops[0]) in ops:
                return ops[type(e.ops[0])]
        if isinstance(e, ast.BoolOp):
            if isinstance(e.op, ast.And):
                v = True
                for x in e.values:
                    v = self.ev(x, env)
                    if not v:
                        return v
                return v
            v = False
            for x in e.values:
                v = self.ev(x, env)
                if v:
                    return v
            return v
        if isinstance(e, ast.UnaryOp) and isinstance(e.op, ast.Not):
            return not self.ev(e.operand, env)
        if isinstance(e, ast.IfExp):
            return self.ev(e.body if self.ev(e.test, env) else e.orelse, env)
        if isinstance(e, ast.Call) and isinstance(e.func, ast.Name):
            args = [self.ev(a, env) for a in e.args]
            if e.func.id in ('max', 'min', 'int', 'round', 'abs'):
                return {'max': max, 'min': min, 'int': int, 'round': round, 'abs': abs}[e.func.id](*args)
            if e.func.id in self.funcs:
                return self.call(e.func.id, args[0])
        raise AnalysisError('digit-count formula: unmodelled expression %s' % norm(e))


def check_digit_count(run, ix):
    fm = Formula(ix)
    log10_2 = math.log10(2)
    worst = None
    for p in range(1, RANGE + 1):
        d = fm.call('repr_dps', p)
        need = math.ceil(p * log10_2) + 1
        if d < need and worst is None:
            worst = (p, d, need)
    if worst is None:
        run.ok('W-R1', 'repr_dps(p) >= ceil(p*log10 2) + 1 for every p in 1..%d' % RANGE)
    else:
        p, d, need = worst
        f = fm.funcs['repr_dps']
        run.fail(F('W-R1', LIBMPF, 'repr_dps', 'def repr_dps', 'repr prints %d digits at %d bits; %d are needed to '
                   'determine a %d-bit number uniquely (10**(d-1) > 2**p): some values do not survive repr -> parse'
                   % (d, p, need, p), line=f.lineno))
    # dps -> prec -> dps is consistent enough for str: prec_to_dps(dps_to_prec(n)) >= n
    bad = None
    for n in range(1, 3000):
        if fm.call('prec_to_dps', fm.call('dps_to_prec', n)) < n and bad is None:
            bad = n
    if bad is None:
        run.ok('W-R1', 'prec_to_dps(dps_to_prec(n)) >= n for n in 1..2999')
    else:
        run.fail(F('W-R1', LIBMPF, 'dps_to_prec', 'def dps_to_prec', 'setting dps = %d gives a precision whose '
                   'digit count is smaller than %d' % (bad, bad), line=fm.funcs['dps_to_prec'].lineno))


def check_wiring(run, ix):
    m = ix.module(CTXMP)
    for prop, want in (('_repr_digits', 'repr_dps(ctx._prec)'), ('_str_digits', 'ctx._dps')):
        f = m.funcs.get('MPContext.%s' % prop)
        if f is None:
            raise AnalysisError('MPContext.%s vanished' % prop)
        rets = [norm(r.value) for r in _walk_own(f.node) if isinstance(r, ast.Return)]
        if 'property' in ' '.join(f.decorators) and rets == [want]:
            run.ok('W-R2', '%s is a property computing %s on every use' % (prop, want))
        else:
            run.fail(F('W-R2', CTXMP, f.qualname, f.node, 'the digit count is not recomputed from the current '
                       'precision on every use (expected a property returning %s)' % want))
    # nobody assigns these attributes (a cached value would go stale on a precision change)
    for mm in ix.modules.values():
        for x in ast.walk(mm.tree):
            if isinstance(x, ast.Attribute) and isinstance(x.ctx, ast.Store) and x.attr in ('_repr_digits', '_str_digits'):
                run.fail(F('W-R2', mm.relpath, '<module>', x, 'the digit count is stored as an attribute: it goes '
                           'stale when the precision changes'))
    mp = ix.module(CTXPY)
    want = {'_mpf.__repr__': "to_str(s._mpf_, s.context._repr_digits)",
            '_mpf.__str__': "to_str(s._mpf_, s.context._str_digits)",
            '_mpc.__str__': "mpc_to_str(s._mpc_, s.context._str_digits)"}
    for qn, call in want.items():
        f = mp.funcs.get(qn)
        if f is None:
            raise AnalysisError('%s vanished' % qn)
        calls = [norm(c) for c in ast.walk(f.node) if isinstance(c, ast.Call) and
                 norm(c.func) in ('to_str', 'mpc_to_str')]
        if calls == [call]:
            run.ok('W-R2', '%s: %s' % (qn, call))
        else:
            run.fail(F('W-R2', CTXPY, qn, f.node, 'printing does not use the context\'s current digit count '
                       '(found %s)' % calls))
    f = mp.funcs.get('_mpc.__repr__')
    src = ' '.join(norm(s) for s in f.node.body)
    defs = dict((x.targets[0].id, norm(x.value)) for x in _walk_own(f.node)
                if isinstance(x, ast.Assign) and isinstance(x.targets[0], ast.Name))
    order_ok = False
    for r in _walk_own(f.node):
        if isinstance(r, ast.Return) and isinstance(r.value, ast.BinOp) and isinstance(r.value.op, ast.Mod) and \
                isinstance(r.value.right, ast.Tuple) and len(r.value.right.elts) == 3:
            a, b = [defs.get(norm(e), norm(e)) for e in r.value.right.elts[1:]]
            order_ok = ('.real' in a and 'repr(' in a and '.imag' not in a and
                        '.imag' in b and 'repr(' in b and '.real' not in b)
    if order_ok and 'real=%s, imag=%s' in src:
        run.ok('W-R2', '_mpc.__repr__ is composed of the reprs of its parts in (real, imag) order')
    else:
        run.fail(F('W-R2', CTXPY, '_mpc.__repr__', f.node, 'the repr of a complex number is not built from the '
                   'round-trip reprs of real and imaginary part in that order'))
    # the repr literal form mpf('...') is what the constructor parses
    f = mp.funcs.get('_mpf.__repr__')
    if any(isinstance(c, ast.Constant) and c.value == "mpf('%s')" for c in ast.walk(f.node)):
        run.ok('W-R2', "repr form is mpf('<digits>')")
    else:
        run.fail(F('W-R2', CTXPY, '_mpf.__repr__', f.node, "repr is not of the form mpf('<digits>')"))


def check_specials(run, ix):
    m = ix.module(LIBMPF)
    f = ix.func(LIBMPF, 'to_str')
    written = {}
    for st in _walk_own(f.node):
        if isinstance(st, ast.If) and isinstance(st.test, ast.Compare) and len(st.body) == 1 and \
                isinstance(st.body[0], ast.Return) and isinstance(st.body[0].value, ast.Constant):
            written[norm(st.test.comparators[0])] = st.body[0].value.value
    table = None
    for name, value, st, g in m.toplevel_assigns:
        if name == 'special_str' and isinstance(value, ast.Dict):
            table = dict((k.value, norm(v)) for k, v in zip(value.keys, value.values))
    if table is None:
        raise AnalysisError('special_str table vanished')
    for const, text in (('finf', '+inf'), ('fninf', '-inf'), ('fnan', 'nan')):
        if written.get(const) == text:
            run.ok('W-R3', 'to_str writes %s as %r' % (const, text))
        else:
            run.fail(F('W-R3', LIBMPF, 'to_str', 'if s == %s: return %r' % (const, written.get(const)),
                       '%s is printed as %r, expected %r' % (const, written.get(const), text), line=f.lineno))
        if table.get(text) == const:
            run.ok('W-R3', 'from_str reads %r back as %s' % (text, const))
        else:
            run.fail(F('W-R3', LIBMPF, '<module>', 'special_str[%r] = %s' % (text, table.get(text)),
                       'the literal %r written by to_str is parsed as %s, not as %s' % (text, table.get(text), const)))
    if table.get('inf') == 'finf':
        run.ok('W-R3', "'inf' is read as +inf")
    else:
        run.fail(F('W-R3', LIBMPF, '<module>', "special_str['inf']", "'inf' is not read as +inf"))
    # the table is consulted before numeric parsing, on the stripped lower-cased text
    g = ix.func(LIBMPF, 'from_str')
    first = [norm(s) for s in g.node.body if not (isinstance(s, ast.Expr) and isinstance(s.value, ast.Constant))][:2]
    if first and 'lower()' in first[0] and len(first) > 1 and first[1].startswith('if x in special_str'):
        run.ok('W-R3', 'from_str looks the literal up before numeric parsing')
    else:
        run.fail(F('W-R3', LIBMPF, 'from_str', first[0] if first else 'def from_str', 'special literals are not '
                   'looked up first on the normalised text'))


def check_rounding_step(run, ix):
    f = ix.func(LIBMPF, 'to_str')
    fn = f.node
    calls = [c for c in _walk_own(fn) if isinstance(c, ast.Call) and norm(c.func) == 'to_digits_exp']
    if len(calls) != 1:
        raise AnalysisError('to_str: to_digits_exp call not found')
    a = calls[0].args[1]
    k = None
    if isinstance(a, ast.BinOp) and isinstance(a.op, ast.Add) and norm(a.left) == 'dps' and isinstance(a.right, ast.Constant):
        k = a.right.value
    if k is not None and k >= 1:
        run.ok('W-R4', 'to_digits_exp is asked for dps+%d digits (guard digits for the decimal rounding)' % k)
    else:
        run.fail(F('W-R4', LIBMPF, 'to_str', calls[0], 'no guard digit is requested beyond dps: the decimal rounding '
                   'step has nothing to round on'))
    gate = [x for x in _walk_own(fn) if isinstance(x, ast.If) and 'digits[dps] in' in norm(x.test)]
    if len(gate) != 1:
        run.fail(F('W-R4', LIBMPF, 'to_str', 'if digits[dps] in "56789"', 'the decimal rounding step (round on the '
                   'first dropped digit) was not found', line=fn.lineno))
        return
    g = gate[0]
    t = g.test
    digs = [c.value for c in ast.walk(t) if isinstance(c, ast.Constant) and isinstance(c.value, str)]
    if digs and set(digs[0]) == set('56789'):
        run.ok('W-R4', 'rounds up exactly when the first dropped digit is 5..9')
    else:
        run.fail(F('W-R4', LIBMPF, 'to_str', g, 'the set of digits that round up is %r, not 5..9' % (digs[:1],)))
    body = [norm(s) for s in ast.walk(ast.Module(body=g.body, type_ignores=[])) if isinstance(s, ast.stmt)]
    if any(s.startswith("while i >= 0 and digits[i] == '9'") for s in body):
        run.ok('W-R4', 'carry propagates through trailing 9s')
    else:
        run.fail(F('W-R4', LIBMPF, 'to_str', g, 'the carry of the decimal rounding is not propagated through 9s'))
    inner = [x for x in ast.walk(ast.Module(body=g.body, type_ignores=[])) if isinstance(x, ast.If) and norm(x.test) == 'i >= 0']
    ok = False
    if inner:
        els = [norm(s) for s in inner[0].orelse]
        ok = 'exponent += 1' in els and any(s.startswith("digits = '1' + '0' *") for s in els)
    if ok:
        run.ok('W-R4', 'all-nines case: digits become 10..0 and the exponent is incremented')
    else:
        run.fail(F('W-R4', LIBMPF, 'to_str', inner[0] if inner else g, 'when every kept digit is 9 the result must '
                   'become 1 followed by zeros WITH the decimal exponent incremented'))
    # the else branch truncates to dps digits
    els = [norm(s) for s in g.orelse]
    if els == ['digits = digits[:dps]']:
        run.ok('W-R4', 'otherwise the guard digits are dropped')
    else:
        run.fail(F('W-R4', LIBMPF, 'to_str', g, 'without rounding up the digit string is not cut to dps digits (%s)' % els))


def run(run, ix, tier):
    run.explanation = (
        'Round trip needs enough digits, digit counts that follow the current precision, and agreeing literal '
        'forms for special values; nearest-decimal output needs the decimal rounding step of to_str to be intact.  '
        'The digit-count formula is evaluated from its syntax tree for all precisions 1..%d against Matula\'s '
        'bound; wiring, the special-value tables of writer and reader, and the shape of the rounding/carry step '
        'are checked structurally.  Digit generation itself (to_digits_exp) and from_str\'s rounding are '
        'numerical (C07 covers from_str).' % RANGE)
    run.assumptions = ['to_digits_exp returns correctly truncated digits (not decided)']
    run.trusted = ['the Formula evaluator in sa/checks/c08.py (int/float arithmetic as in CPython)']
    run.rule('W-R1', floor=2)
    run.rule('W-R2', floor=7)
    run.rule('W-R3', floor=8)
    run.rule('W-R4', floor=5)
    check_digit_count(run, ix)
    check_wiring(run, ix)
    check_specials(run, ix)
    check_rounding_step(run, ix)
