"""C03 -- integer powers are never rounded past the exact value.

Decides the structural clause (rule family B-R5 on mpf_pow_int):
  * the final rounding on every path uses the caller's mode at the requested
    precision (B-R1/B-R3 on the summary)
  * every truncation of the running product / square inside the binary
    exponentiation loop is directed: `X = X >> k` when rounds_down else
    `X = -((-X) >> k)`, with the same k, and nothing else shortens X
  * rounds_down = (rnd == round_nearest) or shifts_down[rnd][result_sign], with
    result_sign = sign & n, and the table has the directed semantics
  * negative exponents: the inner power uses reciprocal_rnd[rnd] and strictly
    more precision; the outer division uses the caller's mode and precision
  * the exact small-power path does not depend on the precision and its
    result is rounded once
  * the loop's working precision exceeds the target precision
Not decided: the ulp bounds themselves.
"""
import ast

from ..index import AnalysisError, norm
from ..prec_effect import _walk_own
from ..report import Finding
from ..round_flow import Aff, P
from .kernel_rules import kernel_obligations, check_mode_tables
from .c10 import get_round_engine

LIBMPF = 'mpmath/libmp/libmpf.py'


DIVS = {'mpf_div': 1, 'mpc_div': 1, 'mpf_rdiv_int': 1, 'mpc_reciprocal': 0}


def _same_mode_divisors(fn_node, modes):
    """(division call, inner call) pairs in which the divisor is computed by a call that is handed the
    caller's rounding mode unchanged while the division itself is rounded with that mode too"""
    out, ok = [], []
    for c in ast.walk(fn_node):
        if not (isinstance(c, ast.Call) and norm(c.func) in DIVS):
            continue
        pos = DIVS[norm(c.func)]
        if len(c.args) <= pos:
            continue
        outer = [norm(a) for a in c.args[pos + 1:]] + [norm(k.value) for k in c.keywords]
        if not set(outer) & modes:
            continue
        for inner in ast.walk(c.args[pos]):
            if not isinstance(inner, ast.Call):
                continue
            given = [a for a in list(inner.args) + [k.value for k in inner.keywords]]
            if any(isinstance(a, ast.Name) and a.id in modes for a in given):
                out.append((c, inner))
            elif any(isinstance(a, ast.Subscript) and norm(a.value) == 'reciprocal_rnd' and norm(a.slice) in modes
                     for a in given):
                ok.append((c, inner))
    return out, ok


def check_reciprocal_divisors(run, ix):
    """B-R13 (seed C03-9).  x**(-n) = 1 / x**n: when the quotient is rounded in the caller's directed mode,
    the divisor has to err to the *other* side, i.e. it is computed with reciprocal_rnd[rnd].  A divisor
    that is itself produced by a call receiving the caller's mode unchanged puts the inexact power on the
    wrong side, and the quotient then crosses the exact value.  Checked in every function of the power
    kernels (libmpf.py, libelefun.py, libmpc.py) that has a rounding-mode parameter; mpf_pow_int's own
    `inverse = mpf_pow_int(..., reciprocal_rnd[rnd])` (a named temporary) is B-R5's."""
    probe = ast.parse('def f(s, n, prec, rnd):\n    return mpf_div(fone, mpf_pow_int(s, n, prec+10, rnd), prec, rnd)')
    bad, _ = _same_mode_divisors(probe.body[0], {'rnd'})
    if len(bad) != 1:
        raise AnalysisError('B-R13: the built-in positive example is not matched')
    run.ok('B-R13', 'built-in positive example matched')
    n = 0
    for rel in ('mpmath/libmp/libmpf.py', 'mpmath/libmp/libelefun.py', 'mpmath/libmp/libmpc.py'):
        for f in ix.module(rel).funcs.values():
            modes = set(p for p in f.all_params() if p in ('rnd', 'rounding'))
            if not modes:
                continue
            bad, ok = _same_mode_divisors(f.node, modes)
            for c, inner in ok:
                n += 1
                run.ok('B-R13', '%s: `%s` is computed with the reciprocal mode' % (f.qualname, norm(inner, 70)))
            for c, inner in bad:
                n += 1
                run.fail(Finding('B-R13', rel, f.qualname, norm(c), 'the divisor `%s` is computed with the caller\'s '
                                 'mode unchanged and the quotient is rounded with it again: under a directed mode the '
                                 'result lies on the wrong side of the exact value (use reciprocal_rnd[rnd] for the '
                                 'divisor)' % norm(inner, 70), line=c.lineno))
    if n < 1:
        raise AnalysisError('B-R13: no division by a directed inner result found (mpf_pow sqrt branch vanished?)')


def run(run, ix, tier):
    run.explanation = (
        'Structural/data-flow rules on mpf_pow_int: caller\'s mode at every final '
        'rounding; all intermediate truncations in the exponentiation loop are directed '
        'by (mode, sign of the result); mode swap and extra precision for negative '
        'exponents; exact path independent of precision; mode tables correct as values.  '
        'These are the conditions under which a directed result cannot cross the exact '
        'value; the ulp bounds are not decided.')
    run.assumptions = ['mpf_div and normalize round correctly in the given mode (C02)']
    run.trusted = ['sa/round_flow.py']
    run.rule('B-R1', floor=1)
    run.rule('B-R3', floor=4)
    run.rule('B-R5', floor=7, desc='directed intermediates in mpf_pow_int')
    kernel_obligations(run, ix, ['mpf_pow_int'], single=False, rule_single=None)
    check_mode_tables(run, ix)
    # the operator x ** n hands the Python int itself to mpf_pow_int (an exponent converted with a
    # precision would be a different exponent)
    from .kernel_rules import check_exact_operand_conversion
    run.rule('B-R3x', floor=8, desc='int/float operands of the operators are converted exactly')
    check_exact_operand_conversion(run, ix, 'B-R3x')
    # S-R3: special bases (0, +-inf, nan) with exponents -3..3 (sa/checks/special_rules.py)
    from .special_rules import check_pow_int_specials
    run.rule('S-R3', floor=20, desc='mpf_pow_int on special bases')
    check_pow_int_specials(run, ix, 'S-R3')
    run.rule('B-R13', floor=2, desc='a directed divisor is computed with the reciprocal mode')
    check_reciprocal_divisors(run, ix)
    pw = [g for g in ix.generated if g.qualname == '_mpf.__pow__']
    if not pw:
        raise AnalysisError('generated _mpf.__pow__ not found')
    calls = [x for x in ast.walk(pw[0].node) if isinstance(x, ast.Call) and norm(x.func) == 'mpf_pow_int']
    if calls and all([norm(a) for a in c.args] == ['sval', 'other', 'prec', 'rounding'] for c in calls):
        run.ok('B-R3x', '_mpf.__pow__: mpf_pow_int(sval, other, prec, rounding) on the int itself')
    else:
        run.fail(Finding('B-R3x', 'mpmath/ctx_mp_python.py', '_mpf.__pow__', 'int branch of __pow__',
                         'an int exponent does not reach mpf_pow_int(sval, other, prec, rounding) unchanged: '
                         'integer powers are no longer computed by the directed integer-power kernel'))
    f = ix.func(LIBMPF, 'mpf_pow_int')
    sname, nname, pname, rname = f.params[:4]
    assigns = {}
    for x in _walk_own(f.node):
        if isinstance(x, ast.Assign) and len(x.targets) == 1 and isinstance(x.targets[0], ast.Name):
            assigns.setdefault(x.targets[0].id, []).append(x)

    def fail(site, why, line=None):
        run.fail(Finding('B-R5', LIBMPF, 'mpf_pow_int', site, why, line=line))

    # result_sign = sign & n
    rs = assigns.get('result_sign', [])
    if len(rs) == 1 and norm(rs[0].value) in ('sign & n', 'n & sign'):
        run.ok('B-R5', 'result_sign = sign & n')
    else:
        fail('result_sign = ...', 'sign of the result is not `sign & n` (odd powers of negative '
                                  'bases are negative)', rs[0].lineno if rs else f.lineno)
    # rounds_down
    rd = assigns.get('rounds_down', [])
    ok = False
    if len(rd) == 1 and isinstance(rd[0].value, ast.BoolOp) and isinstance(rd[0].value.op, ast.Or):
        parts = sorted(norm(v) for v in rd[0].value.values)
        ok = parts == sorted(['%s == round_nearest' % rname,
                              'shifts_down[%s][result_sign]' % rname])
    if ok:
        run.ok('B-R5', 'rounds_down = nearest or shifts_down[rnd][result_sign]')
    else:
        fail(norm(rd[0]) if rd else 'rounds_down', 'direction of intermediate truncations is not '
             'derived from shifts_down[rnd][result_sign] (or nearest)', rd[0].lineno if rd else f.lineno)
    # loop truncations
    loops = [x for x in _walk_own(f.node) if isinstance(x, ast.While)]
    if len(loops) != 1:
        raise AnalysisError('mpf_pow_int: exponentiation loop not found')
    loop = loops[0]
    directed = 0
    for x in ast.walk(loop):
        if isinstance(x, ast.Assign) and len(x.targets) == 1 and \
                isinstance(x.targets[0], ast.Name):
            v = x.targets[0].id
            shifts = [y for y in ast.walk(x.value) if isinstance(y, ast.BinOp) and
                      isinstance(y.op, ast.RShift) and
                      any(isinstance(z, ast.Name) and z.id == v for z in ast.walk(y.left))]
            if not shifts:
                continue
            par = x._parent
            if isinstance(par, ast.If) and norm(par.test) == 'rounds_down':
                k = norm(shifts[0].right)
                down = [norm(s) for s in par.body]
                up = [norm(s) for s in par.orelse]
                if down == ['%s = %s >> %s' % (v, v, k)] and up == ['%s = -(-%s >> %s)' % (v, v, k)]:
                    if x in par.body:
                        directed += 1
                        run.ok('B-R5', 'loop: %s truncated by %s in the direction of the mode' % (v, k))
                else:
                    fail(norm(par), 'the two arms of the directed truncation of %s are not '
                         '`%s >> k` / `-((-%s) >> k)` with the same k' % (v, v, v), par.lineno)
            else:
                fail(norm(x), 'intermediate %s is shortened without regard to the rounding '
                     'direction (a directed result may end up on the wrong side of x**n)' % v,
                     x.lineno)
    if directed < 2:
        fail('while loop', 'expected directed truncation of both the running product and the '
             'running square, found %d' % directed, loop.lineno)
    # working precision of the loop
    wpa = assigns.get('workprec', [])
    if len(wpa) == 1:
        names = [y.id for y in ast.walk(wpa[0].value) if isinstance(y, ast.Name)]
        t = norm(wpa[0].value)
        if pname in names and t.startswith(pname + ' +') and '-' not in t:
            run.ok('B-R5', 'workprec = %s (more than the target precision)' % t)
        else:
            fail(norm(wpa[0]), 'loop working precision is not prec + (positive guard bits)', wpa[0].lineno)
    else:
        fail('workprec', 'working precision of the loop not found', f.lineno)
    # negative exponents
    eng = get_round_engine(ix)
    neg = [x for x in _walk_own(f.node) if isinstance(x, ast.If) and norm(x.test) == '%s < 0' % nname]
    if len(neg) != 1:
        fail('if n < 0', 'negative-exponent branch not found', f.lineno)
    else:
        b = neg[0]
        inner = [y for y in ast.walk(b) if isinstance(y, ast.Call) and norm(y.func) == 'mpf_pow_int']
        outer = [y for y in ast.walk(b) if isinstance(y, ast.Call) and norm(y.func) == 'mpf_div']
        if len(inner) != 1 or len(outer) != 1:
            fail(norm(b), 'negative powers are not computed as 1 / x**(-n)', b.lineno)
        else:
            ia = [norm(a) for a in inner[0].args]
            oa = [norm(a) for a in outer[0].args]
            problems = []
            if ia[3:4] != ['reciprocal_rnd[%s]' % rname]:
                problems.append('inner power is not rounded with reciprocal_rnd[rnd] (its error '
                                'would push the reciprocal past the exact value)')
            pe = inner[0].args[2] if len(inner[0].args) > 2 else None
            extra = None
            if isinstance(pe, ast.BinOp) and isinstance(pe.op, ast.Add) and norm(pe.left) == pname \
                    and isinstance(pe.right, ast.Constant):
                extra = pe.right.value
            if extra is None or extra <= 0:
                problems.append('inner power is not computed with extra precision (prec + k, k > 0)')
            if oa[2:4] != [pname, rname]:
                problems.append('final division does not use the caller\'s (prec, rnd)')
            if ia[1:2] != ['-%s' % nname]:
                problems.append('inner exponent is not -n')
            if problems:
                fail(norm(b), '; '.join(problems), b.lineno)
            else:
                run.ok('B-R5', 'n < 0: 1 / pow(x, -n, prec+%s, reciprocal_rnd[rnd]) rounded with rnd' % extra)
    # exact small-power path
    exact = [x for x in _walk_own(f.node) if isinstance(x, ast.If) and
             any(isinstance(y, ast.AugAssign) and isinstance(y.op, ast.Pow) for y in x.body)]
    if len(exact) != 1:
        fail('exact path', 'exact small-power path (man **= n) not found', f.lineno)
    else:
        e = exact[0]
        names = set(y.id for y in ast.walk(e.test) if isinstance(y, ast.Name))
        rets = [y for y in e.body if isinstance(y, ast.Return)]
        problems = []
        if pname in names or 'workprec' in names:
            problems.append('the exact path is selected depending on the precision: exact powers '
                            'that need more than prec bits would be rounded twice')
        if not rets or not norm(rets[0].value).startswith('normalize') or \
                [norm(a) for a in rets[0].value.args[-2:]] != [pname, rname]:
            problems.append('exact power is not rounded once with (prec, rnd)')
        if problems:
            fail(norm(e), '; '.join(problems), e.lineno)
        else:
            run.ok('B-R5', 'exact path `%s` rounds the exact power once' % norm(e.test))
