"""C14 -- real interval operations contain every possible exact result.

Decides the structural clause (Engine C): every endpoint that an interval
function produces is rounded OUTWARD -- lower endpoints with round_floor,
upper endpoints with round_ceiling (or is exact / an input endpoint / a
constant) -- on every path; rounded intermediates sit in positions whose
monotonicity carries their bound the right way; intervals handed from one
interval function to another are typed as enclosures; the real kernels called
with a directed mode honour it at their final rounding (this rule found the
inverted iv.loggamma); the outward perturbation used by cos/sin has the right
shape; conversions into intervals round each endpoint outward.
Not decided: that the right corner / monotonicity region is selected, and the
rigour of the transcendental kernels inside their guard bits.
"""
import ast

from ..index import AnalysisError, norm
from ..prec_effect import _walk_own
from ..report import Finding
from ..iv_dir import LIBMPI, interval_problems, side_problems, _m
from .. import tables
from .c10 import get_round_engine
from .kernel_rules import iter_R
from . import iv_rules

CTXIV = 'mpmath/ctx_iv.py'


def run(run, ix, tier):
    run.explanation = (
        'Rounding-direction typing of intervals on top of the rounding-flow analysis: a '
        'value carries the mode term of the step that produced it; lower endpoints must be '
        'exact or floor-rounded, upper endpoints exact or ceiling-rounded, at every return, '
        'at every hand-over between interval functions and at every directed use of a '
        'rounded intermediate (monotonicity table).  Real kernels used with a directed mode '
        'are checked to honour it on every path.  Corner/monotonicity-region selection and '
        'kernel accuracy inside the guard bits are not decided.')
    run.assumptions = ['transcendental kernels are accurate to well below one ulp of the '
                       'requested precision before their final directed rounding',
                       'the monotonicity table in sa/iv_dir.py']
    run.trusted = ['sa/round_flow.py', 'sa/iv_dir.py MONO table', 'tables.C_OPERAND_EXEMPT']
    run.rule('C-R1', floor=45, desc='returned intervals are outward rounded')
    run.rule('C-R2', floor=3, desc='rounded operands in monotone positions')
    run.rule('C-R3', floor=25, desc='intervals passed between interval functions')
    run.rule('C-R4', floor=6, desc='outward perturbation idiom of cos/sin')
    run.rule('C-R5', floor=10, desc='directed kernels honour the mode')
    run.rule('C-R6', floor=6, desc='conversions into intervals')
    run.rule('C-R5g', floor=10, desc='directed kernels: no weakly guarded undirected intermediate at the final rounding')
    common(run, ix, complex_=False)
    check_finalize(run, ix)
    check_directed_kernels(run, ix)
    check_conversions(run, ix)
    run.rule('C-R13', floor=12, desc='non-audited interval functions compose interval operations only')
    iv_rules.check_composition(run, ix, False)
    # C-R14: endpoints taken directly from transcendental kernels
    check_transcendental_endpoints(run, ix)
    check_percent_halfwidth(run, ix)
    check_outward_helper(run, ix)
    check_atan2_corners(run, ix)
    check_gamma_tiny_argument(run, ix)
    # literal forms (rules of the C07 module, reported here as C-R6)
    from ..report import SubRun
    from . import c07
    c07.check_shared_prefix_sign(SubRun(run, keep=('C-R7',), rename=lambda r: 'C-R6'), ix)
    # C-R10: direction of the x + eps shortcuts of the real kernels
    from ..perturb import check_perturbations
    run.rule('C-R10', floor=15, desc='mpf_perturb sites: sign of the neglected term')
    check_perturbations(run, ix, 'C-R10')
    # C-R9: a packed interval is not used after an unpacked endpoint was recomputed
    from ..stale_pack import check_stale_packs
    run.rule('C-R9', floor=30, desc='packed interval and unpacked endpoints stay in sync')
    check_stale_packs(run, ix, 'C-R9', prefix='mpi_')
    check_turning_point_brackets(run, ix)
    check_near_one_guard(run, ix)
    # C-R16: zero and infinite endpoints through + - * / (class-level enclosure, sa/checks/special_rules.py)
    from .special_rules import check_interval_endpoints
    run.rule('C-R16', floor=500, desc='interval + - * / on every combination of endpoint classes (0, +-inf)')
    check_interval_endpoints(run, ix, 'C-R16')


def common(run, ix, complex_):
    eng = get_round_engine(ix)
    fs = iv_rules.functions(ix, complex_)
    # ---- C-R1 ----------------------------------------------------------------
    for f in fs:
        if f.name in ('mpi_eq', 'mpi_ne', 'mpi_lt', 'mpi_le', 'mpi_gt', 'mpi_ge', 'mpi_overlap',
                      'mpi_str', 'mpi_to_str', 'mpi_delta', 'mpi_mid', 'mpi_from_str',
                      'mpi_from_str_a_b'):
            continue
        pname = 'prec' if 'prec' in f.params else None
        if pname is None:
            continue
        const_sets = [frozenset()]
        if 'type' in f.params:
            const_sets = [frozenset([('type', t)]) for t in tables.C_TYPE_VALUES]
        pairish = f.name in tables.C_PAIR_RETURNING
        as_complex = (complex_ and f.name not in tables.C_REAL_VALUED) or pairish
        for consts in const_sets:
            ka = eng.analyse_detail(f, pname, consts)
            per = {}
            for node, classes, w in ka.returns:
                per.setdefault(id(node), [node, set()])[1].update(classes)
            for k, (node, classes) in sorted(per.items(), key=lambda kv: kv[1][0].lineno):
                if node.value is None:
                    continue
                probs = []
                for c in classes:
                    probs.extend(interval_problems(c, as_complex))
                tag = '%s%s line %d' % (f.qualname, (' [type=%s]' % dict(consts)['type']) if consts else '',
                                        node.lineno)
                if not probs:
                    run.ok('C-R1', '%s `%s`' % (tag, norm(node, 50)))
                else:
                    txt = '; '.join('%s %s' % (what, ', '.join(pr)) for what, pr in probs)
                    run.fail(Finding('C-R1', LIBMPI, f.qualname, norm(node),
                                     'returned %s is not typed as an enclosure%s: %s'
                                     % ('rectangle' if as_complex else 'interval',
                                        (' for type=%s' % dict(consts)['type']) if consts else '',
                                        txt[:400]), line=node.lineno))
    # ---- C-R2 / C-R3 -----------------------------------------------------------
    check_calls(run, ix, complex_)


def _all_finalize(v):
    """((finalize(..), finalize(..)), (finalize(..), finalize(..))) or names bound to such"""
    return isinstance(v, ast.Tuple) and all(isinstance(e, ast.Tuple) for e in v.elts)


def check_calls(run, ix, complex_):
    from ..iv_dir import MONO, OPPOSITE, is_interval_func, operand_modes
    eng = get_round_engine(ix)
    for f in iv_rules.functions(ix, complex_):
        pname = 'prec' if 'prec' in f.params else None
        const_sets = [frozenset()]
        if 'type' in f.params:
            const_sets = [frozenset([('type', t)]) for t in tables.C_TYPE_VALUES]
        reported = set()
        for consts in const_sets:
            ka = eng.analyse_detail(f, pname, consts)
            seen = {}
            for call, g, amode, opvals, w in ka.calls:
                ent = seen.setdefault(id(call), [call, g, amode, {}])
                for p_, v in opvals:
                    ent[3].setdefault(p_, []).append(v)
            for key, (call, g, amode, ops) in sorted(seen.items(), key=lambda kv: kv[1][0].lineno):
                st = call
                while not isinstance(st, ast.stmt):
                    st = st._parent
                if is_interval_func(g.name):
                    cplx = g.name.startswith('mpci_')
                    for i, p_ in enumerate(g.params):
                        if p_ not in ops or p_ in ('prec', 'n', 'type', 'percent'):
                            continue
                        classes = set()
                        for v in ops[p_]:
                            if v[0] == 'mpf':
                                classes |= v[1]
                        pairs = [c for c in classes if c[0] == 'P']
                        if not pairs:
                            continue
                        probs = []
                        for c in pairs:
                            # nested pair -> rectangle, flat pair -> interval
                            nested = any(k[0] == 'P' for k in c[1] | c[2])
                            probs.extend(interval_problems(c, nested))
                        rk = ('C-R3', id(call), p_)
                        if probs:
                            if rk in reported:
                                continue
                            reported.add(rk)
                            txt = '; '.join('%s %s' % (what, ', '.join(pr)) for what, pr in probs)
                            run.fail(Finding('C-R3', LIBMPI, f.qualname, norm(st),
                                             'argument `%s` of %s is not a valid enclosure: %s'
                                             % (p_, g.name, txt[:300]), line=st.lineno))
                        elif rk not in reported:
                            reported.add(rk)
                            run.ok('C-R3', '%s: %s(%s=...)' % (f.qualname, g.name, p_)
                                   if len(reported) < 6 else None)
                    continue
                if amode not in ('f', 'c'):
                    continue
                mono = MONO.get(g.name)
                mpfparams = [p_ for p_ in g.params if p_ in ops and p_ not in ('prec', 'rnd')]
                for i, p_ in enumerate(mpfparams):
                    modes = set()
                    for v in ops[p_]:
                        modes |= operand_modes(v)
                    if not modes:
                        continue
                    rk = ('C-R2', id(call), p_)
                    if rk in reported:
                        continue
                    reported.add(rk)
                    kind = mono[i] if mono and i < len(mono) else '?'
                    need = amode if kind == '+' else (OPPOSITE[amode] if kind == '-' else None)
                    bad = [m for m in modes if need is None or m != need]
                    if bad and need is None and (f.name, g.name) in tables.C_OPERAND_EXEMPT:
                        run.ok('C-R2', '%s: %s (exempt: %s)' % (f.qualname, norm(call, 50),
                                                               tables.C_OPERAND_EXEMPT[(f.name, g.name)][:60]))
                        continue
                    if bad:
                        why = ('operand `%s` is itself a rounded value (%s) but %s is not monotone in '
                               'it / its sign is unknown: the direction of the bound is lost'
                               % (p_, ', '.join(_m(m) for m in sorted(modes)), g.name)) if need is None else \
                              ('operand `%s` of the %s-rounded %s was rounded with %s; this position '
                               'needs a value rounded with %s'
                               % (p_, _m(amode), g.name, ', '.join(_m(m) for m in sorted(bad)), _m(need)))
                        run.fail(Finding('C-R2', LIBMPI, f.qualname, norm(st), why, line=st.lineno))
                    else:
                        run.ok('C-R2', '%s: %s' % (f.qualname, norm(call, 60)))


# ---------------------------------------------------------------------------
def check_finalize(run, ix):
    """mpi_cos_sin: v -> v * (1 +- 2^(10-wp)) rounded with `rounding`, the factor
    chosen so that the magnitude grows exactly when rounding moves away from
    zero for the sign of v; applied with floor to the minima, ceiling to the maxima"""
    f = ix.func(LIBMPI, 'mpi_cos_sin')
    fin = None
    for nf in f.nested:
        if nf.name == 'finalize':
            fin = nf
    if fin is None:
        raise AnalysisError('mpi_cos_sin.finalize vanished')
    v, rounding = fin.params[:2]
    # more / less
    defs = {}
    for x in _walk_own(f.node):
        if isinstance(x, ast.Assign) and isinstance(x.targets[0], ast.Name) and \
                x.targets[0].id in ('more', 'less'):
            defs[x.targets[0].id] = x
    ok = True
    for name, op in (('more', ast.Add), ('less', ast.Sub)):
        d = defs.get(name)
        good = False
        if d is not None and isinstance(d.value, ast.Call) and norm(d.value.func) == 'from_man_exp':
            a = d.value.args
            if len(a) == 2 and isinstance(a[0], ast.BinOp) and isinstance(a[0].op, op) and \
                    norm(a[0].left) == 'MPZ_ONE << wp' and norm(a[0].right).startswith('MPZ_ONE <<') \
                    and norm(a[1]) == '-wp':
                good = True
        if good:
            run.ok('C-R4', '%s = 1 %s 2^(k-wp), exact' % (name, '+' if op is ast.Add else '-'))
        else:
            ok = False
            run.fail(Finding('C-R4', LIBMPI, 'mpi_cos_sin', norm(d) if d is not None else name,
                             'perturbation factor `%s` is not 1 %s 2^(k-wp)' % (name, '+' if op is ast.Add else '-'),
                             line=getattr(d, 'lineno', f.lineno)))
    # selection: truth table over sign x direction
    sel = [x for x in _walk_own(fin.node) if isinstance(x, ast.If) and
           any(norm(y).startswith('p = ') for y in x.body)]
    chosen = None
    if sel:
        s0 = sel[0]
        body = [norm(y) for y in s0.body]
        orelse = [norm(y) for y in s0.orelse]
        if body == ['p = more'] and orelse == ['p = less']:
            chosen = (s0.test, True)
        elif body == ['p = less'] and orelse == ['p = more']:
            chosen = (s0.test, False)
    if chosen is None:
        run.fail(Finding('C-R4', LIBMPI, fin.qualname, 'selection of the perturbation factor',
                         'no two-armed selection between more and less', line=fin.lineno))
    else:
        test, more_if_true = chosen
        bad = []
        for sign in (0, 1):
            for rnd in ('round_floor', 'round_ceiling'):
                val = _eval_sel(test, v, rounding, sign, rnd)
                if val is None:
                    raise AnalysisError('finalize: selection condition not modelled: %s' % norm(test))
                picks_more = (val == more_if_true)
                # magnitude must grow iff rounding is away from zero for this sign
                want_more = (sign == 1 and rnd == 'round_floor') or (sign == 0 and rnd == 'round_ceiling')
                if picks_more != want_more:
                    bad.append('sign=%d, %s' % (sign, rnd))
        if bad:
            run.fail(Finding('C-R4', LIBMPI, fin.qualname, norm(sel[0]),
                             'perturbation goes inward for: %s' % '; '.join(bad), line=sel[0].lineno))
        else:
            run.ok('C-R4', 'factor > 1 exactly when the rounding direction points away from zero')
    # directed multiply with the same mode
    mul = [x for x in _walk_own(fin.node) if isinstance(x, ast.Call) and norm(x.func) == 'mpf_mul']
    if len(mul) == 1 and [norm(a) for a in mul[0].args] == [v, 'p', 'prec', rounding]:
        run.ok('C-R4', 'v = mpf_mul(v, p, prec, rounding)')
    else:
        run.fail(Finding('C-R4', LIBMPI, fin.qualname, 'mpf_mul', 'perturbed value is not rounded '
                         'with the requested direction at the target precision', line=fin.lineno))
    # uses
    want = {'ca': 'round_floor', 'cb': 'round_ceiling', 'sa': 'round_floor', 'sb': 'round_ceiling'}
    got = {}
    for x in _walk_own(f.node):
        if isinstance(x, ast.Assign) and isinstance(x.value, ast.Call) and \
                norm(x.value.func) == 'finalize' and isinstance(x.targets[0], ast.Name):
            a = x.value.args
            if norm(a[0]) == x.targets[0].id:
                got[x.targets[0].id] = norm(a[1])
    if got == want:
        run.ok('C-R4', 'minima finalized with floor, maxima with ceiling')
    else:
        run.fail(Finding('C-R4', LIBMPI, 'mpi_cos_sin', 'finalize(...) calls',
                         'directions of the four bounds are %s, expected %s' % (got, want), line=f.lineno))
    last = [x for x in _walk_own(f.node) if isinstance(x, ast.Return)]
    last = sorted(last, key=lambda r: r.lineno)[-1]
    if norm(last.value) == '((ca, cb), (sa, sb))':
        run.ok('C-R4', 'returns (cos [ca, cb], sin [sa, sb])')
    else:
        run.fail(Finding('C-R4', LIBMPI, 'mpi_cos_sin', norm(last), 'bounds returned in the wrong '
                         'places', line=last.lineno))


def _eval_sel(test, v, rounding, sign, rnd):
    """evaluate `bool(v[0]) == (rounding == round_floor)`-like conditions"""
    def ev(e):
        if isinstance(e, ast.Call) and norm(e.func) == 'bool' and len(e.args) == 1:
            x = ev(e.args[0])
            return None if x is None else bool(x)
        if isinstance(e, ast.Subscript) and norm(e.value) == v and norm(e.slice) == '0':
            return sign
        if isinstance(e, ast.Name):
            if e.id == rounding:
                return rnd
            if e.id in ('round_floor', 'round_ceiling'):
                return e.id
            return None
        if isinstance(e, ast.Compare) and len(e.ops) == 1:
            a, b = ev(e.left), ev(e.comparators[0])
            if a is None or b is None:
                return None
            if isinstance(e.ops[0], ast.Eq):
                return a == b
            if isinstance(e.ops[0], ast.NotEq):
                return a != b
            return None
        if isinstance(e, ast.UnaryOp) and isinstance(e.op, ast.Not):
            x = ev(e.operand)
            return None if x is None else (not x)
        if isinstance(e, ast.BoolOp):
            vals = [ev(x) for x in e.values]
            if any(x is None for x in vals):
                return None
            return all(vals) if isinstance(e.op, ast.And) else any(vals)
        return None
    return ev(test)


def check_directed_kernels(run, ix, callers=('mpi_',)):
    """every real kernel that the interval layer calls with an explicit
    round_floor/round_ceiling honours the caller's mode at its final rounding
    on every path (mode term == caller's).  `callers`: name prefixes of the interval functions whose calls count
    (C14: the real interval functions; C15: the rectangle functions)"""
    eng = get_round_engine(ix)
    m = ix.module(LIBMPI)
    directed = {}
    for f in m.funcs.values():
        top = f
        while top.parent is not None:
            top = top.parent
        if not top.name.startswith(tuple(callers)):
            continue
        pname = 'prec' if 'prec' in f.params else None
        ka = eng.analyse_detail(f, pname)
        for call, g, amode, opvals, w in ka.calls:
            if amode in ('f', 'c') and not g.name.startswith(('mpi_', 'mpci_')):
                actual = {}
                for i, a in enumerate(call.args):
                    if i < len(g.params) and not isinstance(a, ast.Starred):
                        actual[g.params[i]] = a
                for k in call.keywords:
                    if k.arg:
                        actual[k.arg] = k.value
                consts = ka.const_args(g, actual, w)
                directed.setdefault((g, consts), set()).add(f.qualname)
    from .kernel_rules import find_return, bad_mode
    for (g, consts), users in sorted(directed.items(), key=lambda kv: (kv[0][0].qualname, sorted(kv[0][1], key=str))):
        gp = 'prec' if 'prec' in g.params else None
        if gp is None:
            continue
        for ret, inter, k in weakly_guarded_finals(g):
            run.fail(Finding('C-R5g', g.file, g.qualname, norm(ret),
                             'the directed final rounding is applied to `%s`, an inexact intermediate with only %d '
                             'guard bits that was itself rounded toward zero: with probability 2**-%d it fits in '
                             'prec bits and is returned unchanged on the wrong side of the exact value (used by %s)'
                             % (norm(inter, 60), k, k, ', '.join(sorted(users)[:3])), line=ret.lineno))
        run.ok('C-R5g')
        s = eng.summary(g, gp, consts)
        bad = [c for c in s if bad_mode(c)]
        if not bad:
            run.ok('C-R5', '%s %s honours the directed mode (used by %s)'
                   % (g.qualname, dict(consts), ', '.join(sorted(users)[:3])))
            continue
        b = find_return(eng, g, gp, consts, bad_mode) or (g, g.node, bad)
        h, node, cls = b
        modes = sorted(set(r[2] for c in cls for r in iter_R(c) if r[2] != 'v'))
        run.fail(Finding('C-R5', h.file, h.qualname, norm(node),
                         'a kernel used for interval endpoints does not round in the requested '
                         'direction on this path (mode term %s): a floor request can yield a value '
                         'above the exact one; used by %s'
                         % (', '.join(modes), ', '.join(sorted(users)[:4])), line=node.lineno))


GUARD_MIN = 10
EXACT_OR_DIRECTED_OK = ('mpf_neg', 'mpf_abs', 'mpf_shift', 'mpf_pi', 'mpf_ln2', 'mpf_ln10', 'mpf_e', 'mpf_euler',
                        'mpf_phi', 'mpf_degree', 'mpf_catalan')


def weakly_guarded_finals(g):
    """[(return node, intermediate call, k)]: the value returned through a final rounding in the caller's mode
    is an inexact kernel result computed at prec+k with 0 < k < GUARD_MIN and WITHOUT a rounding direction
    (default: toward zero).  Whenever that intermediate happens to fit in prec bits (probability 2**-k) the
    directed final rounding returns it unchanged although it lies on the wrong side of the exact value."""
    if 'prec' not in g.params or 'rnd' not in g.params or not isinstance(g.node, ast.FunctionDef):
        return []
    defs = {}
    for x in _walk_own(g.node):
        if isinstance(x, ast.Assign) and len(x.targets) == 1 and isinstance(x.targets[0], ast.Name):
            defs.setdefault(x.targets[0].id, []).append(x.value)

    def aff(e):
        if isinstance(e, ast.Name):
            return (e.id, 0)
        if isinstance(e, ast.BinOp) and isinstance(e.op, (ast.Add, ast.Sub)) and isinstance(e.left, ast.Name) and \
                isinstance(e.right, ast.Constant) and isinstance(e.right.value, int):
            return (e.left.id, e.right.value if isinstance(e.op, ast.Add) else -e.right.value)
        return None
    wp = {}
    for k, v in defs.items():
        if len(v) == 1:
            a = aff(v[0])
            if a and a[0] == 'prec':
                wp[k] = a[1]

    def guard_of(call):
        for a in call.args[1:]:
            p = aff(a)
            if p:
                if p[0] == 'prec':
                    return p[1]
                if p[0] in wp:
                    return wp[p[0]] + p[1]
        return None

    def directed(call):
        return any('rnd' in norm(a) for a in call.args[1:]) or any('rnd' in norm(k.value) for k in call.keywords)
    out = []
    for x in _walk_own(g.node):
        if isinstance(x, ast.Return) and isinstance(x.value, ast.Call) and \
                norm(x.value.func) in ('mpf_pos', 'mpf_add', 'mpf_sub', 'mpf_mul', 'mpf_div', 'mpf_shift') and \
                any(norm(a) == 'rnd' for a in x.value.args):
            for a in x.value.args:
                srcs = []
                if isinstance(a, ast.Name) and len(defs.get(a.id, [])) == 1:
                    srcs = [defs[a.id][0]]
                elif isinstance(a, ast.Call):
                    srcs = [a]
                for s_ in srcs:
                    if isinstance(s_, ast.Call) and isinstance(s_.func, ast.Name) and \
                            s_.func.id.startswith(('mpf_', 'mpc_')) and s_.func.id not in EXACT_OR_DIRECTED_OK:
                        k = guard_of(s_)
                        if k is not None and 0 < k < GUARD_MIN and not directed(s_):
                            out.append((x, s_, k))
    return out


TRANSCENDENTAL = ('mpf_exp', 'mpf_log', 'mpf_atan', 'mpf_atan2', 'mpf_gamma', 'mpf_rgamma', 'mpf_loggamma',
                  'mpf_factorial', 'mpf_pow', 'mpf_cosh_sinh', 'mpf_cos_sin', 'mpf_cos', 'mpf_sin', 'mpf_tan')


def check_transcendental_endpoints(run, ix):
    """C-R14: the correctly rounded kernels (add, sub, mul, div, sqrt, conversions) return the floor /
    ceiling of the EXACT result, so an endpoint taken from them is a bound.  The transcendental
    kernels round an APPROXIMATION (computed with 14-30 guard bits from an argument truncated to the
    working precision) in the requested direction: whenever the approximation is itself
    representable, or the shortcut for extreme arguments is not a bound, floor and ceiling are on
    the wrong side.  An interval function that takes an endpoint straight from such a kernel, without
    widening it outward by the kernel's error (as mpi_cos_sin.finalize does), is not rigorous.  Each
    (interval function, kernel) pair is one finding; on the pinned tree they are all genuine (inputs
    in known_findings.json) and not repaired (every kernel would need an error bound)."""
    run.rule('C-R14', floor=5, desc='endpoints taken straight from approximate (transcendental) kernels')
    m = ix.module(LIBMPI)
    for f in sorted(m.funcs.values(), key=lambda g: g.lineno):
        if f.parent is not None or not f.name.startswith(('mpi_', 'mpci_')):
            continue
        kernels = {}
        for x in _walk_own(f.node):
            if isinstance(x, ast.Call) and isinstance(x.func, ast.Name) and x.func.id in TRANSCENDENTAL and \
                    any(norm(a) in ('round_floor', 'round_ceiling') for a in x.args):
                kernels.setdefault(x.func.id, x)
            if isinstance(x, ast.Call) and isinstance(x.func, ast.Name) and x.func.id == 'mpf_outward' and x.args \
                    and isinstance(x.args[0], ast.Name) and x.args[0].id in TRANSCENDENTAL:
                run.ok('C-R14', '%s: %s through mpf_outward (moved outward before the directed rounding)'
                       % (f.name, x.args[0].id))
        if not kernels:
            continue
        widened = any(nf.name == 'finalize' for nf in f.nested)
        for k, call in sorted(kernels.items()):
            if widened:
                run.ok('C-R14', '%s: %s results are widened outward (finalize)' % (f.name, k))
            else:
                run.fail(Finding('C-R14', LIBMPI, f.name, 'endpoints from %s' % k,
                                 'endpoints are taken straight from %s(..., round_floor/round_ceiling): that kernel '
                                 'rounds an approximation in the requested direction, which is not a bound when the '
                                 'approximation is representable or a shortcut is used; no outward widening follows'
                                 % k, line=call.lineno))


def check_conversions(run, ix):
    f = ix.func(CTXIV, 'MPIntervalContext.convert')
    calls = [x for x in _walk_own(f.node) if isinstance(x, ast.Call) and norm(x.func) == 'convert_mpf_']
    got = {}
    for c in calls:
        st = c
        while not isinstance(st, ast.stmt):
            st = st._parent
        if isinstance(st, ast.Assign) and isinstance(st.targets[0], ast.Name):
            got[st.targets[0].id] = (norm(c.args[0]), norm(c.args[2]) if len(c.args) > 2 else None)
    if got.get('a') == ('a', 'round_floor') and got.get('b') == ('b', 'round_ceiling'):
        run.ok('C-R6', 'iv.convert: lower endpoint converted with floor, upper with ceiling')
    else:
        run.fail(Finding('C-R6', CTXIV, f.qualname, 'convert_mpf_ calls',
                         'endpoints are converted with %s' % got, line=f.lineno))
    # the pair handed to make_mpf is (a, b); nan widens to the whole line
    mk = [x for x in _walk_own(f.node) if isinstance(x, ast.Call) and norm(x.func).endswith('make_mpf')
          and isinstance(x.args[0], ast.Tuple)]
    if mk and norm(mk[-1].args[0]) == '(a, b)':
        run.ok('C-R6', 'iv.convert returns make_mpf((a, b))')
    else:
        run.fail(Finding('C-R6', CTXIV, f.qualname, 'make_mpf', 'converted endpoints are not '
                         'returned as (lower, upper)', line=f.lineno))
    g = ix.func(CTXIV, 'convert_mpf_')
    ok = True
    kinds = set()
    for x in _walk_own(g.node):
        if isinstance(x, ast.Call) and norm(x.func) in ('from_int', 'from_float', 'from_str', 'from_rational'):
            kinds.add(norm(x.func))
            a = [norm(t) for t in x.args]
            if norm(x.func) == 'from_rational':
                a = a[1:]
            if a[1:] != [g.params[1], g.params[2]]:
                ok = False
                run.fail(Finding('C-R6', CTXIV, g.qualname, norm(x),
                                 'conversion ignores the requested precision/direction', line=x.lineno))
            else:
                run.ok('C-R6', 'convert_mpf_: %s' % norm(x))
    # the kinds of input the statement lists: ints, floats, mpf values (taken over as they are), Fractions, strings
    missing = sorted({'from_int', 'from_float', 'from_str', 'from_rational'} - kinds)
    takes_mpf = any(isinstance(x, ast.Return) and norm(x.value).endswith('._mpf_') for x in _walk_own(g.node))
    if missing or not takes_mpf:
        run.fail(Finding('C-R6', CTXIV, g.qualname, 'raise NotImplementedError',
                         'convert_mpf_ has no directed conversion for %s: such inputs raise NotImplementedError '
                         'instead of giving an interval (iv.mpf(Fraction(1, 3)))'
                         % (', '.join(m[5:] + ' inputs' for m in missing) or 'mpf values'), line=g.lineno))
    else:
        run.ok('C-R6', 'convert_mpf_ converts ints, floats, strings, rationals (directed) and takes mpf values over')
    # rationals and constants
    q = ix.func(CTXIV, 'MPIntervalContext._mpq')
    modes = [norm(x.args[3]) for x in sorted(
        [y for y in _walk_own(q.node) if isinstance(y, ast.Call)
         and norm(y.func).endswith('from_rational') and len(y.args) > 3], key=lambda y: y.lineno)]
    ret = [x for x in _walk_own(q.node) if isinstance(x, ast.Return)]
    if modes == ['round_floor', 'round_ceiling'] and ret and norm(ret[0].value).endswith('make_mpf((a, b))'):
        run.ok('C-R6', 'iv._mpq: p/q rounded down and up')
    else:
        run.fail(Finding('C-R6', CTXIV, q.qualname, 'from_rational calls',
                         'fractions are not enclosed by (floor, ceiling) conversions: %s' % modes,
                         line=q.lineno))
    c = ix.func(CTXIV, 'ivmpf_constant._get_mpi_')
    src = [norm(x) for x in c.node.body]
    want = ['a = self._f(prec, round_floor)', 'b = self._f(prec, round_ceiling)', 'return (a, b)']
    if src[-3:] == want:
        run.ok('C-R6', 'interval constants: f(prec, floor), f(prec, ceiling)')
    else:
        run.fail(Finding('C-R6', CTXIV, c.qualname, 'def _get_mpi_',
                         'interval constant is not (f(prec, round_floor), f(prec, round_ceiling))',
                         line=c.lineno))



def check_turning_point_brackets(run, ix):
    """C-R17.  gamma has its positive minimum at x0 = 1.4616321449683623...; the code knows it only through a pair
    of constants gamma_min_a < x0 < gamma_min_b.  A branch that evaluates gamma at the two endpoints only (monotone
    shortcut) is sound when the WHOLE interval lies on one side of x0: "increasing" needs lower > gamma_min_b (the
    UPPER bracket constant), "decreasing" needs upper < gamma_min_a (the LOWER one).  With the constants swapped an
    interval that contains x0 but ends inside the bracket is treated as monotone and gamma(x0) is excluded."""
    rel = 'mpmath/libmp/libmpi.py'
    m = ix.module(rel)
    consts = {}
    for name, value, st, g in m.toplevel_assigns:
        if isinstance(value, ast.Call) and norm(value.func) == 'from_float' and value.args and \
                isinstance(value.args[0], ast.Constant):
            consts[name] = value.args[0].value
    pairs = [(n[:-2], consts[n], consts[n[:-2] + '_b']) for n in consts if n.endswith('_a') and n[:-2] + '_b' in consts]
    run.rule('C-R17', floor=3, desc='turning-point brackets: the conservative constant on each side')
    if not pairs:
        raise AnalysisError('bracket constants not found')
    # location of the positive minimum of gamma (zero of digamma), a mathematical constant
    X0 = {'gamma_min': 1.4616321449683623412626595423257}
    for base, va, vb in pairs:
        if base in X0:
            if va < X0[base] < vb:
                run.ok('C-R17', '%s_a < x0 < %s_b' % (base, base))
            else:
                run.fail(Finding('C-R17', rel, '<module>', '%s_a, %s_b = %r, %r' % (base, base, va, vb),
                                 'the bracket [%r, %r] does not contain the minimum of gamma x0 = 1.46163214496836234...: an '
                                 'interval that contains x0 and ends between x0 and the bracket is treated as monotone'
                                 % (va, vb), line=None))
        if not va < vb:
            run.fail(Finding('C-R17', rel, '<module>', '%s_a, %s_b' % (base, base),
                             'the bracket is not ordered: %r >= %r' % (va, vb), line=None))
    f = ix.func(rel, 'mpi_gamma')
    unp = [x for x in _walk_own(f.node) if isinstance(x, ast.Assign) and isinstance(x.targets[0], ast.Tuple) and
           len(x.targets[0].elts) == 2 and norm(x.value) == f.params[0]]
    if not unp:
        raise AnalysisError('mpi_gamma: endpoints not unpacked')
    lo, hi = [e.id for e in unp[0].targets[0].elts]
    n = 0
    for st in _walk_own(f.node):
        if not isinstance(st, ast.If):
            continue
        # a monotone shortcut: the body evaluates kernels with explicit directed modes
        direct = any(isinstance(c, ast.Call) and any(norm(a) in ('round_floor', 'round_ceiling') for a in c.args)
                     for b_ in st.body for c in ast.walk(b_))
        if not direct:
            continue
        for c in ast.walk(st.test):
            if not (isinstance(c, ast.Call) and norm(c.func) in ('mpf_gt', 'mpf_ge', 'mpf_lt', 'mpf_le') and len(c.args) == 2):
                continue
            x, k = norm(c.args[0]), norm(c.args[1])
            base = k[:-2]
            if not (k.endswith(('_a', '_b')) and any(p[0] == base for p in pairs)):
                continue
            n += 1
            right = norm(c.func) in ('mpf_gt', 'mpf_ge')
            ok = (right and x == lo and k.endswith('_b')) or ((not right) and x == hi and k.endswith('_a'))
            if ok:
                run.ok('C-R17', 'mpi_gamma: `%s` uses the conservative bracket constant' % norm(c))
            else:
                run.fail(Finding('C-R17', rel, f.qualname, norm(c),
                                 'the monotone shortcut is entered on `%s`: to lie wholly %s the turning point the %s '
                                 'endpoint `%s` must be compared with %s_%s; as written an interval that contains the '
                                 'minimum of gamma but ends inside the bracket is treated as monotone and its result '
                                 'excludes gamma(x0)' % (norm(c), 'right of' if right else 'left of',
                                                         'lower' if right else 'upper', lo if right else hi, base,
                                                         'b' if right else 'a'), line=c.lineno))
    if n < 2:
        raise AnalysisError('mpi_gamma: region tests against the bracket constants not found')



def check_near_one_guard(run, ix):
    """C-R18.  mpf_log has a shortcut for x = 1 + t: it forms t from the mantissa as  man - 2^(bc-1)  (x in [1, 2)) or
    2^bc - man  (x in [1/2, 1)) and, when t is tiny, returns t itself (perturbed in the direction of the neglected
    term).  Those two expressions are x - 1 only when the binary magnitude mag = exp + bc is 1 resp. 0.  The guard of
    the shortcut is evaluated from the source for mag in -8..8 and must hold for no other magnitude (`abs(mag) <= 1`
    also admitted [1/4, 1/2): log(0.25 + 2**-200) was 2.5e-60, and iv.log did not contain the value)."""
    from ..formula import Evaluator
    rel = 'mpmath/libmp/libelefun.py'
    f = ix.func(rel, 'mpf_log')
    run.rule('C-R18', floor=1, desc='the x = 1 + t shortcut of mpf_log is entered only for 1/2 <= x < 2')
    guards = []
    for st in _walk_own(f.node):
        if isinstance(st, ast.If) and any(isinstance(x, ast.BinOp) and isinstance(x.op, ast.LShift) and
                                          norm(x.left) == 'MPZ_ONE' and 'bc' in norm(x.right)
                                          for b in st.body for x in ast.walk(b)):
            if not any(st in ast.walk(g) and g is not st for g in guards):
                guards.append(st)
    outer = [g for g in guards if not any(g is not h and any(g is x for x in ast.walk(h)) for h in guards)]
    if not outer:
        raise AnalysisError('mpf_log: the x = 1 + t shortcut was not found')
    g = outer[0]
    ev = Evaluator()
    wrong = []
    for mag in range(-8, 9):
        try:
            t = ev.ev(g.test, {'mag': mag, 'abs_mag': abs(mag)})
        except AnalysisError as e:
            raise AnalysisError('mpf_log: guard of the x = 1 + t shortcut: %s' % e)
        if t and mag not in (0, 1):
            wrong.append(mag)
    if wrong:
        run.fail(Finding('C-R18', rel, f.qualname, norm(g.test),
                         'the shortcut that treats the mantissa as 1 + t is entered for binary magnitude(s) %s, i.e. for x '
                         'in [2^(mag-1), 2^mag) far from 1: there `man - 2^(bc-1)` is not x - 1, and for x = 2^(mag-1)*(1+tiny) '
                         'the tiny t is returned as the logarithm' % wrong, line=g.lineno))
    else:
        run.ok('C-R18', 'guard `%s` holds only for mag in {0, 1}' % norm(g.test))


# --------------------------------------------------------------------------- C-R19
def check_outward_helper(run, ix):
    """C-R19.  mpf_outward is what makes the transcendental endpoints bounds: it must (a) evaluate the kernel with
    extra bits (wp = prec + K), (b) multiply the value by 1 + 2**(g-wp) when the value is negative and the mode is
    floor or positive and the mode is ceiling, by 1 - 2**(g-wp) otherwise, with 0 < g < K (the allowance for the
    kernel's error, in units of the extended precision), (c) round the product with the caller's precision and
    mode, and (d) hand a value back unchanged only when it is special / zero or under the exact-at-integers flag."""
    run.rule('C-R19', floor=4, desc='mpf_outward moves the kernel value outward before the directed rounding')
    run.rule('C-R23', floor=2, desc='mpf_outward claims no bound from a nan of the kernel')
    f = ix.func(LIBMPI, 'mpf_outward')
    P = f.params            # f, args, prec, rounding, ...
    body = f.node
    wp = [a for a in _walk_own(body) if isinstance(a, ast.Assign) and norm(a.targets[0]) == 'wp']
    K = None
    if wp and isinstance(wp[0].value, ast.BinOp) and isinstance(wp[0].value.op, ast.Add):
        l, r = wp[0].value.left, wp[0].value.right
        if norm(l) == P[2] and isinstance(r, ast.Constant):
            K = r.value
    if K is None or K < 12:
        run.fail(Finding('C-R19', LIBMPI, 'mpf_outward', norm(wp[0]) if wp else 'def mpf_outward',
                         'the kernel is not evaluated with at least 12 extra bits', line=f.lineno))
    else:
        run.ok('C-R19', 'mpf_outward evaluates the kernel at prec + %d bits' % K)
    # (b) the two factors and their selection
    sel = [i for i in _walk_own(body) if isinstance(i, ast.If) and 'round_floor' in norm(i.test)]
    ok_b = False
    why = 'selection of the outward factor not found'
    if sel:
        i = sel[0]
        t = norm(i.test)
        want = 'bool(sign) == (%s == round_floor)' % P[3]

        def factor(stmts):
            for a in stmts:
                if isinstance(a, ast.Assign) and isinstance(a.value, ast.Call) and norm(a.value.func) == 'from_man_exp':
                    m = a.value.args[0]
                    if isinstance(m, ast.BinOp) and isinstance(m.op, (ast.Add, ast.Sub)) and \
                            norm(m.left) == 'MPZ_ONE << wp' and isinstance(m.right, ast.BinOp) and \
                            norm(m.right.left) == 'MPZ_ONE' and isinstance(m.right.right, ast.Constant) and \
                            norm(a.value.args[1]) == '-wp':
                        return ('+' if isinstance(m.op, ast.Add) else '-', m.right.right.value, norm(a.targets[0]))
            return None
        fb, fe = factor(i.body), factor(i.orelse)
        if t != want:
            why = 'the outward side is chosen by `%s`; a bound needs `%s`' % (t, want)
        elif not fb or not fe or fb[0] != '+' or fe[0] != '-':
            why = 'the factor is not 1 + 2**(g-wp) on the outward side and 1 - 2**(g-wp) on the other'
        elif K is not None and not (0 < fb[1] < K and 0 < fe[1] < K):
            why = 'the allowance 2**%s units is not between one unit and the extra precision' % fb[1]
        else:
            ok_b = True
            fac = fb[2]
    if ok_b:
        run.ok('C-R19', 'mpf_outward: factor 1 +- 2**(%d - wp), larger magnitude on the outward side' % fb[1])
    else:
        run.fail(Finding('C-R19', LIBMPI, 'mpf_outward', norm(sel[0].test) if sel else 'def mpf_outward', why,
                         line=f.lineno))
    # (c) the final rounding
    rets = [r for r in _walk_own(body) if isinstance(r, ast.Return)]
    fin = [r for r in rets if isinstance(r.value, ast.Call) and norm(r.value.func) == 'mpf_mul']
    if len(fin) == 1 and len(fin[0].value.args) == 4 and norm(fin[0].value.args[0]) == 'v' and \
            norm(fin[0].value.args[2]) == P[2] and norm(fin[0].value.args[3]) == P[3]:
        run.ok('C-R19', 'mpf_outward returns mpf_mul(v, factor, %s, %s)' % (P[2], P[3]))
    else:
        run.fail(Finding('C-R19', LIBMPI, 'mpf_outward', norm(fin[0]) if fin else 'def mpf_outward',
                         'the widened value is not rounded with the caller\'s precision and mode', line=f.lineno))
    # (d) pass-through returns: the special value, or the kernel's own directed rounding of an EXACTLY known value
    # C-R23 (fifth C14 hunt; repair b34f672): a nan is no bound.  `return v` under `not man` hands back zero and the
    # infinities -- and nan, unless a test for nan has answered before with -inf under `rounding == round_floor` and
    # +inf otherwise (mpf_atan2 is nan at a corner with two infinite coordinates: iv.atan2([1, inf], [inf, inf]) was
    # [0, nan]).  The same clause as C-R22 of mpc_outward.
    def _dir_ok(r):
        val = norm(r.value)
        p_ = r
        in_floor = False
        while p_ is not body:
            par_ = getattr(p_, '_parent', None)
            if par_ is None:
                break
            if isinstance(par_, ast.If) and norm(par_.test) == '%s == round_floor' % P[3] and any(p_ is b for b in par_.body):
                in_floor = True
            p_ = par_
        return (val == 'fninf' and in_floor) or (val == 'finf' and not in_floor)
    nan_guard = None
    for i in _walk_own(body):
        if isinstance(i, ast.If) and norm(i.test).replace(' ', '') in ('v==fnan', 'visfnan', 'fnan==v'):
            grets = [r for b in i.body for r in ast.walk(b) if isinstance(r, ast.Return)]
            if grets and all(norm(r.value) in ('fninf', 'finf') and _dir_ok(r) for r in grets):
                nan_guard = i
    for r in rets:
        if r in fin:
            continue
        par = getattr(r, '_parent', None)
        t = norm(par.test) if isinstance(par, ast.If) else ''
        if norm(r.value) in ('fninf', 'finf'):
            if _dir_ok(r):
                run.ok('C-R23', 'mpf_outward: `%s` in its own direction: no bound claimed' % norm(r))
            else:
                run.fail(Finding('C-R23', LIBMPI, 'mpf_outward', norm(r), 'an infinite bound in the wrong direction: the lower '
                                 'bound must be -inf (under `%s == round_floor`), the upper +inf' % P[3], line=r.lineno))
            continue
        if norm(r.value) == 'v' and t == 'not man':
            if nan_guard is not None and nan_guard.lineno < r.lineno:
                run.ok('C-R19', 'mpf_outward: `%s` only under `%s`, nan excluded before' % (norm(r), t))
            else:
                run.fail(Finding('C-R23', LIBMPI, 'mpf_outward', norm(r), 'a nan of the kernel is handed back as a bound (under '
                                 '`not man`, which holds for zero, the infinities AND nan): mpf_atan2 is nan at a corner with two '
                                 'infinite coordinates, and iv.atan2(iv.mpf([1, inf]), iv.mpf([inf, inf])) is [0.0, nan], which '
                                 'contains nothing', line=r.lineno))
            continue
        why = exact_table_passthrough(ix, f, r)
        if why is None:
            run.ok('C-R19', 'mpf_outward: `%s` only for a positive integer below the kernels\' exact table, where they '
                   'round the exact value with the caller\'s precision and mode' % norm(r, 50))
        else:
            run.fail(Finding('C-R19', LIBMPI, 'mpf_outward', norm(r), 'the kernel value is handed back without '
                             'widening under `%s`: %s' % (t or 'no condition', why), line=r.lineno))


def exact_table_passthrough(ix, f, r):
    """The only unwidened non-special return of mpf_outward that is a bound: `return f(*(args + (prec, rounding)))`
    under the flag parameter and a test that the first argument is a positive integer below the bound of the gamma
    kernels' table of exact factorials; and the kernels, under the same bound, return a correctly rounded primitive
    (mpf_pos / mpf_div) of table entries with the caller's precision and mode.  (Until repair 7d559d3 the shortcut
    was `return v` when the (prec+20)-bit kernel value happened to have at most prec bits -- true with probability
    2**-20 for an inexact value; the earlier version of this rule accepted any test that began with the flag.)
    Returns None when all of this holds, else the reason."""
    P = f.params
    v = r.value
    want = 'f(*args + (%s, %s))' % (P[2], P[3])
    if norm(v).replace('(args + ', 'args + ').replace('))', ')') != want.replace('))', ')') and \
            norm(v) != 'f(*(args + (%s, %s)))' % (P[2], P[3]):
        return 'it is not the kernel called with the caller\'s precision and rounding mode'
    tests = []
    p = r
    while p is not f.node:
        par = p._parent
        if isinstance(par, ast.If) and p in par.body:
            tests.extend(par.test.values if isinstance(par.test, ast.BoolOp) and isinstance(par.test.op, ast.And)
                         else [par.test])
        p = par
    tn = [norm(t) for t in tests]
    if len(P) < 5 or P[4] not in tn:
        return 'not under the exact-at-integers flag'
    # the tuple that is tested is args[0]
    unpack = [a for a in _walk_own(f.node) if isinstance(a, ast.Assign) and norm(a.value) == 'args[0]' and
              isinstance(a.targets[0], ast.Tuple) and len(a.targets[0].elts) == 4 and a.lineno < r.lineno]
    if not unpack:
        return 'the tested fields are not those of the first argument'
    sg, mn, ex, bc = [norm(e) for e in unpack[-1].targets[0].elts]
    need = [mn, 'not %s' % sg, '%s >= 0' % ex]
    for n_ in need:
        if n_ not in tn:
            return 'the guard lacks `%s` (a positive integer argument)' % n_
    bound = [t for t in tests if isinstance(t, ast.Compare) and len(t.ops) == 1 and isinstance(t.ops[0], ast.Lt) and
             norm(t.left).strip('()') == '%s << %s' % (mn, ex) and norm(t.comparators[0]) == 'SMALL_FACTORIAL_CACHE_SIZE']
    if not bound:
        return 'the guard does not bound the integer by SMALL_FACTORIAL_CACHE_SIZE, the size of the kernels\' exact table'
    # the kernels: every caller that sets the flag passes a gamma kernel that serves the table under the same bound
    GZ = 'mpmath/libmp/gammazeta.py'
    g = ix.func(GZ, 'mpf_gamma')
    served = {}
    for x in _walk_own(g.node):
        if isinstance(x, ast.If) and norm(x.test) == 'n < SMALL_FACTORIAL_CACHE_SIZE':
            for b in x.body:
                if isinstance(b, ast.If) and isinstance(b.test, ast.Compare) and norm(b.test.left) == 'type' and \
                        isinstance(b.test.comparators[0], ast.Constant) and b.body and isinstance(b.body[0], ast.Return):
                    served[b.test.comparators[0].value] = b.body[0].value
    kernels = {'mpf_gamma': 0, 'mpf_rgamma': 2}
    callers = []
    mod = ix.modules[LIBMPI]
    for x in ast.walk(mod.tree):
        if isinstance(x, ast.Call) and norm(x.func) == 'mpf_outward':
            flag = (len(x.args) > 4 and norm(x.args[4]) == 'True') or \
                any(k.arg == P[4] and norm(k.value) == 'True' for k in x.keywords)
            if flag:
                callers.append(x)
    if not callers:
        return None
    for c in callers:
        k = norm(c.args[0])
        if k not in kernels:
            return 'the flag is set for `%s`, which has no table of exact values' % k
        ret = served.get(kernels[k])
        if ret is None:
            return 'mpf_gamma no longer serves type %d from its table under n < SMALL_FACTORIAL_CACHE_SIZE' % kernels[k]
        ok = isinstance(ret, ast.Call) and norm(ret.func) in ('mpf_pos', 'mpf_div') and \
            [norm(a) for a in ret.args[-2:]] == ['prec', 'rnd'] and \
            all('small_factorial_cache' in norm(a) or norm(a) == 'fone' for a in ret.args[:-2])
        if not ok:
            return 'under the table bound mpf_gamma (type %d) returns `%s`, not a correctly rounded primitive of ' \
                   'table entries at (prec, rnd)' % (kernels[k], norm(ret, 60))
    for w, ty in (('mpf_rgamma', 2),):
        wf = ix.func(GZ, w)
        rr = [x for x in _walk_own(wf.node) if isinstance(x, ast.Return)]
        if not (len(rr) == 1 and norm(rr[0].value) == 'mpf_gamma(x, prec, rnd, %d)' % ty):
            return '%s does not forward (x, prec, rnd) to mpf_gamma with type %d' % (w, ty)
    return None


# --------------------------------------------------------------------------- C-R21
def check_gamma_tiny_argument(run, ix):
    """C-R21.  The outward helper allows 2**10 units of the extended precision for the error of a kernel.  mpf_gamma
    converts its argument to FIXED POINT with wp fractional bits (`absxman = man >> (-offset)`): an argument of
    magnitude 2**mag keeps wp+mag significant bits, so the relative error of everything computed from absxman is
    2**-(wp+mag) -- far beyond the allowance for a tiny argument.  The Taylor branch treats that case in floating
    point; the Stirling branch (taken for every argument once wp >= MAX_GAMMA_TAYLOR_PREC) does not.  Decided: before
    the conversion, a branch under `mag < -C` and `wp >= MAX_GAMMA_TAYLOR_PREC` returns for the types 0, 2 and 3 through
    the recurrence on x+1 (formed exactly by a precision-less mpf_add)."""
    run.rule('C-R21', floor=1, desc='mpf_gamma does not convert a tiny argument to fixed point on the Stirling path')
    GZ = 'mpmath/libmp/gammazeta.py'
    f = ix.func(GZ, 'mpf_gamma')
    conv = [a for a in _walk_own(f.node) if isinstance(a, ast.Assign) and norm(a.targets[0]) == 'absxman']
    if not conv:
        raise AnalysisError('mpf_gamma: fixed-point conversion of the argument not found')
    first = min(a.lineno for a in conv)
    ok = False
    for st in f.node.body:
        if not (isinstance(st, ast.If) and st.lineno < first):
            continue
        cs = st.test.values if isinstance(st.test, ast.BoolOp) and isinstance(st.test.op, ast.And) else [st.test]
        small = any(isinstance(c, ast.Compare) and norm(c.left) == 'mag' and isinstance(c.ops[0], ast.Lt) and
                    isinstance(c.comparators[0], ast.UnaryOp) and isinstance(c.comparators[0].op, ast.USub) for c in cs)
        high = any(norm(c).replace(' ', '') == 'wp>=MAX_GAMMA_TAYLOR_PREC' for c in cs)
        if not (small and high) or len(cs) != 2:
            continue
        exact1 = any(isinstance(a, ast.Assign) and norm(a.value) in ('mpf_add(x, fone)', 'mpf_add(fone, x)')
                     for a in st.body)
        types = set()
        for b in st.body:
            if isinstance(b, ast.If) and isinstance(b.test, ast.Compare) and norm(b.test.left) == 'type' and \
                    any(isinstance(r, ast.Return) for r in b.body):
                types.add(norm(b.test.comparators[0]))
        if exact1 and {'0', '2', '3'} <= types:
            ok = True
    if ok:
        run.ok('C-R21', 'mpf_gamma: tiny arguments at wp >= MAX_GAMMA_TAYLOR_PREC go through gamma(x+1)/x before the '
               'fixed-point conversion')
    else:
        run.fail(Finding('C-R21', GZ, 'mpf_gamma', norm(sorted(conv, key=lambda a: a.lineno)[0]),
                         'on the Stirling path (every argument once wp >= MAX_GAMMA_TAYLOR_PREC) a tiny argument is '
                         'converted to fixed point with wp fractional bits and keeps only wp+mag significant bits: '
                         'x*gamma(x) = 1.000977 for x = 2**-5030 at 5000 bits, and iv.gamma / rgamma / loggamma / '
                         'factorial exclude the exact value from iv.prec = 4960 on', line=first))


# --------------------------------------------------------------------------- C-R20
def check_atan2_corners(run, ix):
    """C-R20.  Corner choice of mpi_atan2 (sa/atan2_corners.py): the function is interpreted once per sign
    configuration of the four endpoints (36 of them); the symbolic endpoints it returns are compared with the infimum
    and supremum of atan2 over the open-quadrant parts, axis segments and origin of the box, derived from the
    monotonicity of atan2 and not from the code."""
    from .. import atan2_corners
    run.rule('C-R20', floor=36, desc='mpi_atan2 returns, for every sign configuration of the box, endpoints that bound '
             'atan2 over every part of the box')
    f = ix.func(LIBMPI, 'mpi_atan2')
    seen = set()
    for signs, problem, ret in atan2_corners.check(f.node):
        cfg = 'ya %s, yb %s, xa %s, xb %s' % tuple('<=>'[signs[k] + 1] + ' 0' for k in ('ya', 'yb', 'xa', 'xb'))
        if problem is None:
            run.ok('C-R20', 'mpi_atan2 [%s]: `%s` bounds atan2 over the box' % (cfg, norm(ret, 40)))
        else:
            key = (norm(ret), problem)
            if key in seen:
                run.ok('C-R20', 'mpi_atan2 [%s]: same defect as reported' % cfg)
                continue
            seen.add(key)
            run.fail(Finding('C-R20', LIBMPI, 'mpi_atan2', problem,
                             'for a box with %s (reached return: `%s`): %s' % (cfg, norm(ret, 40), problem),
                             line=ret.lineno))


# --------------------------------------------------------------------------- C-R2x
def check_percent_halfwidth(run, ix):
    """C-R2x.  The table C_OPERAND_EXEMPT lets mpi_from_str_a_b multiply a rounded operand in a non-monotone position
    because "both factors are non-negative upper bounds (max of the absolute values of the centre)".  That reason is
    checked here: the first factor of the percent product must be an upper bound of |x| over the enclosure of the
    centre, i.e. MAX / max of mpf_abs of BOTH conversions of the centre text (floor and ceiling).  |ceiling(x)| alone is
    below |x| for a negative centre: '-0.5000...01 +- 300%' then misses its upper end."""
    run.rule('C-R2x', floor=1, desc='percent half-width of an interval literal is computed from an upper bound of |centre|')
    f = ix.func(LIBMPI, 'mpi_from_str_a_b')
    conv = {}
    for a in _walk_own(f.node):
        if isinstance(a, ast.Assign) and isinstance(a.value, ast.Call) and norm(a.value.func) == 'from_str' \
                and len(a.value.args) > 2 and norm(a.value.args[0]) == f.params[0]:
            conv[norm(a.targets[0])] = norm(a.value.args[2])
    lo = [k for k, v in conv.items() if v == 'round_floor']
    hi = [k for k, v in conv.items() if v == 'round_ceiling']
    muls = [c for c in _walk_own(f.node) if isinstance(c, ast.Call) and norm(c.func) == 'mpf_mul']
    if not muls:
        raise AnalysisError('mpi_from_str_a_b: percent product not found')
    if not lo or not hi:
        cs = [a for a in _walk_own(f.node) if isinstance(a, ast.Assign) and isinstance(a.value, ast.Call) and
              norm(a.value.func) == 'from_str' and a.value.args and norm(a.value.args[0]) == f.params[0]]
        run.fail(Finding('C-R2x', LIBMPI, 'mpi_from_str_a_b', norm(cs[0]) if cs else 'def mpi_from_str_a_b',
                         'the centre text is not converted once with round_floor and once with round_ceiling: there is '
                         'no enclosure of the centre to build the endpoints and the percent half-width from (a single '
                         'conversion, in whatever mode, lies on one side of the denoted number)', line=f.lineno))
        return
    for m in muls:
        a0 = m.args[0]
        ok = isinstance(a0, ast.Call) and norm(a0.func) in ('MAX', 'max') and len(a0.args) == 2 and \
            all(isinstance(x, ast.Call) and norm(x.func) == 'mpf_abs' for x in a0.args) and \
            {norm(x.args[0]) for x in a0.args} == {lo[0], hi[0]}
        if ok and len(m.args) > 3 and norm(m.args[3]) == 'round_ceiling':
            run.ok('C-R2x', 'mpi_from_str_a_b: half-width = max(|floor x|, |ceiling x|) * y rounded up')
        else:
            run.fail(Finding('C-R2x', LIBMPI, 'mpi_from_str_a_b', norm(m), 'the percent half-width is not computed from '
                             'max(|%s|, |%s|) rounded up: the magnitude of one conversion of the centre alone is below '
                             '|centre| when the centre has the other sign, the half-width comes out too small and the '
                             'interval misses an end of the denoted range (\'-0.50000000000000000000000000001 +- 300%%\')'
                             % (lo[0], hi[0]), line=m.lineno))
