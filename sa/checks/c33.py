"""C33 -- cached state never leaks stale or wrong results into later calls.

Rules (DESIGN section 2, Engine D):
  D-R0   discovery: every container mutated from a function body is classified
         in tables.CACHES (otherwise ANALYSIS-ERROR: a new cache cannot hide)
  D-R1a  tagged caches: every use of a cached value is gated on
         stored precision >= requested precision; fixed-point hits shift by
         exactly (stored - requested)
  D-R1b  keyed caches: the working precision is part of every key
  D-R1c  fixed-precision cache: computed at a constant precision, bypassed above it
  D-R1d  exact caches: never stored where a precision is in scope
  D-R1e  pure-of-key caches: the stored value is a function of the key alone
  D-R2   constant_memo: gate, shift, and value-before-tag store order
  D-LU   matrix LU cache: precision tag gate;  D-R4  every mutator drops it
  D-R3   no context-derived value in storage shared between contexts
  D-R6   memoize key covers positional and keyword argument values
"""
import ast

from ..cache import (CacheAccesses, prec_derived_names, is_prec_expr, gated_by,
                     compare_norm, conjuncts, enclosing_stmt, ancestors, SAFE_OPS)
from ..flow import FlowAnalysis, Outcome
from ..index import AnalysisError, norm
from ..prec_effect import _walk_own
from ..report import Finding
from .. import tables

MUTATORS = {'append', 'update', 'setdefault', 'pop', 'clear', 'extend', 'insert',
            'remove', 'popitem'}


def is_container(v):
    return isinstance(v, (ast.Dict, ast.List, ast.Set, ast.ListComp, ast.DictComp)) or \
        (isinstance(v, ast.Call) and norm(v.func) in ('dict', 'list', 'set'))


# ---------------------------------------------------------------------------
def discover(ix):
    """(kind, file, qualname, container text) of every container that is
    mutated from inside a function body."""
    found = set()
    attr_cont = set()
    for m in ix.modules.values():
        for x in ast.walk(m.tree):
            if isinstance(x, ast.Assign) and is_container(x.value):
                for t in x.targets:
                    if isinstance(t, ast.Attribute):
                        attr_cont.add(t.attr)
    for rel, m in sorted(ix.modules.items()):
        modnames = set(n for n, v, st, g in m.toplevel_assigns if is_container(v))
        for f in m.funcs.values():
            defaults = set(p for p, d in f.defaults().items() if is_container(d)) \
                if f.parent is None else set()
            local_stores = set(y.id for y in _walk_own(f.node)
                               if isinstance(y, ast.Name) and isinstance(y.ctx, ast.Store))
            aliases = {}
            for x in _walk_own(f.node):
                if isinstance(x, ast.Assign):
                    v = x.value
                    if isinstance(v, ast.Attribute) and v.attr in attr_cont:
                        for t in x.targets:
                            if isinstance(t, ast.Name):
                                aliases[t.id] = norm(v)
                    # a = ctx.attr = {}   (stieltjes)
                    if is_container(v):
                        attrs = [t for t in x.targets if isinstance(t, ast.Attribute)]
                        names = [t for t in x.targets if isinstance(t, ast.Name)]
                        if attrs and names:
                            for t in names:
                                aliases[t.id] = norm(attrs[0])
            # closure containers: defined in an enclosing function
            closure = {}
            p = f.parent
            while p is not None:
                for x in _walk_own(p.node):
                    if isinstance(x, ast.Assign) and is_container(x.value):
                        for t in x.targets:
                            if isinstance(t, ast.Name) and t.id not in local_stores:
                                closure[t.id] = p
                p = p.parent
            for x in _walk_own(f.node):
                tgt = None
                if isinstance(x, ast.Subscript) and isinstance(x.ctx, (ast.Store, ast.Del)):
                    tgt = x.value
                elif isinstance(x, ast.Call) and isinstance(x.func, ast.Attribute) and \
                        x.func.attr in MUTATORS:
                    tgt = x.func.value
                elif isinstance(x, ast.Global):
                    for n in x.names:
                        if n in modnames:
                            found.add(('module', rel, f.qualname, n))
                if tgt is None:
                    continue
                if isinstance(tgt, ast.Name):
                    if tgt.id in defaults:
                        found.add(('default', rel, f.qualname, tgt.id))
                    elif tgt.id in aliases:
                        found.add(('attr', rel, f.qualname, tgt.id))
                    elif tgt.id in closure and f.parent is not None and \
                            _escapes(closure[tgt.id], f):
                        found.add(('closure', rel, f.qualname, tgt.id))
                    elif tgt.id in modnames and tgt.id not in local_stores and \
                            tgt.id not in f.all_params():
                        found.add(('module', rel, f.qualname, tgt.id))
                elif isinstance(tgt, ast.Attribute) and tgt.attr in attr_cont:
                    found.add(('attr', rel, f.qualname, norm(tgt)))
    return found


def _escapes(outer, inner):
    """inner is returned (or stored on an object) by outer: its closure state
    outlives the call"""
    for x in _walk_own(outer.node):
        if isinstance(x, ast.Return) and isinstance(x.value, ast.Name) and \
                x.value.id == inner.name:
            return True
    return False


def table_index(ix):
    rows = {}
    for row in tables.CACHES:
        if row['file'] not in ix.modules:
            raise AnalysisError('cache table row: module vanished: %s' % row['file'])
        for c in row['container'].split(','):
            rows.setdefault((row['file'], c), []).append(row)
    return rows


# ---------------------------------------------------------------------------
def run(run, ix, tier):
    run.explanation = (
        'Every memo table of the package is classified (tagged by precision / keyed by '
        'precision / fixed precision / exact / pure function of the key) and the '
        'class-specific data-flow rule is checked on the current source: each use of a '
        'cached value is control-dependent on `stored precision >= requested`, fixed-point '
        'hits shift by exactly the difference, the precision is part of the key, exact '
        'tables are never written where a precision is in scope, the constant memo stores '
        'value before tag, every matrix mutator drops the cached LU, nothing computed from '
        'a context is stored in containers shared between contexts, memoize keys cover all '
        'argument values.  Containers mutated from function bodies are discovered on every '
        'run; an unclassified one fails the run.  Rounding-level differences between '
        'histories are not decided.')
    run.assumptions = [
        'a stored tuple entry is replaced atomically (single dict store)',
        'an asynchronous interrupt exactly between two adjacent simple stores is outside '
        'the crash model of rule D-R2',
    ]
    run.trusted = ['tables.CACHES classification (one reasoned row per container)']
    run.rule('D-R0', floor=30, desc='discovered containers are classified')
    run.rule('D-R1a', floor=7, desc='tagged caches: gate direction and shift')
    run.rule('D-R1b', floor=12, desc='keyed caches: precision in every key')
    run.rule('D-R1c', floor=2, desc='fixed-precision cache')
    run.rule('D-R1d', floor=8, desc='exact caches')
    run.rule('D-R1e', floor=1, desc='pure-of-key cache')
    run.rule('D-R2', floor=4, desc='constant_memo gate/shift/store order')
    run.rule('D-LU', floor=2, desc='LU cache precision tag')
    run.rule('D-LU4', floor=1, desc='LU factors are reused at the precision of their singularity test only')
    run.rule('D-R4', floor=5, desc='matrix mutators drop the cached LU')
    run.rule('D-R3', floor=2, desc='no cross-context storage')
    run.rule('D-R6', floor=1, desc='memoize key completeness')
    run.rule('D-R7', floor=10, desc='only complete values are stored in a cache (no store inside its accumulation loop)')
    run.rule('D-R8', floor=1, desc='the cache that gates a multi-part lookup is replaced last')
    run.rule('D-R1f', floor=4, desc='values stored in a precision-keyed cache are computed at the key\'s precision')

    run.rule('D-R1g', floor=1, desc='quantities derived from the key variable are current with the key at the store')
    run.rule('D-LU2', floor=2, desc='cached LU factors are not aliased to a caller')
    run.rule('D-R6h', floor=1, desc='a memoize hit cannot fail where the miss succeeded')
    run.rule('D-R9', floor=3, desc='invertlaplace working data lives on a call-local rule object')

    rows = table_index(ix)
    found = discover(ix)
    run.stats['containers_discovered'] = sorted('%s:%s:%s' % (r, q, c) for k, r, q, c in found)
    for kind, rel, qn, cont in sorted(found):
        if (rel, cont) in rows:
            run.ok('D-R0', '%s %s in %s: %s' % (kind, cont, qn, rows[(rel, cont)][0]['kind']))
        else:
            raise AnalysisError('untriaged container: %s `%s` mutated in %s:%s is not '
                                'classified in tables.CACHES' % (kind, cont, rel, qn))
    # rows whose function vanished
    for row in tables.CACHES:
        if row.get('func') and row['kind'] not in ('state',):
            if ix.find_func(row['file'], row['func']) is None:
                raise AnalysisError('cache table row: function vanished: %s:%s'
                                    % (row['file'], row['func']))

    for row in tables.CACHES:
        k = row['kind']
        if k == 'tagged':
            check_tagged(run, ix, row)
        elif k == 'keyed':
            check_keyed(run, ix, row)
        elif k == 'fixed':
            check_fixed(run, ix, row)
        elif k == 'exact':
            check_exact(run, ix, row)
        elif k == 'purekey':
            check_purekey(run, ix, row)
    check_constant_memo(run, ix)
    check_lu(run, ix)
    check_matrix_typestate(run, ix)
    check_cross_context(run, ix)
    check_memoize_key(run, ix)
    check_rs(run, ix)
    check_keyed_store_precision(run, ix)
    check_derived_with_key(run, ix)
    run.rule('D-R1h', floor=2, desc='cache keys made of user values carry their types')
    run.rule('D-R1i', floor=1, desc='a parameter that guards a partially keyed cache is canonicalised under the guard')
    run.rule('D-LU3', floor=1, desc='cached LU factors only when overwrite is off')
    check_value_key_types(run, ix)
    check_guarded_partial_key(run, ix)
    check_lu_overwrite(run, ix)
    check_memoize_hit(run, ix)
    run.rule('D-R6m', floor=1, desc='memoize does not share a mutable result with its first caller')
    check_memoize_aliasing(run, ix)
    check_call_local_rules(run, ix)
    check_partial_stores(run, ix)
    check_gate_last(run, ix)
    # the odefun segment cache (append-only lists, in-range lookup, extension test): rules of the
    # C34 module, reported here as D-ODE
    from ..report import SubRun
    from . import c34
    run.rule('D-ODE', floor=5, desc='odefun segment cache: append-only, lookup index in range, extension test')
    c34.run(SubRun(run, keep=('O-R1', 'O-R2', 'O-R3', 'O-R4'), rename=lambda r: 'D-ODE'), ix, tier)


# ---------------------------------------------------------------------------
def _innermost_loop(node, stop):
    p = getattr(node, '_parent', None)
    while p is not None and p is not stop:
        if isinstance(p, (ast.For, ast.While)):
            return p
        p = getattr(p, '_parent', None)
    return None


def check_partial_stores(run, ix):
    """D-R7.  A value may be written into a cache only when it is complete.  A store that sits in the same
    loop as the accumulation of the value it stores (`suma += ...; cache[n] = f(suma)`) publishes partial
    sums; an exception or interrupt inside that loop leaves a wrong number in the cache for ever
    (eulernum(14) returned -86908696 after an interrupted call)."""
    n = 0
    for row in tables.CACHES:
        if row['kind'] not in ('exact', 'tagged', 'keyed', 'purekey') or not row.get('func'):
            continue
        f = ix.find_func(row['file'], row['func'])
        if f is None:
            continue
        for cont in row['container'].split(','):
            acc = CacheAccesses(f, cont.strip())
            for st, sub in acc.stores:
                n += 1
                lp = _innermost_loop(st, f.node)
                names = {x.id for x in ast.walk(st.value) if isinstance(x, ast.Name)} if hasattr(st, 'value') else set()
                partial = None
                # a running value stored under a key that advances with it (memo[k] = p after p *= k; k += 1) is
                # complete for that key; the defect is the SAME key being overwritten while the value grows
                keynames = {x.id for x in ast.walk(sub.slice) if isinstance(x, ast.Name)} if hasattr(sub, 'slice') else set()
                key_moves = lp is not None and any(
                    (isinstance(y, ast.AugAssign) and isinstance(y.target, ast.Name) and y.target.id in keynames) or
                    (isinstance(y, ast.Assign) and any(isinstance(t, ast.Name) and t.id in keynames for t in y.targets)) or
                    (isinstance(y, (ast.For,)) and y is lp and any(isinstance(t, ast.Name) and t.id in keynames
                                                                   for t in ast.walk(y.target)))
                    for y in ast.walk(lp) if _innermost_loop(y, f.node) is lp or y is lp)
                if lp is not None and not key_moves:
                    for y in ast.walk(lp):
                        if isinstance(y, ast.AugAssign) and isinstance(y.target, ast.Name) and y.target.id in names \
                                and _innermost_loop(y, f.node) is lp:
                            partial = y
                if partial is not None:
                    run.fail(Finding('D-R7', row['file'], f.qualname, norm(st),
                                     'the value is written into the cache inside the loop that is still accumulating '
                                     'it (`%s`): an exception or interrupt in that loop leaves a partial result in '
                                     'the cache, which every later call returns' % norm(partial), line=st.lineno))
                else:
                    run.ok('D-R7', '%s: %s stored complete' % (f.qualname, cont.strip()) if n < 8 else None)
    if n < 10:
        raise AnalysisError('D-R7: only %d cache stores examined' % n)


def check_gate_last(run, ix):
    """D-R8.  primesieve keeps three module-level lists and decides from the length of ONE of them whether all
    three can serve a request.  When they are replaced, that gate must be replaced LAST: an interrupt after the
    gate but before the others leaves a long gate list with short companions, and every later lookup fails
    (`ValueError: 19 is not in list` from zeta)."""
    rel = 'mpmath/libmp/gammazeta.py'
    f = ix.func(rel, 'primesieve')
    glob = [n for x in _walk_own(f.node) if isinstance(x, ast.Global) for n in x.names]
    if len(glob) < 2:
        raise AnalysisError('primesieve: module caches not found')
    gate = None
    for st in f.node.body:
        if isinstance(st, ast.If):
            used = [n.id for n in ast.walk(st.test) if isinstance(n, ast.Name) and n.id in glob]
            if used:
                gate = used[0]
                break
    if gate is None:
        raise AnalysisError('primesieve: lookup gate not found')
    stores = sorted([x for x in _walk_own(f.node) if isinstance(x, ast.Assign) and isinstance(x.targets[0], ast.Name)
                     and x.targets[0].id in glob], key=lambda x: x.lineno)
    if not stores:
        raise AnalysisError('primesieve: cache stores not found')
    if stores[-1].targets[0].id == gate and [x.targets[0].id for x in stores].count(gate) == 1:
        run.ok('D-R8', 'primesieve: %s (the gate) is replaced after %s' % (gate, [x.targets[0].id for x in stores[:-1]]))
    else:
        g = [x for x in stores if x.targets[0].id == gate][0]
        run.fail(Finding('D-R8', rel, f.qualname, norm(g),
                         '`%s` decides whether the cached lists can serve a request, but it is replaced before %s: an '
                         'interrupt in between leaves it ahead of its companions and later lookups fail'
                         % (gate, [x.targets[0].id for x in stores if x.lineno > g.lineno]), line=g.lineno))


# ---------------------------------------------------------------------------
def check_tagged(run, ix, row):
    f = ix.func(row['file'], row['func'])
    acc = CacheAccesses(f, row['container'])
    if not acc.any():
        raise AnalysisError('tagged cache %s not accessed in %s' % (row['container'], f.qualname))
    derived = prec_derived_names(f)
    # tag position from the stores
    tagpos = None
    for st, sub in acc.stores:
        if isinstance(st, ast.Assign) and isinstance(st.value, ast.Tuple) and \
                len(st.value.elts) == 2:
            flags = [is_prec_expr(e, derived) and not isinstance(e, ast.Constant)
                     for e in st.value.elts]
            if flags.count(True) == 1:
                pos = flags.index(True)
                if tagpos is not None and tagpos != pos:
                    raise AnalysisError('%s: inconsistent tag position' % f.qualname)
                tagpos = pos
    if tagpos is None:
        run.fail(Finding('D-R1a', f.file, f.qualname, 'store into %s' % row['container'],
                         'no store of a (precision tag, value) pair found: the entry no longer '
                         'records the precision it was computed at', line=f.lineno))
        return
    valpos = 1 - tagpos
    # names bound by unpacking a loaded entry
    tagnames, valnames = set(), set()
    unpack_stmts = []
    for x in _walk_own(f.node):
        if isinstance(x, ast.Assign) and len(x.targets) == 1 and \
                isinstance(x.targets[0], ast.Tuple) and len(x.targets[0].elts) == 2:
            v = x.value
            src_ok = (isinstance(v, ast.Subscript) and norm(v.value) == row['container']) or \
                (isinstance(v, ast.Call) and isinstance(v.func, ast.Attribute) and
                 v.func.attr == 'get' and norm(v.func.value) == row['container'])
            if src_ok and all(isinstance(e, ast.Name) for e in x.targets[0].elts):
                tagnames.add(x.targets[0].elts[tagpos].id)
                valnames.add(x.targets[0].elts[valpos].id)
                unpack_stmts.append(x)

    def is_tag(e):
        if isinstance(e, ast.Name) and e.id in tagnames:
            return True
        return isinstance(e, ast.Subscript) and isinstance(e.value, ast.Subscript) and \
            norm(e.value.value) == row['container'] and norm(e.slice) == str(tagpos)

    def is_req(e):
        return is_prec_expr(e, derived - tagnames) and not isinstance(e, ast.Constant) \
            and not is_tag(e)

    def safe_gate(c):
        n = compare_norm(c, is_tag, is_req)
        return n is not None and n[0] in SAFE_OPS

    def any_gate(c):
        return compare_norm(c, is_tag, is_req) is not None

    # uses of the cached value
    uses = []
    for x in _walk_own(f.node):
        if isinstance(x, ast.Name) and isinstance(x.ctx, ast.Load) and x.id in valnames:
            # only uses whose latest preceding assignment is the unpack of the entry
            last = None
            for y in _walk_own(f.node):
                if isinstance(y, ast.Name) and isinstance(y.ctx, ast.Store) and y.id == x.id \
                        and y.lineno <= x.lineno:
                    if last is None or y.lineno > last.lineno:
                        last = y
            if last is not None and enclosing_stmt(last) not in unpack_stmts:
                continue
            uses.append(x)
        elif isinstance(x, ast.Subscript) and isinstance(x.ctx, ast.Load) and \
                isinstance(x.value, ast.Subscript) and norm(x.value.value) == row['container'] \
                and norm(x.slice) == str(valpos):
            # fresh entry stored just before in the same block is not a hit
            if _fresh_store_before(x, acc, row['container']):
                continue
            uses.append(x)
    if not uses:
        run.fail(Finding('D-R1a', f.file, f.qualname, 'hit path of %s' % row['container'],
                         'no use of a cached value found (rule cannot see the hit path)',
                         line=f.lineno))
        return
    for u in uses:
        st = enclosing_stmt(u)
        if gated_by(u, safe_gate, f.node):
            run.ok('D-R1a', '%s:%s `%s` gated on stored >= requested'
                   % (f.file, f.qualname, norm(st, 80)))
            # shift amount
            for a in ancestors(u):
                if a is st:
                    break
                if isinstance(a, ast.BinOp) and isinstance(a.op, ast.RShift) and \
                        isinstance(a.right, ast.BinOp) and isinstance(a.right.op, ast.Sub):
                    gate_reqs = set()
                    for anc in ancestors(u):
                        if isinstance(anc, ast.If):
                            for c in conjuncts(anc.test):
                                nn = compare_norm(c, is_tag, is_req)
                                if nn is not None and nn[0] in SAFE_OPS:
                                    gate_reqs.add(norm(nn[2]))
                    if is_tag(a.right.left) and is_req(a.right.right) and \
                            norm(a.right.right) in gate_reqs:
                        run.ok('D-R1a', 'shift by (stored - requested): %s' % norm(a, 60))
                    else:
                        run.fail(Finding('D-R1a', f.file, f.qualname, norm(st),
                                         'cached fixed-point value is not shifted by exactly '
                                         '(stored precision - requested precision)', line=st.lineno))
        else:
            wrong = gated_by(u, any_gate, f.node)
            run.fail(Finding('D-R1a', f.file, f.qualname, norm(st),
                             'cached value used %s' % (
                                 'under a precision comparison in the wrong direction (a value '
                                 'computed at LOWER precision than requested is reused)' if wrong
                                 else 'without checking that it was computed at a precision >= '
                                      'the requested one'), line=st.lineno))


def _fresh_store_before(use, acc, cname):
    st = enclosing_stmt(use)
    parent = getattr(st, '_parent', None)
    key = norm(use.value.slice)
    for field in ('body', 'orelse', 'finalbody'):
        blk = getattr(parent, field, None)
        if isinstance(blk, list) and st in blk:
            for prev in blk[:blk.index(st)]:
                for s2, sub in acc.stores:
                    if s2 is prev and norm(sub.slice) == key:
                        return True
    return False


# ---------------------------------------------------------------------------
def check_keyed(run, ix, row):
    f = ix.func(row['file'], row['func'])
    cname = row['container']
    acc = CacheAccesses(f, cname)
    if not acc.any():
        raise AnalysisError('keyed cache %s not accessed in %s' % (cname, f.qualname))
    derived = prec_derived_names(f)
    loopvars = {}
    for it in acc.iters:
        if isinstance(it.target, ast.Name):
            loopvars[it.target.id] = it

    def key_ok(k, node):
        elts = k.elts if isinstance(k, ast.Tuple) else [k]
        for e in elts:
            if is_prec_expr(e, derived) and not isinstance(e, ast.Constant) and \
                    not (isinstance(e, ast.Name) and e.id.isupper()):
                return True
            if isinstance(e, ast.Name) and e.id in loopvars:
                # iteration over stored precisions: needs `stored > requested`
                def gate(c, name=e.id):
                    n = compare_norm(c, lambda a: isinstance(a, ast.Name) and a.id == name,
                                     lambda b: is_prec_expr(b, derived) and not isinstance(b, ast.Constant))
                    return n is not None and n[0] in (ast.Gt, ast.GtE)
                if gated_by(node, gate, f.node):
                    return True
        # key held in a local assigned from a tuple containing the precision
        if isinstance(k, ast.Name):
            for x in _walk_own(f.node):
                if isinstance(x, ast.Assign) and len(x.targets) == 1 and \
                        isinstance(x.targets[0], ast.Name) and x.targets[0].id == k.id:
                    return key_ok(x.value, node) if not isinstance(x.value, ast.Name) else False
        return False
    sites = []
    for x in acc.loads:
        sites.append((x, x.slice))
    for st, sub in acc.stores:
        sites.append((sub, sub.slice))
    for c in acc.tests:
        sites.append((c, c.left))
    for g in acc.gets:
        if g.args:
            sites.append((g, g.args[0]))
    for node, k in sites:
        st = enclosing_stmt(node)
        if key_ok(k, node):
            run.ok('D-R1b', '%s:%s key `%s` contains the precision' % (f.file, f.qualname, norm(k, 50)))
        else:
            run.fail(Finding('D-R1b', f.file, f.qualname, norm(st),
                             'cache %s is accessed with key `%s` that does not contain the working '
                             'precision: entries computed at one precision are served at another'
                             % (cname, norm(k, 50)), line=st.lineno))


# ---------------------------------------------------------------------------
def check_fixed(run, ix, row):
    f = ix.func(row['file'], row['func'])
    cname, const = row['container'], row['const']
    acc = CacheAccesses(f, cname)
    if not acc.any():
        raise AnalysisError('fixed cache %s not accessed in %s' % (cname, f.qualname))
    derived = prec_derived_names(f)
    # (1) a bypass `if prec > CONST: return ...` precedes every access
    first_access_line = min(n.lineno for n in acc.loads + [s for s, _ in acc.stores] + acc.tests)
    bypass = None
    for st in f.node.body:
        if isinstance(st, ast.If) and st.lineno < first_access_line:
            for c in conjuncts(st.test):
                n = compare_norm(c, lambda a: isinstance(a, ast.Name) and a.id == const,
                                 lambda b: is_prec_expr(b, derived) and not isinstance(b, ast.Constant))
                # normalised with CONST on the left:  CONST < prec   <=>  prec > CONST
                if n is not None and n[0] in (ast.Lt,) and \
                        any(isinstance(s, ast.Return) for s in st.body):
                    bypass = st
    if bypass is None:
        run.fail(Finding('D-R1c', f.file, f.qualname, 'access of %s' % cname,
                         'no `precision > %s -> bypass` guard before the table is used: entries '
                         'computed at %s bits would be served at higher precision' % (const, const),
                         line=f.lineno))
    else:
        run.ok('D-R1c', '%s bypassed when `%s`' % (cname, norm(bypass.test)))
    # (2) what is stored is computed at the constant precision only
    for st, sub in acc.stores:
        bad = [n.id for n in ast.walk(st.value) if isinstance(n, ast.Name) and n.id in derived]
        # names feeding the stored tuple
        feeding = set()
        for n in ast.walk(st.value):
            if isinstance(n, ast.Name):
                feeding.add(n.id)
        for x in _walk_own(f.node):
            if isinstance(x, ast.Assign) and x.lineno < st.lineno and \
                    any(isinstance(t, (ast.Name, ast.Tuple)) and
                        set(y.id for y in ast.walk(t) if isinstance(y, ast.Name)) & feeding
                        for t in x.targets):
                if getattr(x, '_parent', None) is getattr(st, '_parent', None):
                    for c in ast.walk(x.value):
                        if isinstance(c, ast.Call):
                            for a in c.args[1:]:
                                if any(isinstance(n, ast.Name) and n.id in derived for n in ast.walk(a)):
                                    bad.append(norm(a))
        if bad:
            run.fail(Finding('D-R1c', f.file, f.qualname, norm(st),
                             'table entry depends on the requested precision (%s) although the '
                             'key does not' % ', '.join(sorted(set(bad))), line=st.lineno))
        else:
            run.ok('D-R1c', 'entries of %s computed at constant precision' % cname)


# ---------------------------------------------------------------------------
def check_exact(run, ix, row):
    m = ix.module(row['file'])
    names = row['container'].split(',')
    if row['func'] is None:
        # must never be written from a function body
        for f in m.funcs.values():
            for c in names:
                acc = CacheAccesses(f, c)
                if acc.stores or acc.other:
                    st = acc.stores[0][0] if acc.stores else enclosing_stmt(acc.other[0])
                    if acc.other and not acc.stores and acc.other[0].func.attr not in MUTATORS:
                        continue
                    run.fail(Finding('D-R1d', f.file, f.qualname, norm(st),
                                     'exact table %s is written from a function body (entries '
                                     'would depend on the precision/rounding of that call)' % c,
                                     line=st.lineno))
        run.ok('D-R1d', '%s is only built at import time' % row['container'])
        return
    f = ix.func(row['file'], row['func'])
    derived = prec_derived_names(f)
    ctxparam = f.params and f.params[0] in ('ctx',) and row['file'] != 'mpmath/ctx_fp.py'
    reads_prec = any(isinstance(x, ast.Attribute) and x.attr in ('prec', 'dps', '_prec')
                     for x in _walk_own(f.node)) and row['file'] != 'mpmath/ctx_fp.py'
    if derived or reads_prec:
        run.fail(Finding('D-R1d', f.file, f.qualname, 'def %s' % f.name,
                         'function owning the exact table %s has a precision in scope (%s): '
                         'stored values may depend on it while the key does not'
                         % (row['container'], ', '.join(sorted(derived)) or 'ctx.prec'),
                         line=f.lineno))
    else:
        run.ok('D-R1d', '%s:%s stores exact values (no precision in scope)' % (f.file, f.qualname))


def check_purekey(run, ix, row):
    f = ix.func(row['file'], row['func'])
    acc = CacheAccesses(f, row['container'])
    if not acc.stores:
        raise AnalysisError('purekey cache %s has no store in %s' % (row['container'], f.qualname))
    for st, sub in acc.stores:
        keynames = set(n.id for n in ast.walk(sub.slice) if isinstance(n, ast.Name))
        free = set()
        for n in ast.walk(st.value):
            if isinstance(n, ast.Name):
                free.add(n.id)
        localnames = set(y.id for y in _walk_own(f.node)
                         if isinstance(y, ast.Name) and isinstance(y.ctx, ast.Store)) | set(f.all_params())
        bad = (free & localnames) - keynames
        if bad:
            run.fail(Finding('D-R1e', f.file, f.qualname, norm(st),
                             'value stored under key `%s` also depends on %s' %
                             (norm(sub.slice), ', '.join(sorted(bad))), line=st.lineno))
        else:
            run.ok('D-R1e', '%s = %s depends on the key only' % (norm(sub, 40), norm(st.value, 50)))


# ---------------------------------------------------------------------------
def check_constant_memo(run, ix):
    rel = 'mpmath/libmp/libelefun.py'
    g = ix.func(rel, 'constant_memo.g')
    outer = ix.func(rel, 'constant_memo')
    fname = outer.params[0]
    prec = g.params[0]
    tag_attr, val_attr = 'memo_prec', 'memo_val'
    tagnames = set()
    for x in _walk_own(g.node):
        if isinstance(x, ast.Assign) and isinstance(x.value, ast.Attribute) and \
                x.value.attr == tag_attr and isinstance(x.targets[0], ast.Name):
            tagnames.add(x.targets[0].id)

    def is_tag(e):
        return (isinstance(e, ast.Name) and e.id in tagnames) or \
            (isinstance(e, ast.Attribute) and e.attr == tag_attr)

    def is_req(e):
        return isinstance(e, ast.Name) and e.id == prec

    def safe_gate(c):
        n = compare_norm(c, is_tag, is_req)
        return n is not None and n[0] in (ast.GtE, ast.Gt)
    # (1) every return of memo_val that is not freshly computed is gated
    stores = [x for x in _walk_own(g.node) if isinstance(x, ast.Assign) and
              isinstance(x.targets[0], ast.Attribute) and x.targets[0].attr in (tag_attr, val_attr)]
    stores.sort(key=lambda st: st.lineno)
    val_store = [s for s in stores if s.targets[0].attr == val_attr]
    tag_store = [s for s in stores if s.targets[0].attr == tag_attr]
    for r in [x for x in _walk_own(g.node) if isinstance(x, ast.Return)]:
        uses_val = any(isinstance(n, ast.Attribute) and n.attr == val_attr for n in ast.walk(r))
        if not uses_val:
            continue
        after_fresh = any(s.lineno < r.lineno and getattr(s, '_parent', None) is getattr(r, '_parent', None)
                          for s in val_store)
        shift = None
        for n in ast.walk(r):
            if isinstance(n, ast.BinOp) and isinstance(n.op, ast.RShift):
                shift = n
        if after_fresh:
            # fresh path: shift must be (new precision - requested)
            newp = tag_store[0].value if tag_store else None
            ok = shift is not None and isinstance(shift.right, ast.BinOp) and \
                isinstance(shift.right.op, ast.Sub) and newp is not None and \
                norm(shift.right.left) == norm(newp) and is_req(shift.right.right)
            if ok:
                run.ok('D-R2', 'fresh path returns memo_val >> (newprec - prec)')
            else:
                run.fail(Finding('D-R2', rel, g.qualname, norm(r),
                                 'freshly computed constant is not shifted by (computed precision '
                                 '- requested precision)', line=r.lineno))
            continue
        if not gated_by(r, safe_gate, g.node):
            run.fail(Finding('D-R2', rel, g.qualname, norm(r),
                             'memoised constant returned without the gate `requested <= stored '
                             'precision` (a low-precision value would be served)', line=r.lineno))
        else:
            run.ok('D-R2', 'hit gated by prec <= memo_prec')
        ok = shift is not None and isinstance(shift.right, ast.BinOp) and \
            isinstance(shift.right.op, ast.Sub) and is_tag(shift.right.left) and \
            is_req(shift.right.right)
        if ok:
            run.ok('D-R2', 'hit shifts by (memo_prec - prec)')
        else:
            run.fail(Finding('D-R2', rel, g.qualname, norm(r),
                             'memoised fixed-point value is not shifted by exactly (stored - '
                             'requested) bits', line=r.lineno))
    # (2) torn-update safety of the (tag, value) pair
    why = torn_update_problem(g.node, val_attr, tag_attr, invalid=(-1,))
    if why:
        run.fail(Finding('D-R2', rel, g.qualname, 'stores of %s/%s' % (val_attr, tag_attr), why, line=g.lineno))
        return
    run.ok('D-R2', 'tag invalidated, value stored, tag validated (or one atomic store)')
    # the value must be computed at exactly the precision recorded in the (last) tag store
    ts = tag_store[-1]
    vs = val_store[-1]
    src = vs.value
    if isinstance(src, ast.Name):
        defs = [x for x in _walk_own(g.node) if isinstance(x, ast.Assign) and norm(x.targets[0]) == src.id]
        src = defs[-1].value if defs else src
    calls = [n for n in ast.walk(src) if isinstance(n, ast.Call) and norm(n.func) == fname]
    if not calls or not calls[0].args or norm(calls[0].args[0]) != norm(ts.value):
        run.fail(Finding('D-R2', rel, g.qualname, norm(ts), 'value is not computed at the precision recorded as its tag',
                         line=ts.lineno))
    else:
        run.ok('D-R2', 'value computed at the precision recorded in its tag')
    # fresh path: the freshly computed value is shifted by (new precision - requested)
    for r in [x for x in _walk_own(g.node) if isinstance(x, ast.Return)]:
        if isinstance(vs.value, ast.Name) and any(isinstance(n, ast.Name) and n.id == vs.value.id for n in ast.walk(r)):
            shift = [n for n in ast.walk(r) if isinstance(n, ast.BinOp) and isinstance(n.op, ast.RShift)]
            ok = shift and isinstance(shift[0].right, ast.BinOp) and isinstance(shift[0].right.op, ast.Sub) and \
                norm(shift[0].right.left) == norm(ts.value) and is_req(shift[0].right.right)
            if ok:
                run.ok('D-R2', 'fresh path returns value >> (newprec - prec)')
            else:
                run.fail(Finding('D-R2', rel, g.qualname, norm(r), 'freshly computed constant is not shifted by '
                                 '(computed precision - requested precision)', line=r.lineno))


def torn_update_problem(fnode, val_attr, tag_attr, invalid):
    """A cache entry is a (precision tag, value) pair kept in two attributes.  An exception (KeyboardInterrupt,
    a timeout signal) can arrive between any two statements, so the update must be safe at every cut:
    either ONE store of a tuple, or   tag := invalid ; value := new ; tag := valid   as consecutive statements
    (cut after 1: entry unusable, recomputed; cut after 2: same).  `value; tag` leaves the new value under the
    old tag (pi * 2^365 was served after an interrupted upgrade of pi), `tag; value` the old value under the new
    tag.  Returns a reason, or None."""
    stores = [x for x in _walk_own(fnode) if isinstance(x, ast.Assign) and len(x.targets) == 1 and
              isinstance(x.targets[0], ast.Attribute) and x.targets[0].attr in (val_attr, tag_attr)]
    vals = [x for x in stores if x.targets[0].attr == val_attr]
    tags = [x for x in stores if x.targets[0].attr == tag_attr]
    if len(vals) != 1:
        return 'expected exactly one store of the value, found %d' % len(vals)
    vs = vals[0]
    blk = vs._parent
    body = None
    for field in ('body', 'orelse', 'finalbody'):
        b = getattr(blk, field, None)
        if isinstance(b, list) and vs in b:
            body = b
    if body is None:
        return 'value store not found in a statement list'
    i = body.index(vs)
    before = body[i - 1] if i > 0 else None
    after = body[i + 1] if i + 1 < len(body) else None

    def is_tag_store(st):
        return st in tags

    if not (before is not None and is_tag_store(before) and isinstance(before.value, (ast.Constant, ast.UnaryOp)) and
            _const_value(before.value) in invalid):
        return ('the value is stored while the old precision tag is still in force: an interrupt right after it '
                'leaves the NEW value under the OLD tag (it is then served at the wrong scale / as if it had the '
                'old accuracy); the tag must be invalidated (%s) in the statement before' % (invalid,))
    if not (after is not None and is_tag_store(after)):
        return 'the value store is not immediately followed by the store of its precision tag'
    if any(isinstance(n, ast.Call) for n in ast.walk(after.value)) and not isinstance(after.value, ast.Attribute):
        if not (isinstance(after.value, ast.Attribute)):
            return 'the validating tag store evaluates a call'
    if len(tags) != 2:
        return 'expected the two tag stores of the protocol, found %d' % len(tags)
    return None


def _const_value(e):
    if isinstance(e, ast.Constant):
        return e.value
    if isinstance(e, ast.UnaryOp) and isinstance(e.op, ast.USub) and isinstance(e.operand, ast.Constant):
        return -e.operand.value
    return None


# ---------------------------------------------------------------------------
def check_lu(run, ix):
    rel = 'mpmath/matrices/linalg.py'
    f = ix.func(rel, 'LinearAlgebraMethods.LU_decomp')
    derived = prec_derived_names(f)
    # names bound from the cached pair (LU, p = A._LU)
    cached_names = set()
    unpack_blocks = []
    for x in _walk_own(f.node):
        if isinstance(x, ast.Assign) and isinstance(x.value, ast.Attribute) and x.value.attr == '_LU':
            unpack_blocks.append(x._parent)
            for t in x.targets:
                for n in ast.walk(t):
                    if isinstance(n, ast.Name):
                        cached_names.add(n.id)

    def from_cache(r):
        if any(isinstance(n, ast.Attribute) and n.attr == '_LU' for n in ast.walk(r.value)):
            return True
        # the names unpacked from the cached pair, inside the block that unpacked them
        return any(isinstance(n, ast.Name) and n.id in cached_names for n in ast.walk(r.value)) and \
            any(a in unpack_blocks for a in ancestors(r))
    hits = [r for r in _walk_own(f.node) if isinstance(r, ast.Return) and r.value is not None
            and from_cache(r)]
    if not hits:
        raise AnalysisError('LU_decomp: cache hit return not found')
    check_lu_aliasing(run, f, hits, cached_names)

    def is_tag(e):
        return isinstance(e, ast.Attribute) and e.attr.startswith('_LU') and e.attr != '_LU'

    def is_req(e):
        return is_prec_expr(e, derived) and not isinstance(e, ast.Constant)

    def safe_gate(c):
        n = compare_norm(c, is_tag, is_req)
        return n is not None and n[0] in SAFE_OPS
    for r in hits:
        if gated_by(r, safe_gate, f.node):
            run.ok('D-LU', 'cached LU returned only when its precision tag >= ctx.prec')
        else:
            run.fail(Finding('D-LU', rel, f.qualname, norm(r),
                             'cached LU factors are reused without comparing the precision they '
                             'were computed at with the current one', line=r.lineno))
    # D-LU4 (fourth C33 hunt; repair 10a4368): the factorisation REJECTS a matrix by a test against a tolerance derived
    # from ctx.eps (numerically singular).  Factors cached at a higher precision would answer where a fresh computation
    # at the present precision raises: such a result is reusable at the SAME precision only.
    eps_names = set()
    for x in _walk_own(f.node):
        if isinstance(x, ast.Assign) and len(x.targets) == 1 and isinstance(x.targets[0], ast.Name) and \
                any(isinstance(y, ast.Attribute) and y.attr == 'eps' for y in ast.walk(x.value)):
            eps_names.add(x.targets[0].id)
    rejects = [i for i in _walk_own(f.node) if isinstance(i, ast.If) and
               any(isinstance(y, ast.Name) and y.id in eps_names for y in ast.walk(i.test)) and
               any(isinstance(b, ast.Raise) for b in i.body)]
    if rejects:
        def eq_gate(c):
            n = compare_norm(c, is_tag, is_req)
            return n is not None and n[0] is ast.Eq
        for r in hits:
            if gated_by(r, eq_gate, f.node):
                run.ok('D-LU4', 'the computation rejects by a precision-dependent test (line %d): cached factors are '
                       'reused at the same precision only' % rejects[0].lineno)
            else:
                run.fail(Finding('D-LU4', rel, f.qualname, norm(r),
                                 'the factorisation raises for a pivot below a tolerance derived from ctx.eps (`%s`), but '
                                 'factors cached at a HIGHER precision are handed out at a lower one: '
                                 'lu([[1, 1], [1, 1 + 2**-80]]) at 53 bits raises ZeroDivisionError in a fresh process and '
                                 'returns factors (with 100-bit entries) after the same call at 100 bits'
                                 % norm(rejects[0].test, 50), line=r.lineno))
    else:
        run.ok('D-LU4', 'no precision-dependent rejection in the factorisation')
    # the store records the precision together with the factors
    stores = [x for x in _walk_own(f.node) if isinstance(x, ast.Assign) and
              any(isinstance(t, ast.Attribute) and t.attr == '_LU' for t in x.targets)]
    for st in stores:
        blk = getattr(st, '_parent', None)
        sib = []
        for field in ('body', 'orelse'):
            b = getattr(blk, field, None)
            if isinstance(b, list) and st in b:
                sib = b
        tagged = any(isinstance(x, ast.Assign) and any(is_tag(t) for t in x.targets) and
                     is_req(x.value) for x in sib)
        if tagged:
            run.ok('D-LU', 'store of _LU records the precision')
            # nothing that can reject the factorisation may come after the store: an exception raised there leaves
            # factors in the cache that a fresh computation refuses to return
            body = f.node.body
            top = st
            while top._parent is not f.node:
                top = top._parent
            later = [x for s2 in body[body.index(top) + 1:] for x in ast.walk(s2) if isinstance(x, ast.Raise)]
            if later:
                run.fail(Finding('D-LU', rel, f.qualname, norm(later[0]._parent if hasattr(later[0], '_parent') else later[0]),
                                 'a check that rejects the factorisation (%s) runs AFTER the factors were cached: the '
                                 'call raises, but the next call on the same matrix is served the rejected factors'
                                 % norm(later[0], 60), line=later[0].lineno))
            else:
                run.ok('D-LU', 'no rejecting check after the store')
            why = torn_update_problem(f.node, '_LU', '_LU_prec', invalid=(0,))
            if why:
                run.fail(Finding('D-LU', rel, f.qualname, norm(st), why, line=st.lineno))
            else:
                run.ok('D-LU', 'tag invalidated, factors stored, tag validated')
        else:
            run.fail(Finding('D-LU', rel, f.qualname, norm(st),
                             'LU factors are cached without recording the precision', line=st.lineno))


def _is_copy(e):
    """`x.copy()`, `x[:]`, `list(x)`: a new object with the contents of x."""
    if isinstance(e, ast.Call) and isinstance(e.func, ast.Attribute) and e.func.attr in ('copy', '__copy__'):
        return True
    if isinstance(e, ast.Call) and isinstance(e.func, ast.Name) and e.func.id in ('list', 'tuple') and e.args:
        return True
    if isinstance(e, ast.Subscript) and isinstance(e.slice, ast.Slice) and e.slice.lower is None and \
            e.slice.upper is None:
        return True
    return False


def check_lu_aliasing(run, f, hits, cached_names):
    """D-LU2: the factor objects held in the cache are never handed to a caller.  LU_decomp is public and its
    result is mutable (a matrix and a list): a caller that writes into what it was given (splitting LU into L
    and U in place) would otherwise change what lu(), lu_solve() and LU_decomp() compute for the unchanged
    matrix afterwards.  Decided: (a) every component returned on the hit path is a copy expression; (b) no
    object stored in `_LU` is also returned by a plain name."""
    for r in hits:
        comps = r.value.elts if isinstance(r.value, ast.Tuple) else [r.value]
        bad = [c for c in comps if not _is_copy(c)]
        if bad:
            run.fail(Finding('D-LU2', f.file, f.qualname, norm(r),
                             'the cache hit returns the cached object itself (`%s`): a caller that modifies its '
                             'result changes the factors served for the unchanged matrix afterwards'
                             % norm(bad[0], 40), line=r.lineno))
        else:
            run.ok('D-LU2', 'hit path returns copies: `%s`' % norm(r, 60))
    returned = set()
    for r in _walk_own(f.node):
        if isinstance(r, ast.Return) and r.value is not None and r not in hits:
            comps = r.value.elts if isinstance(r.value, ast.Tuple) else [r.value]
            returned |= set(c.id for c in comps if isinstance(c, ast.Name))
    for x in _walk_own(f.node):
        if isinstance(x, ast.Assign) and any(isinstance(t, ast.Attribute) and t.attr == '_LU' for t in x.targets):
            comps = x.value.elts if isinstance(x.value, ast.Tuple) else [x.value]
            shared = [c.id for c in comps if isinstance(c, ast.Name) and c.id in returned]
            if shared:
                run.fail(Finding('D-LU2', f.file, f.qualname, norm(x),
                                 'the object `%s` is stored in the cache AND returned to the caller: writing into '
                                 'the result changes the cached factors' % shared[0], line=x.lineno))
            else:
                run.ok('D-LU2', 'stored factors are not the returned objects: `%s`' % norm(x, 60))


class LUState(FlowAnalysis):
    """typestate of self._LU inside one _matrix method: 'held' (the cache may hold factors of the present entries) /
    'dropped' (self._LU = None has run).  A mutation of the payload in state 'held' is the violation: whatever comes
    after it -- an exception raised between the change and a later `self._LU = None` included -- leaves factors of the
    OLD entries with the NEW matrix.  (Fourth C33 hunt: the earlier form of the rule asked for the drop on every NORMAL
    exit only, and the setters dropped the cache last.)"""

    def __init__(self, selfname, fresh):
        self.selfname = selfname
        self.fresh = fresh
        self.sites = []
        self.bad = []

    def join(self, a, b):
        return a if a == b else 'held'

    def _mut(self, node):
        s = self.selfname
        for x in ast.walk(node):
            if isinstance(x, ast.Subscript) and isinstance(x.ctx, (ast.Store, ast.Del)) and \
                    norm(x.value) == '%s.__data' % s:
                return True
            if isinstance(x, ast.Attribute) and isinstance(x.ctx, ast.Store) and \
                    norm(x) in ('%s.__data' % s, '%s.__rows' % s, '%s.__cols' % s):
                return True
            if isinstance(x, ast.Call) and norm(x.func) == '%s.__set_element' % s:
                return True
            if isinstance(x, ast.Call) and isinstance(x.func, ast.Attribute) and \
                    norm(x.func.value) == '%s.__data' % s and x.func.attr in MUTATORS:
                return True
        return False

    def simple(self, node, state):
        if isinstance(node, ast.Assign) and any(norm(t) == '%s._LU' % self.selfname
                                                for t in node.targets):
            if isinstance(node.value, ast.Constant) and node.value.value is None:
                return 'dropped', state
            return 'held', state
        if self._mut(node):
            self.sites.append(node)
            if state != 'dropped' and node not in self.bad:
                self.bad.append(node)
            return state, state
        return state, state

    def cond(self, test, state):
        if norm(test) == '%s._LU' % self.selfname:
            # false branch: the cache is empty, nothing can be stale
            return state, 'dropped', state
        return state, state, state


def check_matrix_typestate(run, ix):
    rel = 'mpmath/matrices/matrices.py'
    m = ix.module(rel)
    ci = m.classes.get('_matrix')
    if ci is None:
        raise AnalysisError('class _matrix vanished')
    n = 0
    for name, f in sorted(ci.methods.items()):
        if not f.params:
            continue
        s = f.params[0]
        an = LUState(s, set())
        if name in ('__init__',):
            # a new object: _LU is initialised to None before anything else
            first = [st for st in f.node.body if not (isinstance(st, ast.Expr) and isinstance(st.value, ast.Constant))]
            init_ok = any(isinstance(st, ast.Assign) and norm(st.targets[0]) == '%s._LU' % s and
                          isinstance(st.value, ast.Constant) and st.value.value is None
                          for st in first[:3])
            if init_ok:
                run.ok('D-R4', '_matrix.__init__ starts with an empty LU cache')
            else:
                run.fail(Finding('D-R4', rel, f.qualname, 'def __init__',
                                 '_LU is not initialised to None at construction', line=f.lineno))
            n += 1
            continue
        if name == '__set_element':
            # documented unsafe helper: callers are responsible (its calls count as mutations)
            continue
        an.run(f.node.body, 'held')
        if not an.sites:
            continue
        n += 1
        if an.bad:
            run.fail(Finding('D-R4', rel, f.qualname, norm(an.bad[0]),
                             'the matrix contents/shape change while the cached LU decomposition may still be held: a '
                             'return, or an exception, before a later `%s._LU = None` leaves the factors of the old entries '
                             'with the new matrix (A[0,0] = 7 interrupted before its last statement: LU_decomp(A) returned '
                             'the factors of the old A)' % s, line=an.bad[0].lineno))
        else:
            run.ok('D-R4', '%s drops _LU before its first change of the entries' % f.qualname)
    if n < 3:
        raise AnalysisError('matrix typestate: only %d mutating methods recognised' % n)
    # copy() must not alias the payload
    f = ci.methods.get('copy')
    if f is not None:
        ok = any(isinstance(x, ast.Assign) and norm(x.targets[0]).endswith('.__data') and
                 isinstance(x.value, ast.Call) and norm(x.value.func).endswith('.__data.copy')
                 for x in _walk_own(f.node))
        if ok:
            run.ok('D-R4', 'copy() gives the new matrix its own payload dict')
        else:
            run.fail(Finding('D-R4', rel, f.qualname, 'def copy',
                             'copy shares the payload dict with the original', line=f.lineno))


# ---------------------------------------------------------------------------
def check_cross_context(run, ix):
    """module-level / default-argument containers written from context-level
    functions (first parameter ctx) with values computed through the context"""
    for rel, m in sorted(ix.modules.items()):
        modnames = set(n for n, v, st, g in m.toplevel_assigns if is_container(v))
        for f in m.funcs.values():
            if f.parent is not None or not f.params or f.params[0] != 'ctx':
                continue
            shared = set(p for p, d in f.defaults().items() if is_container(d)) | modnames
            for x in _walk_own(f.node):
                if isinstance(x, ast.Assign) and len(x.targets) == 1 and \
                        isinstance(x.targets[0], ast.Subscript) and \
                        isinstance(x.targets[0].value, ast.Name) and \
                        x.targets[0].value.id in shared:
                    cname = x.targets[0].value.id
                    keytxt = norm(x.targets[0].slice)
                    ctx_in_key = any(isinstance(n, ast.Name) and n.id == 'ctx'
                                     for n in ast.walk(x.targets[0].slice))
                    dep = ctx_dependent(f, x.value)
                    exempt = None
                    for row in tables.CACHES:
                        if row['file'] == rel and row['container'] == cname and \
                                row.get('rule') == 'D-IV' and row['func'] == f.qualname:
                            exempt = row
                    if exempt:
                        check_interval_cache(run, f, cname, exempt)
                        continue
                    if dep and not ctx_in_key:
                        run.fail(Finding('D-R3', rel, f.qualname, norm(x),
                                         'a value computed through the context (%s) is stored in '
                                         '`%s`, a container shared by all contexts (mp, fp, iv, '
                                         'clones), under a key (%s) that does not identify the '
                                         'context: another context is served this context\'s '
                                         'numbers' % (dep, cname, keytxt), line=x.lineno))
                    else:
                        run.ok('D-R3', '%s:%s store into shared %s is context-free or keyed by ctx'
                               % (rel, f.qualname, cname))
    # closure containers: a nested function that receives the context and stores context-derived values into a
    # container created in an ENCLOSING function that does not itself receive the context (a decorator such as
    # c_memo(f): cache = {} ...) shares that container between every context that calls the wrapped function
    for rel, m in sorted(ix.modules.items()):
        for f in m.funcs.values():
            if f.parent is None or not f.params or f.params[0] != 'ctx':
                continue
            outer = f.parent
            chain = []
            while outer is not None:
                chain.append(outer)
                outer = outer.parent
            if any(o.params and o.params[0] in ('ctx', 'self') for o in chain):
                continue            # the enclosing activation belongs to one context
            outer_containers = set()
            for o in chain:
                for x in _walk_own(o.node):
                    if isinstance(x, ast.Assign) and len(x.targets) == 1 and isinstance(x.targets[0], ast.Name) and \
                            is_container(x.value):
                        outer_containers.add(x.targets[0].id)
            local = set(t.id for x in _walk_own(f.node) if isinstance(x, ast.Assign) for t in x.targets
                        if isinstance(t, ast.Name))
            for x in _walk_own(f.node):
                if isinstance(x, ast.Assign) and len(x.targets) == 1 and isinstance(x.targets[0], ast.Subscript) and \
                        isinstance(x.targets[0].value, ast.Name) and x.targets[0].value.id in outer_containers - local:
                    cname = x.targets[0].value.id
                    dep = ctx_dependent(f, x.value)
                    ctx_in_key = any(isinstance(n, ast.Name) and n.id == 'ctx' for n in ast.walk(x.targets[0].slice))
                    if dep and not ctx_in_key:
                        run.fail(Finding('D-R3', rel, f.qualname, norm(x),
                                         'a value computed through the context (%s) is stored in `%s`, a container that '
                                         'belongs to the enclosing %s() -- created once per decorated function, not per '
                                         'context: every context (mp, clones, fp, iv) is served the numbers of whichever '
                                         'context filled it' % (dep, cname, chain[0].name), line=x.lineno))
                    else:
                        run.ok('D-R3', '%s:%s closure container %s is context-free or keyed by ctx' % (rel, f.qualname, cname))
    # positive control: the rule must see at least the kernel-level shared caches
    run.ok('D-R3', 'scan complete')
    run.ok('D-R3', 'scan covers %d modules' % len(ix.modules))


def ctx_dependent(f, expr):
    """name of a ctx-derived ingredient of expr, or None"""
    tainted = set()
    changed = True
    while changed:
        changed = False
        for x in _walk_own(f.node):
            if isinstance(x, ast.Assign):
                if _mentions_ctx(x.value, tainted):
                    for t in x.targets:
                        for n in ast.walk(t):
                            if isinstance(n, ast.Name) and n.id not in tainted:
                                tainted.add(n.id)
                                changed = True
    return _mentions_ctx(expr, tainted)


def _mentions_ctx(e, tainted):
    for n in ast.walk(e):
        if isinstance(n, ast.Attribute) and isinstance(n.value, ast.Name) and n.value.id == 'ctx':
            return norm(n)
        if isinstance(n, ast.Name) and n.id in tainted:
            return n.id
        if isinstance(n, ast.Call):
            for a in n.args:
                if isinstance(a, ast.Name) and a.id == 'ctx':
                    return norm(n, 40)
    return None


def check_interval_cache(run, f, cname, row):
    """bracketing-interval cache: every value read from it is passed to a
    solver call that receives the current context (re-solved at the current
    precision), never returned directly"""
    acc = CacheAccesses(f, cname)
    ok = True
    for ld in acc.loads:
        p = ld._parent
        if not (isinstance(p, ast.Call) and p.args and isinstance(p.args[0], ast.Name)
                and p.args[0].id == 'ctx'):
            ok = False
    if ok and acc.loads:
        run.ok('D-R3', '%s: cached brackets are only handed to a solver run in the current context'
               % f.qualname)
    else:
        run.fail(Finding('D-R3', f.file, f.qualname, 'read of %s' % cname,
                         'a cached bracket is used other than as input of a solver call in the '
                         'current context', line=f.lineno))


# ---------------------------------------------------------------------------
def check_memoize_key(run, ix):
    f = ix.func('mpmath/ctx_base.py', 'StandardBaseContext.memoize.f_cached')
    if not (f.vararg and f.kwarg):
        raise AnalysisError('memoize.f_cached signature changed')
    keyassigns = [x for x in _walk_own(f.node) if isinstance(x, ast.Assign) and
                  isinstance(x.targets[0], ast.Name) and x.targets[0].id == 'key']
    if not keyassigns:
        raise AnalysisError('memoize: key computation not found')
    problems = []
    for ka in keyassigns:
        under_kwargs = any(isinstance(a, ast.If) and norm(a.test) == f.kwarg and ka in a.body
                           for a in ancestors(ka))
        names = set(n.id for n in ast.walk(ka.value) if isinstance(n, ast.Name))
        if f.vararg not in names:
            problems.append('key `%s` does not include the positional arguments' % norm(ka.value))
        if under_kwargs:
            uses = [n for n in ast.walk(ka.value) if isinstance(n, ast.Name) and n.id == f.kwarg]
            good = [u for u in uses if isinstance(u._parent, ast.Attribute) and
                    u._parent.attr == 'items']
            if not uses or len(good) != len(uses):
                problems.append('key `%s` does not include the keyword argument VALUES '
                                '(kwargs.items())' % norm(ka.value))
    has_kw_branch = any(any(isinstance(a, ast.If) and norm(a.test) == f.kwarg for a in ancestors(ka))
                        for ka in keyassigns)
    if not has_kw_branch and not any(f.kwarg in [n.id for n in ast.walk(ka.value) if isinstance(n, ast.Name)]
                                     for ka in keyassigns):
        problems.append('keyword arguments are not part of the key at all')
    if problems:
        run.fail(Finding('D-R6', f.file, f.qualname, norm(keyassigns[0]),
                         '; '.join(problems) + ': calls with different arguments share a cache entry',
                         line=keyassigns[0].lineno))
    else:
        run.ok('D-R6', 'memoize key = (args, tuple(kwargs.items()))')


def check_memoize_hit(run, ix):
    """D-R6h: a memoize hit gives what the miss gave.  Whatever the hit path applies to the cached value beyond
    returning it (the unary plus that rounds a number to the current precision) must not be able to fail for a
    value the miss path returned happily: an operation on the cached value is accepted only inside a `try`
    whose TypeError handler returns the cached value unchanged."""
    f = ix.func('mpmath/ctx_base.py', 'StandardBaseContext.memoize.f_cached')
    cached = set()
    for x in _walk_own(f.node):
        if isinstance(x, ast.Assign) and isinstance(x.value, ast.Subscript) and norm(x.value.value) == 'f_cache':
            for t in x.targets:
                for n in ast.walk(t):
                    if isinstance(n, ast.Name):
                        cached.add(n.id)
    rets = [r for r in _walk_own(f.node) if isinstance(r, ast.Return) and r.value is not None and
            any(isinstance(n, ast.Name) and n.id in cached for n in ast.walk(r.value))]
    if not rets:
        raise AnalysisError('memoize: hit return not found')
    for r in rets:
        if isinstance(r.value, ast.Name):
            run.ok('D-R6h', 'hit returns the cached value as it is: `%s`' % norm(r))
            continue
        guarded = False
        for a in ancestors(r):
            if isinstance(a, ast.Try) and r in [n for s in a.body for n in ast.walk(s)]:
                for h in a.handlers:
                    names = [n.id for n in ast.walk(h.type) if isinstance(n, ast.Name)] \
                        if h.type is not None else ['BaseException']
                    if set(names) & {'TypeError', 'Exception', 'BaseException'} and \
                            any(isinstance(x, ast.Return) and isinstance(x.value, ast.Name) and x.value.id in cached
                                for s in h.body for x in ast.walk(s)):
                        guarded = True
        if guarded:
            run.ok('D-R6h', 'operation on the cached value falls back to the value itself: `%s`' % norm(r))
        else:
            run.fail(Finding('D-R6h', f.file, f.qualname, norm(r),
                             'the hit path applies `%s` to the cached value with no fallback: for a function whose '
                             'value is not a number (a tuple of results) the second identical call raises '
                             'TypeError where the first returned' % norm(r.value, 30), line=r.lineno))


def check_memoize_aliasing(run, ix):
    """D-R6m (fourth C33 hunt; repair 7af2159): the miss path of memoize returns the computed value to the caller.  If the
    same OBJECT goes into the cache and the value is mutable (a matrix), what the caller does to its result changes
    every later hit.  Decided: every store `f_cache[key] = (prec, <v>)` whose <v> is the name the miss path returns
    stands in the else-branch of (or after a return/continue under) an `isinstance(<v>, ctx.matrix)` test whose own
    branch stores a copy (`<v>.copy()`, `+<v>`, `copy(<v>)`)."""
    f = ix.func('mpmath/ctx_base.py', 'StandardBaseContext.memoize.f_cached')
    stores = [x for x in _walk_own(f.node) if isinstance(x, ast.Assign) and
              any(isinstance(t, ast.Subscript) and norm(t.value) == 'f_cache' for t in x.targets)]
    if not stores:
        raise AnalysisError('memoize: store not found')
    returned = set(r.value.id for r in _walk_own(f.node) if isinstance(r, ast.Return) and isinstance(r.value, ast.Name))

    def is_copy_of(e, name):
        t = norm(e).replace(' ', '')
        return t in ('%s.copy()' % name, '+%s' % name, 'copy(%s)' % name, 'copy.copy(%s)' % name,
                     'copy.deepcopy(%s)' % name, 'deepcopy(%s)' % name)
    for st in stores:
        val = st.value.elts[-1] if isinstance(st.value, ast.Tuple) and st.value.elts else st.value
        if not (isinstance(val, ast.Name) and val.id in returned):
            if any(is_copy_of(val, n) for n in returned):
                run.ok('D-R6m', 'the cache keeps a copy: `%s`' % norm(st, 60))
            else:
                run.ok('D-R6m', 'stored value is not the returned object: `%s`' % norm(st, 60))
            continue
        name = val.id
        par = st._parent
        ok = False
        if isinstance(par, ast.If) and any(st is b for b in par.orelse):
            t = norm(par.test).replace(' ', '')
            if t.startswith('isinstance(%s,' % name) and 'matrix' in t:
                bs = [x for b in par.body for x in ast.walk(b) if isinstance(x, ast.Assign) and
                      any(isinstance(tg, ast.Subscript) and norm(tg.value) == 'f_cache' for tg in x.targets)]
                if bs and all(is_copy_of(x.value.elts[-1] if isinstance(x.value, ast.Tuple) else x.value, name) for x in bs):
                    ok = True
        if not ok:
            # the other way round: the cache keeps the object and a matrix leaves as a copy
            bare = [r for r in _walk_own(f.node) if isinstance(r, ast.Return) and isinstance(r.value, ast.Name) and
                    r.value.id == name and r.lineno > st.lineno]
            def _guarded(r):
                blk = getattr(r._parent, 'body', [])
                for fld in ('body', 'orelse', 'finalbody'):
                    b_ = getattr(r._parent, fld, None)
                    if isinstance(b_, list) and any(r is y for y in b_):
                        blk = b_
                for prev in blk[:[i for i, y in enumerate(blk) if y is r][0]]:
                    if isinstance(prev, ast.If):
                        t_ = norm(prev.test).replace(' ', '')
                        if t_.startswith('isinstance(%s,' % name) and 'matrix' in t_ and prev.body and \
                                isinstance(prev.body[-1], ast.Return) and is_copy_of(prev.body[-1].value, name):
                            return True
                return False
            if bare and all(_guarded(r) for r in bare):
                ok = True
        if ok:
            run.ok('D-R6m', 'a matrix result is stored as a copy, other results as they are')
        else:
            run.fail(Finding('D-R6m', f.file, f.qualname, norm(st),
                             'the object returned to the first caller is the object kept in the cache, matrices included: '
                             'f = memoize(hilbert); A = f(2); A[0,0] = 99 makes every later f(2) return the changed matrix',
                             line=st.lineno))


def check_derived_with_key(run, ix):
    """D-R1g: what is stored under a precision key was sized for THAT key.  In the function that fills a keyed
    cache, a quantity derived from the key variable (a number of terms, a working precision) that flows into
    the stored value must be recomputed after every later reassignment of the key variable that reaches the
    store; otherwise the entry is filed under a precision it was not built for and later requests up to that
    precision are served too few terms."""
    for row in tables.CACHES:
        if row['kind'] != 'keyed':
            continue
        f = ix.func(row['file'], row['func'])
        cname = row['container']
        own = list(_walk_own(f.node))
        for st in own:
            if not (isinstance(st, ast.Assign) and len(st.targets) == 1 and
                    isinstance(st.targets[0], ast.Subscript) and norm(st.targets[0].value) == cname):
                continue
            keyexpr = st.targets[0].slice
            keys = [n.id for n in ast.walk(keyexpr) if isinstance(n, ast.Name)]
            for K in keys:
                kdefs = [x for x in own if isinstance(x, (ast.Assign, ast.AugAssign)) and
                         any(isinstance(t, ast.Name) and t.id == K
                             for t in (x.targets if isinstance(x, ast.Assign) else [x.target]))
                         and x.lineno < st.lineno]
                if not kdefs:
                    continue
                # names flowing into the stored value (data and control dependence)
                flow = set()
                todo = [n.id for n in ast.walk(st.value) if isinstance(n, ast.Name)]
                while todo:
                    v = todo.pop()
                    if v in flow:
                        continue
                    flow.add(v)
                    for x in own:
                        tg = []
                        if isinstance(x, ast.Assign):
                            tg = x.targets
                        elif isinstance(x, ast.AugAssign):
                            tg = [x.target]
                        hit = False
                        for t in tg:
                            base = t
                            while isinstance(base, ast.Subscript):
                                base = base.value
                            if isinstance(base, ast.Name) and base.id == v:
                                hit = True
                        if not hit or x.lineno > st.lineno:
                            continue
                        srcs = [x.value]
                        for a in ancestors(x):
                            if a is f.node:
                                break
                            if isinstance(a, ast.For):
                                srcs.append(a.iter)
                            elif isinstance(a, ast.While):
                                srcs.append(a.test)
                        for e in srcs:
                            todo.extend(n.id for n in ast.walk(e) if isinstance(n, ast.Name))
                for P in sorted(flow - {K}):
                    pdefs = [x for x in own if isinstance(x, ast.Assign) and
                             any(isinstance(t, ast.Name) and t.id == P for t in x.targets) and
                             x.lineno < st.lineno and
                             any(isinstance(n, ast.Name) and n.id == K for n in ast.walk(x.value))]
                    if not pdefs:
                        continue
                    stale = None
                    for kd in kdefs:
                        before = [pd for pd in pdefs if pd.lineno < kd.lineno]
                        if not before:
                            continue
                        # a redefinition of P after kd, in kd's block or an enclosing one
                        blocks = [kd._parent] + [a for a in ancestors(kd)]
                        ok = any(pd.lineno > kd.lineno and pd._parent in blocks for pd in pdefs)
                        if not ok:
                            stale = kd
                    if stale is not None:
                        run.fail(Finding('D-R1g', f.file, f.qualname, norm(stale),
                                         '`%s` was computed from `%s` before this reassignment and flows into the '
                                         'value stored as %s[%s]: the entry is filed under a precision it was not '
                                         'sized for, and a later request up to that precision is served it'
                                         % (P, K, cname, norm(keyexpr)), line=stale.lineno))
                    else:
                        run.ok('D-R1g', '%s: `%s` is current with key `%s` at `%s`'
                               % (f.qualname, P, K, norm(st, 50)))


def check_call_local_rules(run, ix):
    """D-R9: the working data of one invertlaplace call lives on an object of that call.  The rule classes store
    the abscissas, weights, degree and the saved precision on `self` in calc_laplace_parameter; the transform f
    is user code that may call invertlaplace again (a coefficient defined by another inverse transform), so an
    object shared between calls is overwritten under the outer call.  Decided: every object whose
    calc_laplace_parameter is invoked by invertlaplace is constructed in that call."""
    rel = 'mpmath/calculus/inverselaplace.py'
    f = ix.func(rel, 'LaplaceTransformInversionMethods.invertlaplace')
    mod = ix.modules[rel]
    stateful = set()
    for c in mod.tree.body:
        if isinstance(c, ast.ClassDef):
            for m in c.body:
                if isinstance(m, ast.FunctionDef) and m.name == 'calc_laplace_parameter' and \
                        any(isinstance(x, (ast.Assign, ast.AugAssign)) and
                            any(isinstance(t, ast.Attribute) and norm(t.value) == 'self'
                                for t in (x.targets if isinstance(x, ast.Assign) else [x.target]))
                            for x in ast.walk(m)):
                    stateful.add(c.name)
    if len(stateful) < 3:
        raise AnalysisError('inverselaplace: stateful rule classes not found')
    users = [x for x in _walk_own(f.node) if isinstance(x, ast.Call) and isinstance(x.func, ast.Attribute)
             and x.func.attr == 'calc_laplace_parameter' and isinstance(x.func.value, ast.Name)]
    if not users:
        raise AnalysisError('invertlaplace: calc_laplace_parameter call not found')
    var = users[0].func.value.id
    n = 0
    for x in _walk_own(f.node):
        if isinstance(x, ast.Assign) and any(isinstance(t, ast.Name) and t.id == var for t in x.targets):
            v = x.value
            if isinstance(v, ast.Call) and isinstance(v.func, ast.Attribute) and v.func.attr == 'get' and \
                    norm(v.func.value) == (f.kwarg or 'kwargs'):
                continue                       # the method specification, dispatched below
            n += 1
            if isinstance(v, ast.Call) and isinstance(v.func, ast.Name) and \
                    (v.func.id in stateful or v.func.id == var):
                run.ok('D-R9', 'rule object constructed in the call: `%s`' % norm(x))
            else:
                run.fail(Finding('D-R9', rel, f.qualname, norm(x),
                                 'the rule object `%s` outlives the call, but holds its working data (abscissas, '
                                 'weights, saved precision): a transform that itself calls invertlaplace overwrites '
                                 'them under the outer call' % norm(v, 40), line=x.lineno))
    if not n:
        raise AnalysisError('invertlaplace: rule selection not found')


VALUE_KEYS = [
    # (file, function, container(s), the key parts that are user values)
    ('mpmath/calculus/quadrature.py', 'QuadratureRule.get_nodes', ('self.transformed_cache', 'self.interval_count'), ('a', 'b')),
]


def check_value_key_types(run, ix):
    """D-R1h.  A cache key made of user VALUES identifies the computation only together with their types: 0 == 0j,
    3 == mpf(3) == 3.0 and their hashes agree, but the nodes for complex end points are complex and the value of a
    memoized function for an int argument is not its value for an mpf argument.  Decided: the key of the
    transformed-node cache contains type(a) and type(b) next to a and b; the memoize key contains the types of
    all positional and keyword argument values."""
    for rel, qn, conts, vals in VALUE_KEYS:
        f = ix.func(rel, qn)
        keydefs = [x for x in _walk_own(f.node) if isinstance(x, ast.Assign) and isinstance(x.targets[0], ast.Name)
                   and isinstance(x.value, ast.Tuple) and
                   all(any(norm(e) == v for e in x.value.elts) for v in vals)]
        if not keydefs:
            raise AnalysisError('%s: key of %s not found' % (qn, conts[0]))
        for kd in keydefs:
            have = [norm(e) for e in kd.value.elts]
            missing = [v for v in vals if 'type(%s)' % v not in have]
            used = [c for c in _walk_own(f.node) if isinstance(c, ast.Subscript) and norm(c.value) in conts and
                    norm(c.slice) == kd.targets[0].id]
            if not used:
                continue
            if missing:
                run.fail(Finding('D-R1h', rel, qn, norm(kd),
                                 'the cache key holds the user value%s %s without %s: values of different types that '
                                 'compare equal (0 and 0j) share an entry, and the entry computed for one type is '
                                 'served for the other (quad(f, [0, 1]) after quad(g, [0j, 1+0j]) received complex '
                                 'nodes)' % ('s' if len(missing) > 1 else '', ', '.join(missing),
                                             ', '.join('type(%s)' % v for v in missing)), line=kd.lineno))
            else:
                run.ok('D-R1h', '%s: key `%s` carries the types of %s' % (qn, norm(kd.value, 60), ', '.join(vals)))
    # memoize
    f = ix.func('mpmath/ctx_base.py', 'StandardBaseContext.memoize.f_cached')
    keyassigns = [x for x in _walk_own(f.node) if isinstance(x, ast.Assign) and
                  isinstance(x.targets[0], ast.Name) and x.targets[0].id == 'key']
    final = max(keyassigns, key=lambda x: x.lineno)
    txt = norm(final.value, 300).replace(' ', '')
    need = ['type(v)forvin%s' % f.vararg, 'type(v)forvin%s.values()' % f.kwarg]
    look = [c for c in _walk_own(f.node) if isinstance(c, ast.Compare) and norm(c.left) == 'key' and
            c.lineno > final.lineno]
    if all(n_ in txt for n_ in need) and 'key' in [n_.id for n_ in ast.walk(final.value) if isinstance(n_, ast.Name)] \
            and look:
        run.ok('D-R1h', 'memoize: the key is extended by the types of the positional and keyword argument values '
               'before the lookup')
    else:
        run.fail(Finding('D-R1h', f.file, f.qualname, norm(final),
                         'the memoize key holds the argument values without their types: 3 and mpf(3) (0 and 0j) share '
                         'an entry, and h(mpf(3)) at 100 bits is served the 53-bit float computed for h(3)',
                         line=final.lineno))


def check_guarded_partial_key(run, ix):
    """D-R1i.  stieltjes caches (precision, value) under n alone, for the default second argument: lookup and store are
    guarded by `a == 1`.  The guard also holds for objects that are equal to 1 but not 1 (mpc(1, 0)), and the value
    computed from such an `a` has its type.  Decided: inside the guard the parameter is replaced by the canonical
    constant before anything is computed from it, so that what is stored under n does not depend on which equal
    object was passed."""
    f = ix.func('mpmath/functions/zeta.py', 'stieltjes')
    stores = [x for x in _walk_own(f.node) if isinstance(x, ast.Assign) and isinstance(x.targets[0], ast.Subscript)
              and norm(x.targets[0].value) == 'stieltjes_cache']
    if not stores:
        raise AnalysisError('stieltjes: cache store not found')
    par = f.params[2]
    guards = [x for x in f.node.body if isinstance(x, ast.If) and norm(x.test) == '%s == 1' % par]
    canon = [a for g in guards for a in g.body if isinstance(a, ast.Assign) and norm(a.targets[0]) == par and
             norm(a.value) in ('ctx.one', '1', 'ctx.mpf(1)')]
    firstuse = min([x.lineno for x in _walk_own(f.node) if isinstance(x, ast.Name) and x.id == par and
                    isinstance(x.ctx, ast.Load) and not any(x in list(ast.walk(g.test)) for g in guards)
                    and x.lineno > (guards[0].lineno if guards else 0)] or [0])
    if canon and canon[0].lineno <= firstuse:
        run.ok('D-R1i', 'stieltjes: under `%s == 1` the argument is replaced by the canonical 1 before it is used' % par)
    else:
        run.fail(Finding('D-R1i', f.file, f.qualname, norm(stores[0]),
                         'the value stored under n is computed from whatever object satisfied `%s == 1`: after '
                         'stieltjes(2, 1+0j) the complex-typed value is returned for stieltjes(2)' % par,
                         line=stores[0].lineno))


def check_lu_overwrite(run, ix):
    """D-LU3.  LU_decomp(A, overwrite=True) is documented to leave the factors in A; the cached factors may be
    returned only when overwrite is off (otherwise the in-place effect depends on an earlier call)."""
    f = ix.func('mpmath/matrices/linalg.py', 'LinearAlgebraMethods.LU_decomp')
    if 'overwrite' not in f.params:
        raise AnalysisError('LU_decomp lost its overwrite parameter')
    hits = [x for x in _walk_own(f.node) if isinstance(x, ast.If) and '._LU' in norm(x.test) and
            any(isinstance(r, ast.Return) for r in x.body)]
    if not hits:
        raise AnalysisError('LU_decomp: cache-hit branch not found')
    for h in hits:
        cs = [norm(c) for c in conjuncts(h.test)]
        if 'not overwrite' in cs:
            run.ok('D-LU3', 'cached factors are returned only when overwrite is off')
        else:
            run.fail(Finding('D-LU3', f.file, f.qualname, 'if %s' % norm(h.test, 120),
                             'the cached factors are returned without looking at `overwrite`: after an earlier lu(A), '
                             'LU_decomp(A, overwrite=True) leaves A unchanged although it is documented to receive the '
                             'factors', line=h.lineno))


def check_rs(run, ix):
    f = ix.func('mpmath/functions/rszeta.py', 'coef')
    # hit: J <= stored J  and  eps >= stored eps
    hits = sorted([r for r in _walk_own(f.node) if isinstance(r, ast.Return)],
                  key=lambda r: r.lineno)
    first = hits[0] if hits else None
    ok = False
    if first is not None:
        for a in ancestors(first):
            if isinstance(a, ast.If):
                cs = [norm(c) for c in conjuncts(a.test)]
                if any(c.startswith('J <=') for c in cs) and any(c.startswith('eps >=') for c in cs):
                    ok = True
    if ok:
        run.ok('D-R1a', 'rs coefficient cache reused only for J <= stored and eps >= stored')
    else:
        run.fail(Finding('D-R1a', f.file, f.qualname, norm(first) if first else 'def coef',
                         'Riemann-Siegel coefficient cache is not gated on (J <= stored J and '
                         'eps >= stored eps)', line=getattr(first, 'lineno', f.lineno)))


# ---------------------------------------------------------------------------
def check_keyed_store_precision(run, ix):
    """D-R1f: what is stored under a precision key was computed AT that precision, independently of
    the caller's rounding mode.  For every keyed cache: the entry containers (aliases of
    cache[K] / cache.get(K), their tuple components, local containers stored as cache[K] = (...))
    are found; every value stored into one of them is traced to the kernel calls that produce it;
    a call that takes the function's requested precision instead of the key precision, or the
    caller's rounding mode, is the finding (a later request at a higher precision that maps to the
    same key would be served the lower-precision value)."""
    for row in tables.CACHES:
        if row['kind'] != 'keyed':
            continue
        f = ix.func(row['file'], row['func'])
        cname = row['container']
        derived = prec_derived_names(f)
        params = set(f.all_params())
        req = [p for p in ('prec',) if p in params]
        # key names: precision expressions used to index the cache
        keynames = set()
        for x in _walk_own(f.node):
            k = None
            if isinstance(x, ast.Subscript) and norm(x.value) == cname:
                k = x.slice
            elif isinstance(x, ast.Call) and isinstance(x.func, ast.Attribute) and \
                    norm(x.func.value) == cname and x.func.attr == 'get' and x.args:
                k = x.args[0]
            if k is not None:
                for n in ast.walk(k):
                    if isinstance(n, ast.Name) and (n.id in derived or n.id in PRECISION_NAMES):
                        keynames.add(n.id)
        # entry aliases
        aliases = set()
        changed = True
        while changed:
            changed = False
            for x in _walk_own(f.node):
                if not isinstance(x, ast.Assign):
                    continue
                v = x.value
                src_is_entry = False
                if isinstance(v, ast.Subscript) and norm(v.value) == cname:
                    src_is_entry = True
                elif isinstance(v, ast.Call) and isinstance(v.func, ast.Attribute) and \
                        norm(v.func.value) == cname and v.func.attr in ('get', 'setdefault'):
                    src_is_entry = True
                elif isinstance(v, ast.Name) and v.id in aliases:
                    src_is_entry = True
                if src_is_entry:
                    for t in x.targets:
                        for n in ast.walk(t):
                            if isinstance(n, ast.Name) and n.id not in aliases:
                                aliases.add(n.id)
                                changed = True
                # cache[K] = (numbers, state): locals stored as the entry
                for t in x.targets:
                    if isinstance(t, ast.Subscript) and norm(t.value) == cname:
                        for n in ast.walk(v):
                            if isinstance(n, ast.Name) and n.id not in aliases and n.id not in params and \
                                    n.id not in derived:
                                aliases.add(n.id)
                                changed = True
        # stores into entry containers (and directly into the cache)
        defs = {}
        for x in _walk_own(f.node):
            if isinstance(x, ast.Assign):
                for t in x.targets:
                    if isinstance(t, ast.Name):
                        defs.setdefault(t.id, []).append(x.value)
        stores = []
        for x in _walk_own(f.node):
            if isinstance(x, ast.Assign):
                for t in x.targets:
                    if isinstance(t, ast.Subscript) and (norm(t.value) == cname or
                                                         (isinstance(t.value, ast.Name) and t.value.id in aliases)):
                        stores.append((x, x.value))
            elif isinstance(x, ast.Call) and isinstance(x.func, ast.Attribute) and x.func.attr == 'append' and \
                    isinstance(x.func.value, ast.Name) and x.func.value.id in aliases and x.args:
                stores.append((enclosing_stmt(x), x.args[0]))
        for st, v in stores:
            calls = []
            seen = set()
            todo = [v]
            while todo:
                e = todo.pop()
                for n in ast.walk(e):
                    if isinstance(n, ast.Call):
                        calls.append(n)
                    elif isinstance(n, ast.Name) and n.id in defs and n.id not in seen and \
                            n.id not in aliases:
                        seen.add(n.id)
                        todo.extend(defs[n.id])
            bad = None
            for c in calls:
                argnames = [a.id for a in c.args if isinstance(a, ast.Name)] + \
                           [k.value.id for k in c.keywords if isinstance(k.value, ast.Name)]
                for a in argnames:
                    if a in req and a not in keynames and keynames:
                        bad = (c, 'is computed at the requested precision `%s`, not at the key precision `%s`'
                               % (a, '/'.join(sorted(keynames))))
                    elif a in ('rnd', 'rounding') and a in params:
                        bad = (c, 'depends on the caller\'s rounding mode `%s`' % a)
            if bad:
                c, why = bad
                run.fail(Finding('D-R1f', f.file, f.qualname, norm(st),
                                 'the value stored in the precision-keyed cache %s %s (`%s`): a later request '
                                 'that maps to the same key is served this value' % (cname, why, norm(c, 60)),
                                 line=st.lineno))
            else:
                run.ok('D-R1f', '%s: `%s`' % (f.qualname, norm(st, 70)))


PRECISION_NAMES = ('prec', 'wp')
