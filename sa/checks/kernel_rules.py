"""Shared obligations over kernel summaries of Engine B (used by C02/C03/C04/
C06/C07/C13)."""
import ast

from ..index import AnalysisError, norm
from ..prec_effect import _walk_own
from ..report import Finding
from ..round_flow import describe, bounded_by_P, mode_text
from .c10 import get_round_engine, ok_class


def iter_R(c):
    if c[0] == 'R':
        yield c
    elif c[0] == 'P':
        for k in c[1] | c[2]:
            for r in iter_R(k):
                yield r


def bad_mode(c):
    return any(r[2] != 'v' for r in iter_R(c))


def bad_single(c):
    return any(not r[3] for r in iter_R(c))


def bad_bound(c):
    return not ok_class(c)


def find_return(eng, f, pname, consts, pred, depth=0):
    """deepest (function, return node, offending classes) for predicate pred"""
    ka = eng.analyse_detail(f, pname, consts)
    best = None
    for node, classes, w in sorted(ka.returns, key=lambda r: r[0].lineno):
        bad = [c for c in classes if pred(c)]
        if not bad:
            continue
        v = node.value
        if depth < 5 and isinstance(v, ast.Call):
            name = ka.callee_name(v)
            if name:
                for g in eng.resolve(name):
                    gp = 'prec' if 'prec' in g.params else None
                    if gp is None:
                        continue
                    actual = {}
                    for i, a in enumerate(v.args):
                        if i < len(g.params) and not isinstance(a, ast.Starred):
                            actual[g.params[i]] = a
                    for k in v.keywords:
                        if k.arg:
                            actual[k.arg] = k.value
                    # only descend when the callee is called with exactly our (prec, rnd)
                    pe, re_ = actual.get(gp), actual.get('rnd')
                    if pe is not None and norm(pe) == pname and re_ is not None and \
                            norm(re_) in ('rnd', 'rounding'):
                        gc = ka.const_args(g, actual, w)
                        if any(pred(c) for c in eng.summary(g, gp, gc)):
                            sub = find_return(eng, g, gp, gc, pred, depth + 1)
                            if sub is not None:
                                return sub
        if best is None:
            best = (f, node, bad)
    return best


def kernel_obligations(run, ix, names, rule_bound='B-R1', rule_mode='B-R3', rule_single='B-R4',
                       mode=True, single=True, consts=frozenset(), why=''):
    eng = get_round_engine(ix)
    for name in names:
        fs = eng.resolve(name)
        if not fs:
            raise AnalysisError('kernel vanished: %s' % name)
        for f in fs:
            pname = 'prec' if 'prec' in f.params else None
            if pname is None:
                raise AnalysisError('kernel %s has no prec parameter' % f.qualname)
            s = eng.summary(f, pname, consts)
            if not s:
                raise AnalysisError('no return classified in %s' % f.qualname)
            checks = [(rule_bound, bad_bound,
                       'result is not bounded by the requested precision')]
            if mode:
                checks.append((rule_mode, bad_mode,
                               'result is not rounded in the caller\'s rounding mode'))
            if single:
                checks.append((rule_single, bad_single,
                               'result is a rounding of an already rounded intermediate '
                               '(not a single rounding of the exact value)'))
            for rule, pred, text in checks:
                if rule is None:
                    continue
                bad = [c for c in s if pred(c)]
                if not bad:
                    run.ok(rule, '%s: %s' % (f.qualname,
                                             ' | '.join(sorted(describe(c) for c in s))[:110]))
                    continue
                b = find_return(eng, f, pname, consts, pred) or (f, f.node, bad)
                g, node, cls = b
                run.fail(Finding(rule, g.file, g.qualname, norm(node),
                                 '%s: %s%s' % (text, '; '.join(sorted(set(describe(c)[:150] for c in cls))),
                                               (' [obligation of %s%s]' % (f.qualname, why))
                                               if g is not f else ''),
                                 line=node.lineno))


def check_mode_tables(run, ix, rule='B-R3'):
    """the three mode tables, as values (any behaviour-preserving edit keeps
    these facts true)"""
    m = ix.module('mpmath/libmp/libmpf.py')
    consts = {}
    for name, value, st, g in m.toplevel_assigns:
        if isinstance(value, ast.Call) and norm(value.func) == 'intern' and \
                isinstance(value.args[0], ast.Constant):
            consts[name] = value.args[0].value
        elif isinstance(value, ast.Name) and value.id in consts:
            consts[name] = consts[value.id]
    need = {'round_nearest': 'n', 'round_floor': 'f', 'round_ceiling': 'c', 'round_up': 'u',
            'round_down': 'd'}
    for k, v in need.items():
        if consts.get(k) != v:
            run.fail(Finding(rule, m.relpath, '<module>', k,
                             'rounding mode constant %s is %r, expected %r' % (k, consts.get(k), v)))
            return
    run.ok(rule, 'five distinct rounding mode constants')

    def table(name):
        for n, value, st, g in m.toplevel_assigns:
            if n == name and isinstance(value, ast.Dict):
                out = {}
                for k, v in zip(value.keys, value.values):
                    kk = consts.get(norm(k))
                    if isinstance(v, ast.Tuple):
                        vv = tuple(x.value for x in v.elts)
                    else:
                        vv = consts.get(norm(v))
                    out[kk] = vv
                return out, st
        raise AnalysisError('mode table %s vanished' % name)
    # shifts_down[m][s] == 1  iff truncating the magnitude of a value with sign
    # bit s moves it in direction m
    want_sd = {'f': (1, 0), 'c': (0, 1), 'd': (1, 1), 'u': (0, 0)}
    want_neg = {'d': 'd', 'u': 'u', 'f': 'c', 'c': 'f', 'n': 'n'}
    want_rec = {'d': 'u', 'u': 'd', 'f': 'c', 'c': 'f', 'n': 'n'}
    for name, want in (('shifts_down', want_sd), ('negative_rnd', want_neg),
                       ('reciprocal_rnd', want_rec)):
        got, st = table(name)
        if got == want:
            run.ok(rule, 'table %s has the directed-rounding semantics' % name)
        else:
            diff = sorted(k for k in set(got) | set(want) if got.get(k) != want.get(k))
            run.fail(Finding(rule, m.relpath, '<module>', '%s = {...}' % name,
                             'mode table %s is wrong for mode(s) %s: has %s, directed rounding '
                             'requires %s' % (name, diff, [got.get(k) for k in diff],
                                              [want.get(k) for k in diff]), line=st.lineno))


def check_operator_threading(run, ix, rule, classname, kernels_prefix=('mpf_', 'mpc_')):
    """every arithmetic kernel call in the operator methods of a number class
    receives the context's (prec, rounding) pair as its last two arguments"""
    rel = 'mpmath/ctx_mp_python.py'
    m = ix.module(rel)
    n = 0
    exempt = ('mpf_eq', 'mpf_cmp', 'mpf_lt', 'mpf_le', 'mpf_gt', 'mpf_ge', 'mpf_hash',
              'mpc_hash', 'mpc_is_nonzero', 'mpc_to_str', 'mpc_to_complex', 'mpf_convert_rhs',
              'mpf_convert_lhs', 'mpc_convert_lhs', 'mpf_convert_arg')
    for f in m.funcs.values():
        if f.cls != classname and not f.qualname.startswith(classname + '.'):
            continue
        if f.parent is not None:
            continue
        pair = None
        for x in _walk_own(f.node):
            if isinstance(x, ast.Assign) and isinstance(x.targets[0], ast.Tuple):
                t = x.targets[0]
                if norm(x.value).endswith('._ctxdata') and len(t.elts) == 3 and \
                        isinstance(t.elts[2], ast.Tuple):
                    pair = [norm(e) for e in t.elts[2].elts]
                elif norm(x.value).endswith('._prec_rounding') and len(t.elts) == 2:
                    pair = [norm(e) for e in t.elts]
        for x in _walk_own(f.node):
            if isinstance(x, ast.Call) and isinstance(x.func, ast.Name) and \
                    x.func.id.startswith(kernels_prefix) and x.func.id not in exempt:
                n += 1
                args = [norm(a) for a in x.args]
                if pair and len(args) >= 2 and args[-2:] == pair:
                    run.ok(rule, '%s: %s' % (f.qualname, norm(x, 70)) if n < 6 else None)
                else:
                    st = x
                    while not isinstance(st, ast.stmt):
                        st = st._parent
                    run.fail(Finding(rule, rel, f.qualname, norm(st),
                                     'kernel call does not receive the context\'s (prec, rounding) '
                                     'as its last two arguments: %s' % norm(x, 80), line=None))
    return n


def check_exact_operand_conversion(run, ix, rule):
    """In the operator machinery of the number classes (generated _mpf operators, the hand-written
    _mpc operators, mpf_convert_rhs / mpf_convert_lhs) a Python int or float operand is converted
    EXACTLY: from_int / from_float are called with the operand only.  A precision argument there
    rounds the operand before the operation (double rounding for + - * /; a different exponent for
    x ** n), which the single final rounding cannot undo."""
    rel = 'mpmath/ctx_mp_python.py'
    m = ix.module(rel)
    fs = [f for f in m.funcs.values()
          if (f.cls in ('_mpf', '_mpc') or f.qualname.startswith(('_mpf.', '_mpc.'))) and
          (f.name.startswith('__') or f.name in ('mpf_convert_rhs', 'mpf_convert_lhs', 'mpc_convert_lhs', '_cmp'))
          and f.name not in ('__new__', '__init__')]
    n = 0
    for f in fs:
        for x in _walk_own(f.node):
            if isinstance(x, ast.Call) and isinstance(x.func, ast.Name) and x.func.id in ('from_int', 'from_float'):
                n += 1
                if len(x.args) == 1 and not x.keywords:
                    run.ok(rule, '%s: %s' % (f.qualname, norm(x)) if n < 6 else None)
                else:
                    st = x
                    while not isinstance(st, ast.stmt):
                        st = st._parent
                    run.fail(Finding(rule, rel, f.qualname, norm(st),
                                     'the Python number operand is converted with `%s`: it is rounded to the '
                                     'working precision BEFORE the operation (for ** the exponent itself '
                                     'changes), instead of exactly' % norm(x), line=None))
    if n < 8:
        raise AnalysisError('operand conversions in the operator machinery not found (%d)' % n)
    return n


def check_amplified_error(run, ix, rule='B-R10'):
    """Error amplification.  In  exp(w * log(z, P))  the error of the logarithm is multiplied by
    |w * log z| before the exponential turns it into a relative error of the result; in
    pow_int(sqrt(s, P), n)  the error of the root is multiplied by n.  When the multiplier is an
    unbounded input (an exponent, an integer n) a CONSTANT number of guard bits (P = prec + c) loses
    log2 of the multiplier bits: x**n for large n is off by thousands of ulps, root(x**n, n) is no
    longer exact.  The precision P of the inner call must therefore depend on the size of the
    multiplier (its expression mentions something besides the precision parameter and constants).
    Shapes recognised: *_exp(<product of a *_log call and anything>) and *_pow_int(<*_sqrt call>, n),
    the inner call given directly or through a local assigned once."""
    n = 0
    for rel in ('mpmath/libmp/libelefun.py', 'mpmath/libmp/libmpc.py'):
        m = ix.module(rel)
        for f in m.funcs.values():
            if f.parent is not None or not isinstance(f.node, ast.FunctionDef) or 'prec' not in f.params:
                continue
            alldefs = {}
            for x in _walk_own(f.node):
                if isinstance(x, ast.Assign) and len(x.targets) == 1 and isinstance(x.targets[0], ast.Name):
                    alldefs.setdefault(x.targets[0].id, []).append(x)

            class _Defs(dict):
                pass
            defs = _Defs()

            def nearest(name, line):
                cands = [a for a in alldefs.get(name, []) if a.lineno <= line]
                if not cands:
                    return None
                return max(cands, key=lambda a: a.lineno).value
            for k_, v_ in alldefs.items():
                defs[k_] = [v_[-1].value] if len(v_) == 1 else []

            def resolve(e):
                if isinstance(e, ast.Name):
                    v = nearest(e.id, getattr(e, 'lineno', 10 ** 9))
                    if v is not None and not (isinstance(v, ast.Name) and v.id == e.id):
                        return v
                return e

            def precision_depends_on_input(pexpr, depth=0):
                """False when the expression is built from the precision parameter and constants only"""
                pexpr = resolve(pexpr)
                for y in ast.walk(pexpr):
                    if isinstance(y, ast.Call):
                        return True
                    if isinstance(y, ast.Name) and y.id not in ('prec', 'wp', 'prec2') and depth < 3:
                        return True
                    if isinstance(y, ast.Name) and y.id in ('wp', 'prec2') and depth < 3:
                        v = nearest(y.id, getattr(y, 'lineno', 10 ** 9))
                        if v is not None and v is not pexpr and precision_depends_on_input(v, depth + 1):
                            return True
                return False

            def inner_calls(e, names):
                e = resolve(e)
                out = []
                for y in ast.walk(e):
                    if isinstance(y, ast.Call) and isinstance(y.func, ast.Name) and y.func.id in names:
                        out.append(y)
                    elif isinstance(y, ast.Name) and len(defs.get(y.id, [])) == 1 and y is not e:
                        v = defs[y.id][0]
                        if isinstance(v, ast.Call) and isinstance(v.func, ast.Name) and v.func.id in names:
                            out.append(v)
                return out
            for x in _walk_own(f.node):
                if not (isinstance(x, ast.Call) and isinstance(x.func, ast.Name)):
                    continue
                sites = []
                if x.func.id in ('mpf_exp', 'mpc_exp') and x.args:
                    prod = resolve(x.args[0])
                    if isinstance(prod, ast.Call) and isinstance(prod.func, ast.Name) and \
                            prod.func.id in ('mpf_mul', 'mpc_mul', 'mpc_mul_int', 'mpc_mul_mpf', 'mpf_mul_int'):
                        for lg in inner_calls(prod, ('mpf_log', 'mpc_log')):
                            sites.append((lg, 'the logarithm', 'multiplied by the exponent'))
                if x.func.id in ('mpf_pow_int', 'mpc_pow_int') and len(x.args) >= 2 and \
                        not isinstance(x.args[1], ast.Constant):
                    for sq in inner_calls(x.args[0], ('mpf_sqrt', 'mpc_sqrt')):
                        sites.append((sq, 'the square root', 'raised to a variable integer power'))
                for call, what, how in sites:
                    n += 1
                    pexpr = call.args[1] if len(call.args) > 1 else None
                    if pexpr is not None and precision_depends_on_input(pexpr):
                        run.ok(rule, '%s: %s is computed at `%s`' % (f.name, what, norm(resolve(pexpr), 60)))
                    else:
                        st = x
                        while not isinstance(st, ast.stmt):
                            st = st._parent
                        run.fail(Finding(rule, rel, f.name, norm(st),
                                         '%s is computed with a constant number of guard bits (`%s`) and then %s: '
                                         'its error is amplified by the size of that multiplier, so for large '
                                         'exponents / huge or tiny arguments the result loses that many bits '
                                         '(exact powers and roots are no longer exact)'
                                         % (what, norm(pexpr) if pexpr is not None else 'default', how),
                                         line=st.lineno))
    return n
